#!/bin/sh
# Build the framework offline: cold Kani build of the real crate (deps + crate) into
# /verif/.build/kani and a first Verus run (warms vstd). No network needed.
set -e
cd "$(dirname "$0")"
export CARGO_NET_OFFLINE=true
mkdir -p .build/verus .build/replay evidence replays
# warm Verus
python3 - <<'PY'
import sys; sys.path.insert(0, '.')
from lib import verus_run as V
from verus.units import UNITS
for n,u in UNITS.items():
    r = V.run_unit(n,u); print('verus unit', n, r['status'])
PY
# cold Kani build: compile everything, verify one tiny harness
cd /repo
cargo kani -Z function-contracts -Z stubbing -Z unstable-options --target-dir /verif/.build/kani \
  --exact --harness dht::core_engine::verif_proofs::c02_distance_is_xor --output-format terse | tail -5
# cold build of the native-search / replay test binary (cargo kani playback: cfg(kani) + cfg(test)) into
# /verif/.build/kani-pb, by running one small search
cd /verif
python3 - <<'PY'
import sys; sys.path.insert(0, '.')
from lib import kani_run as K
hit, log = K.native_search("verif_search_c09")
print("native search binary built:", "did not run" not in (log or ""), "| hit:", hit)
PY
