"""Run Kani harnesses compiled inside the real crate and parse per-check results."""
import glob, json, os, re, subprocess, threading, time

REPO = os.environ.get("VERIF_REPO", "/repo")
ROOT = os.path.dirname(os.path.dirname(os.path.abspath(__file__)))
BUILD = os.path.join(ROOT, ".build")
TARGET = os.environ.get("VERIF_KANI_TARGET") or os.path.join(BUILD, "kani")
PB_TARGET = os.path.join(BUILD, "kani-pb")
KANI_FLAGS = ["-Z", "function-contracts", "-Z", "stubbing", "-Z", "unstable-options"]

ENV = dict(os.environ, CARGO_NET_OFFLINE="true")

ANNOT = re.compile(r"//\s*@verif\s+(.*)$")


def _item_text(text, name):
    m = re.search(r"^(?:macro_rules!\s+" + re.escape(name) + r"|(?:pub(?:\([^)]*\))?\s+)?fn\s+" + re.escape(name) + r")\b", text, re.M)
    if not m:
        return ""
    o = text.find("{", m.end())
    depth, i = 0, o
    while i < len(text):
        if text[i] == "{":
            depth += 1
        elif text[i] == "}":
            depth -= 1
            if depth == 0:
                return text[m.start():i + 1]
        i += 1
    return ""


def scan_harnesses():
    """Parse /verif/kani/*_proofs.rs: each harness is preceded by `// @verif k=v ...` lines.
    Returns list of dict(name, file, module, property, class, bound, fns, tiers, obligations,
    stubs, assumes, covers)."""
    out = []
    for path in sorted(glob.glob(os.path.join(ROOT, "kani", "*_proofs.rs"))):
        with open(path) as f:
            text = f.read()
        mod_m = re.search(r"//!\s*@module\s+(\S+)", text)
        module = mod_m.group(1) if mod_m else None
        lines = text.split("\n")
        i = 0
        while i < len(lines):
            m = ANNOT.search(lines[i])
            if not m:
                i += 1
                continue
            meta = {}
            while i < len(lines) and ANNOT.search(lines[i]):
                for k, v in re.findall(r'(\w+)=("[^"]*"|\S+)', ANNOT.search(lines[i]).group(1)):
                    meta[k] = v.strip('"')
                i += 1
            attrs = []
            while i < len(lines) and not re.match(r"\s*(pub\s+)?fn\s+\w+|\s*\w+!\(\s*\w+\s*,", lines[i]):
                attrs.append(lines[i])
                i += 1
            if i >= len(lines):
                break
            mm = re.match(r"\s*\w+!\(\s*(\w+)\s*,", lines[i])
            if mm:
                name = mm.group(1)
            else:
                name = re.match(r"\s*(?:pub\s+)?fn\s+(\w+)", lines[i]).group(1)
            # body = until matching close at column 0 "}"
            j = i
            depth = 0
            started = False
            body = []
            while j < len(lines):
                body.append(lines[j])
                if mm:
                    break
                depth += lines[j].count("{") - lines[j].count("}")
                if "{" in lines[j]:
                    started = True
                if started and depth <= 0:
                    break
                j += 1
            btxt = "\n".join(body)
            atxt = "\n".join(attrs)
            for used in [u for u in meta.get("uses", "").split(",") if u]:
                ut = _item_text(text, used)
                btxt += "\n" + ut
                if ut.lstrip().startswith("macro_rules"):
                    atxt += "\n" + ut
            h = {
                "name": name, "file": path, "module": module,
                "full": f"{module}::{name}",
                "property": meta.get("property"),
                "class": meta.get("class", "bounded"),
                "bound": meta.get("bound", ""),
                "fns": [x for x in meta.get("fns", "").split(",") if x],
                "tiers": meta.get("tier", "quick,thorough").split(","),
                "panic": meta.get("panic", "undecided"),
                "replay": meta.get("replay", "native"),
                "cbmc_args": [x for x in meta.get("cbmc_args", "").split(";") if x],
                "vacuous_ok": [x for x in meta.get("vacuous_ok", "").split(",") if x],
                "unwindset": [tuple(x.rsplit(":", 1)) for x in meta.get("unwindset", "").split(",") if ":" in x],
                "obligations": sorted(set(re.findall(r'"(C\d\d/[^"\s]+)"', btxt))),
                "stubs": re.findall(r"kani::stub(?:_verified)?\(([^)]*)\)", atxt),
                "stub_verified": re.findall(r"kani::stub_verified\(([^)]*)\)", atxt),
                "contract_for": re.findall(r"kani::proof_for_contract\(([^)]*)\)", atxt),
                "unwind": re.findall(r"kani::unwind\((\d+)\)", atxt),
                "assumes": len(re.findall(r"kani::assume\(", btxt)),
                "covers": len(re.findall(r"kani::cover!\(", btxt)),
            }
            out.append(h)
            i = j + 1
    return out


def run_harnesses(harnesses, jobs=4, harness_timeout=900, outer_timeout=3600, tag="run", mem_limit_gb=14):
    """Run the given harness dicts in one cargo-kani invocation. Returns (results, raw) where
    results maps full harness name -> dict(status, checks[], duration_ms)."""
    os.makedirs(BUILD, exist_ok=True)
    jpath = os.path.join(BUILD, f"kani_{tag}.json")
    if os.path.exists(jpath):
        os.remove(jpath)
    cmd = ["cargo", "kani"] + KANI_FLAGS + ["--target-dir", TARGET, "--exact"]
    for h in harnesses:
        cmd += ["--harness", h["full"]]
    cmd += ["--harness-timeout", f"{harness_timeout}s", "-j", str(jobs), "--output-format", "terse",
            "--export-json", jpath]
    t0 = time.time()
    uws, uw_notes = resolve_unwindsets(harnesses)
    extra = []
    for h in harnesses:
        for a in h.get("cbmc_args", []):
            if a not in extra:
                extra.append(a)
    cb = []
    if uws:
        cb += ["--unwindset", ",".join(f"{k}:{v}" for k, v in sorted(uws.items()))]
    for a in extra:
        cb += a.split()
    if cb:
        cmd += ["--cbmc-args"] + cb
    killed = []
    def _unlimited_stack():
        # CBMC's symbolic execution recurses deeply on this crate; with the default 8 MiB stack it
        # segfaults (exit 139) on several harnesses
        import resource
        try:
            resource.setrlimit(resource.RLIMIT_STACK, (resource.RLIM_INFINITY, resource.RLIM_INFINITY))
        except (ValueError, OSError):
            pass

    proc = subprocess.Popen(cmd, cwd=REPO, env=ENV, stdout=subprocess.PIPE, stderr=subprocess.STDOUT, text=True,
                            start_new_session=True, preexec_fn=_unlimited_stack)
    stop = threading.Event()

    def watchdog():
        # kill any CBMC process of this run whose RSS passes the limit (-> harness undecided, never a violation)
        while not stop.wait(5):
            try:
                ps = subprocess.run(["ps", "-eo", "pid,sid,rss,comm"], capture_output=True, text=True).stdout
                for line in ps.splitlines()[1:]:
                    f = line.split()
                    if len(f) >= 4 and f[3] == "cbmc" and int(f[1]) == proc.pid and int(f[2]) > mem_limit_gb * 1024 * 1024:
                        os.kill(int(f[0]), 9)
                        killed.append(int(f[0]))
            except Exception:
                pass

    th = threading.Thread(target=watchdog, daemon=True)
    th.start()
    try:
        out, _ = proc.communicate(timeout=outer_timeout)
        rc = proc.returncode
    except subprocess.TimeoutExpired:
        os.killpg(proc.pid, 9)
        out, _ = proc.communicate()
        out = (out or "") + "\n[outer timeout]"
        rc = -9
    stop.set()
    wall = time.time() - t0
    raw = {"cmd": " ".join(cmd), "rc": rc, "wall_s": round(wall, 1), "tail": out[-8000:], "killed_for_memory": killed}
    results = {}
    data = None
    if os.path.exists(jpath):
        try:
            with open(jpath) as f:
                data = json.load(f)
        except Exception as e:
            raw["json_error"] = str(e)
    if data:
        raw["tools"] = data.get("tools")
        stats = {c["harness_id"]: c for c in data.get("cbmc", [])}
        for r in data.get("verification_results", {}).get("results", []):
            hid = r["harness_id"]
            st = stats.get(hid, {})
            results[hid] = {"status": r.get("status"), "duration_ms": r.get("duration_ms"),
                            "checks": r.get("checks", []),
                            "solver": (st.get("configuration") or {}).get("solver"),
                            "cbmc_stats": st.get("cbmc_stats")}
    # compile error?
    if rc != 0 and not results:
        raw["build_failed"] = bool(re.search(r"error(\[E\d+\])?:", out)) or True
    return results, raw


def resolve_unwindsets(harnesses):
    """Per-loop unwinding bounds: harness annotations name loops by a substring of the function's
    pretty name; loop ids are discovered on every run with `cbmc --show-loops` on the harness's goto
    binary (ids contain crate hashes and impl ordinals, so they are never hard-coded).
    Unwinding assertions stay on, so a bound that is too small yields UNDECIDED, never a wrong verdict."""
    need = [h for h in harnesses if h.get("unwindset")]
    if not need:
        return {}, []
    cmd = ["cargo", "kani"] + KANI_FLAGS + ["--target-dir", TARGET, "--exact", "--only-codegen"]
    for h in harnesses:
        cmd += ["--harness", h["full"]]
    subprocess.run(cmd, cwd=REPO, env=ENV, capture_output=True, text=True)
    out, notes = {}, []
    for h in need:
        suffix = f"{len(h['name'])}{h['name']}.out"
        cands = [f for f in glob.glob(os.path.join(TARGET, "kani", "*", "debug", "build", "*", "*", "out", "*" + suffix))
                 if not f.endswith(".symtab.out")]
        if not cands:
            notes.append(f"no goto binary found for {h['name']}")
            continue
        f = max(cands, key=os.path.getmtime)
        p = subprocess.run(["cbmc", "--show-loops", f], capture_output=True, text=True)
        loops = re.findall(r"^Loop (\S+):\n\s+file (\S+)(?: line (\d+))?.*? function (.*)$", p.stdout, re.M)
        for pat, n in h["unwindset"]:
            # `fnpat~text`: only loops of a matching function whose source line contains `text`
            pat, _, text = pat.partition("~")
            hit = []
            for lid, lfile, lline, fn in loops:
                if not (pat in fn or pat in lid):
                    continue
                if text:
                    if not lline or text not in _src_line(lfile, int(lline)):
                        continue
                hit.append(lid)
            if not hit and pat in ("memcmp", "memcpy", "memmove", "memset", "strlen"):
                # CBMC's built-in library bodies are linked in only when CBMC runs, so their loops
                # are not in the goto binary yet; their ids are fixed
                hit = [pat + ".0"]
            if not hit:
                notes.append(f"{h['name']}: unwindset pattern {pat!r} matched no loop")
            for lid in hit:
                out[lid] = max(int(n), int(out.get(lid, 0)))
    return out, notes


_SRC_CACHE = {}


def _src_line(path, n):
    if not os.path.isabs(path):
        path = os.path.join(REPO, path)
    if path not in _SRC_CACHE:
        try:
            with open(path) as f:
                _SRC_CACHE[path] = f.read().split("\n")
        except OSError:
            _SRC_CACHE[path] = []
    L = _SRC_CACHE[path]
    return L[n - 1] if 0 < n <= len(L) else ""


def classify(h, r):
    """Given harness meta and its result, return dict(state, obligations[], detail).
    state: ok | violation | undecided | vacuous"""
    res = {"harness": h["full"], "class": h["class"], "bound": h["bound"], "obligations": [],
           "state": "ok", "detail": [], "safety_checks": 0, "safety_discharged": 0}
    if r is None:
        res["state"] = "undecided"
        res["detail"].append("no result for harness (build failure, timeout or crash)")
        return res
    checks = r["checks"]
    res["duration_ms"] = r.get("duration_ms")
    res["solver"] = r.get("solver")
    unwind_fail = [c for c in checks if c.get("category") == "unwind" and c["status"] != "Success"]
    by_name = {}
    for c in checks:
        d = c.get("description", "")
        m = re.search(r"(C\d\d/[^\s\"]+)", d)
        if m and c.get("category") in ("assertion", "cover", None) or (m and True):
            by_name.setdefault(m.group(1), []).append(c)
    expected = set(h["obligations"])
    seen = set()
    viol, undec, vac = [], [], []
    for name, cs in sorted(by_name.items()):
        is_cover = any(c.get("category") == "cover" for c in cs)
        sts = set(c["status"].upper() for c in cs)
        seen.add(name)
        if is_cover:
            ok = sts <= {"SATISFIED"}
            st = "discharged" if ok else "cover-unsatisfied"
            if not ok and name in h.get("vacuous_ok", []):
                st = "unreachable-in-this-instance"
            elif not ok:
                vac.append(name)
        elif "FAILURE" in sts:
            st = "failed"
            viol.append(name)
        elif sts <= {"SUCCESS"}:
            st = "discharged"
        elif "UNREACHABLE" in sts and not (sts - {"UNREACHABLE", "SUCCESS"}):
            # an assert replicated by inlining may be unreachable in some copies
            if "SUCCESS" in sts:
                st = "discharged"
            elif name in h.get("vacuous_ok", []):
                # declared in the harness annotation: this instance (e.g. the empty bucket) cannot
                # reach the assertion; other instances of the same check do
                st = "unreachable-in-this-instance"
            else:
                st = "unreachable"
                vac.append(name)
        else:
            st = "undetermined"
            undec.append(name)
        res["obligations"].append({"name": name, "status": st, "engine": "kani/cbmc+" + str(r.get("solver")),
                                   "class": h["class"] + (f"({h['bound']})" if h["bound"] else ""),
                                   "harness": h["name"], "kind": "cover" if is_cover else "assert"})
    missing = expected - seen - set(h.get("vacuous_ok", []))
    for name in sorted(missing):
        res["obligations"].append({"name": name, "status": "missing", "harness": h["name"]})
    # safety / other checks
    other_fail_repo, other_fail_else = [], []
    for c in checks:
        d = c.get("description", "")
        if re.search(r"C\d\d/", d):
            continue
        cat = c.get("category")
        if d.startswith("NaN on "):
            # CBMC's --nan-check flags every float operation that CAN produce NaN (0.0/0.0, inf-inf). Producing a
            # NaN is defined IEEE-754 behaviour, not a panic; what the code does with it is covered by the
            # named obligations. Counting it as a failed "no panic" obligation was a false alarm (DESIGN 0.5).
            continue
        if cat in ("unwind", "unreachable", "unsupported_construct", "reachability_check"):
            if cat == "unsupported_construct" and c["status"].upper() == "FAILURE":
                other_fail_else.append(c)
            continue
        res["safety_checks"] += 1
        stu = c["status"].upper()
        if stu in ("SUCCESS", "UNREACHABLE"):
            res["safety_discharged"] += 1
        elif stu == "FAILURE":
            f = (c.get("location") or {}).get("file", "")
            if f.startswith(REPO + "/src") or f.startswith("src/"):
                other_fail_repo.append(c)
            else:
                other_fail_else.append(c)
        else:
            undec.append(f"safety:{cat}")
    if unwind_fail:
        res["state"] = "undecided"
        res["detail"].append(f"{len(unwind_fail)} unwinding assertion(s) failed: bound too small for this tree")
        for o in res["obligations"]:
            if o["status"] in ("failed", "undetermined"):
                o["status"] = "undetermined"
        return res
    hs = (r.get("status") or "").lower()
    if viol:
        res["state"] = "violation"
        res["failed"] = viol
    elif other_fail_repo and h["panic"] == "violation":
        res["state"] = "violation"
        nm = f"{h['property']}/{h['name']}/no_panic"
        res["failed"] = [nm]
        res["obligations"].append({"name": nm, "status": "failed", "harness": h["name"], "kind": "safety",
                                   "detail": [f"{c.get('description')} @ {(c.get('location') or {}).get('file')}:{(c.get('location') or {}).get('line')}" for c in other_fail_repo[:5]]})
    elif other_fail_repo or other_fail_else:
        res["state"] = "undecided"
        res["detail"].append("non-property check failed: " + "; ".join(
            f"{c.get('description')} @ {(c.get('location') or {}).get('file')}:{(c.get('location') or {}).get('line')} in {c.get('function')}"
            for c in (other_fail_repo + other_fail_else)[:6]))
    elif undec or missing:
        res["state"] = "undecided"
        res["detail"].append(f"undetermined={undec} missing={sorted(missing)}")
    elif vac:
        res["state"] = "vacuous"
        res["detail"].append(f"vacuity guard tripped: {vac}")
    elif hs not in ("success",):
        nan_only = [c for c in checks if c.get("description", "").startswith("NaN on ") and c["status"].upper() == "FAILURE"]
        others = [c for c in checks if c["status"].upper() == "FAILURE" and not c.get("description", "").startswith("NaN on ")]
        if nan_only and not others:
            res["detail"].append(f"{len(nan_only)} NaN-producing float operation(s) flagged by CBMC's --nan-check (defined IEEE behaviour, not a panic): ignored")
        else:
            res["state"] = "undecided"
            res["detail"].append(f"harness status {r.get('status')} without a failing named obligation")
    if h["panic"] == "violation" and res["state"] == "ok":
        nm = f"{h['property']}/{h['name']}/no_panic"
        res["obligations"].append({"name": nm, "status": "discharged", "harness": h["name"], "kind": "safety",
                                   "engine": "kani/cbmc", "class": h["class"] + (f"({h['bound']})" if h["bound"] else ""),
                                   "detail": f"{res['safety_checks']} generated safety checks all passed"})
    return res


def concrete_playback(h, timeout=3600):
    """Re-run one failing harness with --concrete-playback=print; return (test_text, log_tail)."""
    cmd = ["cargo", "kani"] + KANI_FLAGS + ["-Z", "concrete-playback", "--concrete-playback=print",
                                             "--target-dir", TARGET, "--exact", "--harness", h["full"],
                                             "--harness-timeout", "1800s"]
    try:
        p = subprocess.run(cmd, cwd=REPO, env=ENV, capture_output=True, text=True, timeout=timeout)
    except subprocess.TimeoutExpired:
        return None, "concrete playback generation timed out"
    out = p.stdout
    tests = re.findall(r"```\n(.*?)```", out, re.S)
    tests = [t for t in tests if "kani::concrete_playback_run" in t]
    return (tests, out[-3000:])


def native_replay(h, test_text, timeout=5400):
    """Compile the real crate natively (cargo kani playback) with the generated unit test placed in
    the replay slot of the harness module, run it, return (reproduced, log_tail, test_name)."""
    slot_dir = os.path.join(BUILD, "replay")
    os.makedirs(slot_dir, exist_ok=True)
    # every proofs module includes its slot under cfg(test); make sure all exist
    for path in glob.glob(os.path.join(ROOT, "kani", "*_proofs.rs")):
        slot = os.path.join(slot_dir, os.path.basename(path).replace("_proofs.rs", ".rs"))
        with open(slot, "w") as f:
            f.write("// replay slot (written by lib/kani_run.py)\n")
    slot = os.path.join(slot_dir, os.path.basename(h["file"]).replace("_proofs.rs", ".rs"))
    with open(slot, "w") as f:
        f.write(test_text)
    tname = re.search(r"fn\s+(kani_concrete_playback_\w+)", test_text).group(1)
    env = dict(ENV, CARGO_TARGET_DIR=PB_TARGET, RUST_BACKTRACE="0")
    cmd = ["cargo", "kani", "playback", "-Z", "concrete-playback", "-Z", "function-contracts", "-Z", "stubbing",
           "--lib", "--", tname, "--exact".replace("--exact", "--nocapture")]
    try:
        p = subprocess.run(cmd, cwd=REPO, env=env, capture_output=True, text=True, timeout=timeout)
        out = p.stdout + "\n" + p.stderr
    except subprocess.TimeoutExpired:
        return False, "native replay timed out", tname
    finally:
        with open(slot, "w") as f:
            f.write("// replay slot (written by lib/kani_run.py)\n")
    ran = re.search(r"test result: (\w+)\. (\d+) passed; (\d+) failed", out)
    reproduced = bool(ran and int(ran.group(3)) >= 1)
    return reproduced, out[-4000:], tname


def ensure_replay_slots():
    slot_dir = os.path.join(BUILD, "replay")
    os.makedirs(slot_dir, exist_ok=True)
    for path in glob.glob(os.path.join(ROOT, "kani", "*_proofs.rs")):
        slot = os.path.join(slot_dir, os.path.basename(path).replace("_proofs.rs", ".rs"))
        if not os.path.exists(slot):
            with open(slot, "w") as f:
                f.write("// replay slot (written by lib/kani_run.py)\n")


def native_search(test_name, rounds=None, seed=0, timeout=5400):
    """Run a `#[cfg(test)]` failing-input search that lives in a proofs module, natively against the
    real crate (cargo kani playback builds the crate with cfg(kani)+cfg(test)). Returns
    (hit_message or None, log_tail). A hit is a panic line starting with VERIF-SEARCH-HIT."""
    ensure_replay_slots()
    env = dict(ENV, CARGO_TARGET_DIR=PB_TARGET, RUST_BACKTRACE="0", VERIF_SEED=str(seed))
    if rounds:
        env["VERIF_SEARCH_ROUNDS"] = str(rounds)
    cmd = ["cargo", "kani", "playback", "-Z", "concrete-playback", "-Z", "function-contracts", "-Z", "stubbing",
           "--lib", "--", test_name, "--nocapture"]
    try:
        p = subprocess.run(cmd, cwd=REPO, env=env, capture_output=True, text=True, timeout=timeout)
        out = p.stdout + "\n" + p.stderr
    except subprocess.TimeoutExpired:
        return None, "native search timed out"
    # a hit is the first line of a panic message of a test that RAN (a compiler diagnostic that quotes the source
    # of a search test is not a hit)
    # several search tests may share the filter and each may report a hit: prefer one whose obligation is not a
    # recorded finding (KNOWN_FINDINGS.txt), so that a recorded defect never hides a new one
    hits = re.findall(r"^VERIF-SEARCH-HIT ([^\n]*)", out, re.M)
    known = set()
    try:
        for line in open(os.path.join(ROOT, "KNOWN_FINDINGS.txt")):
            if line.startswith("finding:"):
                mo = re.search(r"obligation=(\S+)", line)
                if mo:
                    known.add(mo.group(1))
    except OSError:
        pass
    fresh = [h for h in hits if h.split()[0] not in known]
    class _M:  # minimal match-like object
        def __init__(self, t): self.t = t
        def group(self, i): return self.t
    m = _M((fresh or hits)[0]) if hits else None
    ran = re.search(r"test result: (\w+)\. (\d+) passed; (\d+) failed", out)
    if "could not compile" in out or not re.search(r"^running \d+ tests?", out, re.M):
        return None, "native search did not run (build failed): " + out[-2500:]
    if m:
        return m.group(1).strip(), out[-3000:]
    if not ran:
        return None, "native search did not run: " + out[-2500:]
    return None, out[-1500:]
