#!/usr/bin/env python3
"""Regenerate MANIFEST.json from lib/manifest_data.py (single source of truth)."""
import json, os, subprocess, sys
ROOT = os.path.dirname(os.path.dirname(os.path.abspath(__file__)))
sys.path.insert(0, ROOT)
from lib.manifest_data import CHECKS, NOT_APPLICABLE, HOOK_COMMIT_SUBJECT_PREFIX

def hook_commits():
    out = subprocess.run(["git", "-C", "/repo", "log", "--format=%H %s"], capture_output=True, text=True).stdout
    return [l.split()[0] for l in out.splitlines() if l.split(" ", 1)[1].startswith(HOOK_COMMIT_SUBJECT_PREFIX)][::-1]

m = {
    "version": 1,
    "setup_cmd": "./setup.sh",
    "hooks": {
        "guard": "cfg(kani)",
        "enable": "cd /repo && cargo kani -Z function-contracts -Z stubbing -Z unstable-options --target-dir /verif/.build/kani --harness <h> (cfg(kani) is set by the Kani compiler only; native replay: cargo kani playback, cfg(kani)+cfg(test))",
        "baseline_off_cmd": "cd /repo && cargo nextest run --workspace --no-fail-fast --tool-config-file pb:/w/lib/nextest.toml --profile pb --test-threads 8 --offline || cargo test --workspace --no-fail-fast --offline",
        "source_commits": hook_commits(),
        "add_only": True,
    },
    "engines": [
        {"name": "kani", "path": "kani/", "serves_properties": sorted(c["property_id"] for c in CHECKS),
         "kind_free_text": "Kani 0.68 proof harnesses + function contracts compiled inside the real crate (cfg(kani)); CBMC 6.11 back end"},
        {"name": "verus", "path": "verus/", "serves_properties": sorted(set(u["property"] for u in __import__("verus.units", fromlist=["UNITS"]).UNITS.values()) & set(c["property_id"] for c in CHECKS)),
         "kind_free_text": "Verus 0.2026.09.13 on functions extracted verbatim from /repo on every run (lib/extract.py); Z3 back end"},
    ],
    "checks": CHECKS,
    "not_applicable": NOT_APPLICABLE,
    "notes": "Technique: contract-based deductive verification of the real code (Verus on functions extracted mechanically from /repo on every run; Kani inside the real crate for bit-level / float facts and callee contracts). ./check <id> --tier quick|thorough exits 0 (every obligation discharged; KNOWN-FINDING lines for defects recorded in KNOWN_FINDINGS.txt), 1 (a VIOLATION line per failed obligation, with a replay file: a Kani counterexample or a failing input found by the native search on the real code, else ...no-failing-input-found) or 2 (UNDECIDED: tool limit / lost anchor / construct outside the dialect and no failing input found; never an alarm). DESIGN.md section 0 is the authoritative description of what is implemented; lib/selfcheck.py validates MANIFEST and evidence.",
}
json.dump(m, open(os.path.join(ROOT, "MANIFEST.json"), "w"), indent=1)
print("MANIFEST.json written:", len(CHECKS), "checks,", len(NOT_APPLICABLE), "not applicable")
