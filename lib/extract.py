"""Mechanical extraction of real functions from /repo into a Verus file.

The extractor copies item text VERBATIM from the current working tree and
applies only the operations a unit recipe lists (see DESIGN.md section 3.4):

  * splice   - insert `requires/ensures` between signature and body, rename
               the return type `-> T` to `-> (r: T)`;
  * loop     - insert `invariant/decreases` text after the n-th loop header;
  * rewrite  - exact-regex token rewrites whose replacement value is derived
               from the source on every run (recorded in the evidence);
  * drop     - remove a statement matching an exact regex (the dropped text is
               echoed in the evidence);
  * shim     - struct re-declared in the spec file with a subset of fields; each
               shim field is checked (name + type text) against the real
               declaration.

Anything else (missing item, changed shape) raises ExtractError, which the
driver turns into UNDECIDED (exit 2), never into a violation.
"""
import re


class ExtractError(Exception):
    pass


def _skip_ws_comments(s, i):
    n = len(s)
    while i < n:
        if s[i].isspace():
            i += 1
        elif s.startswith("//", i):
            j = s.find("\n", i)
            i = n if j < 0 else j + 1
        elif s.startswith("/*", i):
            depth, i = 1, i + 2
            while i < n and depth:
                if s.startswith("/*", i):
                    depth += 1; i += 2
                elif s.startswith("*/", i):
                    depth -= 1; i += 2
                else:
                    i += 1
        else:
            break
    return i


def _scan_tokens(s, start, end=None):
    """Yield (pos, ch) for structural characters outside strings/comments/chars."""
    i = start
    n = len(s) if end is None else end
    while i < n:
        c = s[i]
        if s.startswith("//", i):
            j = s.find("\n", i)
            i = n if j < 0 else j + 1
            continue
        if s.startswith("/*", i):
            depth, i = 1, i + 2
            while i < n and depth:
                if s.startswith("/*", i):
                    depth += 1; i += 2
                elif s.startswith("*/", i):
                    depth -= 1; i += 2
                else:
                    i += 1
            continue
        if c == '"':
            i += 1
            while i < n and s[i] != '"':
                i += 2 if s[i] == "\\" else 1
            i += 1
            continue
        if c == "r" and re.match(r'r#*"', s[i:i + 8]):
            m = re.match(r'r(#*)"', s[i:])
            close = '"' + m.group(1)
            j = s.find(close, i + len(m.group(0)))
            i = n if j < 0 else j + len(close)
            continue
        if c == "'":
            # char literal or lifetime
            m = re.match(r"'(\\.[^']*|[^'\\])'", s[i:])
            if m:
                i += len(m.group(0))
                continue
            i += 1
            continue
        yield i, c
        i += 1


def match_brace(s, open_pos):
    """Return index of the `}` matching the `{` at open_pos."""
    if s[open_pos] != "{":
        raise ExtractError("match_brace: not at '{'")
    depth = 0
    for pos, ch in _scan_tokens(s, open_pos):
        if ch == "{":
            depth += 1
        elif ch == "}":
            depth -= 1
            if depth == 0:
                return pos
    raise ExtractError("unbalanced braces")


def find_impl_blocks(src, type_name):
    """All `impl [<..>] [Trait for] Type [<..>] {` blocks: list of (body_start, body_end)."""
    out = []
    pat = re.compile(r"^impl(?:<[^>{]*>)?\s+(?:[\w:]+(?:<[^>{]*>)?\s+for\s+)?" + re.escape(type_name) + r"(?:<[^>{]*>)?\s*\{", re.M)
    for m in pat.finditer(src):
        o = m.end() - 1
        c = match_brace(src, o)
        out.append((o + 1, c))
    return out


def find_fn(src, name, region=None):
    """Find `fn name` (with its leading attrs/doc comments excluded) in region.
    Returns dict(sig_start, body_open, body_close, text)."""
    lo, hi = region if region else (0, len(src))
    pat = re.compile(r"(?:pub(?:\([^)]*\))?\s+)?(?:const\s+)?(?:async\s+)?fn\s+" + re.escape(name) + r"\b")
    hits = []
    # Only accept matches at structural positions (not in comments/strings).
    structural = set(p for p, _ in _scan_tokens(src, lo, hi))
    for m in pat.finditer(src, lo, hi):
        if m.start() in structural:
            hits.append(m)
    if not hits:
        raise ExtractError(f"fn {name} not found")
    if len(hits) > 1:
        raise ExtractError(f"fn {name} ambiguous ({len(hits)} matches)")
    m = hits[0]
    # find body open brace: first '{' at paren depth 0 after the signature
    depth = 0
    body_open = None
    for pos, ch in _scan_tokens(src, m.end(), hi):
        if ch in "([":
            depth += 1
        elif ch in ")]":
            depth -= 1
        elif ch == "{" and depth == 0:
            body_open = pos
            break
        elif ch == ";" and depth == 0:
            raise ExtractError(f"fn {name} has no body")
    if body_open is None:
        raise ExtractError(f"fn {name}: body not found")
    body_close = match_brace(src, body_open)
    return dict(sig_start=m.start(), body_open=body_open, body_close=body_close,
                sig=src[m.start():body_open], body=src[body_open:body_close + 1])


def find_method(src, type_name, fn_name):
    errs = []
    for region in find_impl_blocks(src, type_name):
        try:
            return find_fn(src, fn_name, region)
        except ExtractError as e:
            errs.append(str(e))
    raise ExtractError(f"{type_name}::{fn_name} not found ({'; '.join(errs) or 'no impl block'})")


def find_struct(src, name):
    m = re.search(r"^(?:pub(?:\([^)]*\))?\s+)?struct\s+" + re.escape(name) + r"\b[^;{(]*([{(;])", src, re.M)
    if not m:
        raise ExtractError(f"struct {name} not found")
    if m.group(1) == "{":
        o = m.end() - 1
        c = match_brace(src, o)
        return src[m.start():c + 1]
    if m.group(1) == "(":
        depth = 0
        for pos, ch in _scan_tokens(src, m.end() - 1):
            if ch in "([":
                depth += 1
            elif ch in ")]":
                depth -= 1
                if depth == 0:
                    j = src.find(";", pos)
                    return src[m.start():j + 1]
        raise ExtractError(f"struct {name}: unbalanced parens")
    return src[m.start():m.end()]


def struct_fields(struct_text):
    """Named fields -> type text; tuple struct -> {'0': ty, ...}."""
    body_m = re.search(r"\{(.*)\}\s*$", struct_text, re.S)
    fields = {}
    if body_m:
        body = re.sub(r"//[^\n]*", "", body_m.group(1))
        body = re.sub(r"#\[[^\]]*\]", "", body)
        depth = 0; cur = ""
        parts = []
        for ch in body:
            if ch in "<([":
                depth += 1
            elif ch in ">)]":
                depth -= 1
            if ch == "," and depth == 0:
                parts.append(cur); cur = ""
            else:
                cur += ch
        if cur.strip():
            parts.append(cur)
        for p in parts:
            p = p.strip()
            if not p:
                continue
            fm = re.match(r"(?:pub(?:\([^)]*\))?\s+)?(\w+)\s*:\s*(.+)$", p, re.S)
            if not fm:
                raise ExtractError(f"cannot parse field: {p!r}")
            fields[fm.group(1)] = re.sub(r"\s+", " ", fm.group(2).strip())
        return fields
    tm = re.search(r"\((.*)\)\s*;\s*$", struct_text, re.S)
    if tm:
        depth = 0; cur = ""; tparts = []
        for ch in tm.group(1):
            if ch in "<([":
                depth += 1
            elif ch in ">)]":
                depth -= 1
            if ch == "," and depth == 0:
                tparts.append(cur); cur = ""
            else:
                cur += ch
        tparts.append(cur)
        for i, p in enumerate(x.strip() for x in tparts if x.strip()):
            p = re.sub(r"^pub(?:\([^)]*\))?\s+", "", p)
            fields[str(i)] = re.sub(r"\s+", " ", p)
    return fields


def check_shim(src, name, shim_fields):
    real = struct_fields(find_struct(src, name))
    for f, ty in shim_fields.items():
        if f not in real:
            raise ExtractError(f"shim {name}.{f}: field no longer exists in /repo")
        if real[f] != ty:
            raise ExtractError(f"shim {name}.{f}: type is `{real[f]}` in /repo, shim says `{ty}`")
    return sorted(set(real) - set(shim_fields))


def find_const(src, name):
    m = re.search(r"^(?:pub(?:\([^)]*\))?\s+)?const\s+" + re.escape(name) + r"\s*:\s*([^=]+)=\s*([^;]+);", src, re.M)
    if not m:
        raise ExtractError(f"const {name} not found")
    return m.group(1).strip(), m.group(2).strip()


def loop_headers(body):
    """Positions of the `{` opening each `for`/`while`/`loop` body, in order."""
    out = []
    structural = [p for p, _ in _scan_tokens(body, 0)]
    sset = set(structural)
    for m in re.finditer(r"\b(for|while|loop)\b", body):
        if m.start() not in sset:
            continue
        depth = 0
        for pos, ch in _scan_tokens(body, m.end()):
            if ch in "([":
                depth += 1
            elif ch in ")]":
                depth -= 1
            elif ch == "{" and depth == 0:
                out.append(pos)
                break
    return out


def _sha_text(t):
    import hashlib
    return hashlib.sha256(t.encode()).hexdigest()[:16]


def loop_spans(body):
    """[(kw_pos, brace_open, brace_close)] for each `for`/`while`/`loop`, in textual order."""
    out = []
    sset = set(p for p, _ in _scan_tokens(body, 0))
    for m in re.finditer(r"\b(for|while|loop)\b", body):
        if m.start() not in sset:
            continue
        depth = 0
        for pos, ch in _scan_tokens(body, m.end()):
            if ch in "([":
                depth += 1
            elif ch in ")]":
                depth -= 1
            elif ch == "{" and depth == 0:
                out.append((m.start(), pos, match_brace(body, pos)))
                break
    return out


def _anchor(body, pat, occ, what):
    sset = set(p for p, _ in _scan_tokens(body, 0))
    ms = [m for m in re.finditer(pat, body) if m.start() in sset]
    if occ is None:
        if len(ms) != 1:
            raise ExtractError(f"{what}: anchor {pat!r} matched {len(ms)} times (expected 1)")
        return ms[0]
    if occ >= len(ms):
        raise ExtractError(f"{what}: anchor {pat!r} occurrence #{occ} not found ({len(ms)} matches)")
    return ms[occ]


def render_fn(fn, recipe, log):
    """Apply a recipe to an extracted fn; returns Verus text."""
    sig = fn["sig"].rstrip()
    body = fn["body"]
    # rename return type
    ret = recipe.get("ret_name", "r")
    m = re.search(r"->\s*(.+)$", sig, re.S)
    if m and recipe.get("spec"):
        sig = sig[:m.start()] + f"-> ({ret}: {m.group(1).strip()})"
    # drops
    for pat in recipe.get("drop", []):
        mm = list(re.finditer(pat, body))
        if len(mm) != 1:
            raise ExtractError(f"drop pattern {pat!r} matched {len(mm)} times")
        log["dropped_text"].append(mm[0].group(0).strip())
        body = body[:mm[0].start()] + body[mm[0].end():]
    for pat, why in recipe.get("drop_all", []):
        mm = list(re.finditer(pat, body))
        if not mm:
            continue    # nothing of this kind to drop in the current text: the body is taken as it is
        log["dropped_text"].append(f"{mm[0].group(0).strip()}  ({len(mm)}x; {why})")
        body = re.sub(pat, "", body)
    if recipe.get("drop_macros"):
        body = drop_macro_statements(body, recipe["drop_macros"], log)
    if recipe.get("erase_errors"):
        body = erase_error_values(body, recipe["erase_errors"], log)
    if recipe.get("erase_error_structs"):
        # error values written as struct-like enum variants: `Prefix::Variant { field: .., .. }`
        body = erase_error_values(body, recipe["erase_error_structs"], log, structs=True)
    # generic desugarings (order matters: chains first, then patterns)
    for d in recipe.get("desugar", []):
        body = DESUGARINGS[d](body, log)
    for c in recipe.get("closures", []):
        body = annotate_closure(body, c, log)
    # rewrites
    for rw in recipe.get("rewrite", []):
        pat, repl, why = rw[0], rw[1], rw[2]
        new, k = re.subn(pat, repl, body)
        if k == 0:
            if len(rw) > 3 and rw[3] == "optional":
                continue    # a rewrite that applies wherever the construct occurs; its absence changes nothing
            raise ExtractError(f"rewrite pattern {pat!r} did not match")
        log["rewrites"].append(f"{pat} -> {repl} ({why}; {k}x)")
        body = new
    # ---- specification / proof insertions (never executable code) ----
    ins = []  # (position, order, text)
    order = 0
    loops = recipe.get("loops", {})
    loop_proofs = recipe.get("loop_proofs", {})
    need_loops = set(loops) | set(loop_proofs) | set(recipe.get("before_loop", {})) | set(recipe.get("after_loop", {})) | set(recipe.get("end_of_loop_body", {}))
    if need_loops or "loop_count" in recipe:
        spans = loop_spans(body)
        if "loop_count" in recipe and len(spans) != recipe["loop_count"]:
            raise ExtractError(f"expected {recipe.get('loop_count')} loops, found {len(spans)}")
        for idx in sorted(need_loops):
            if idx >= len(spans):
                raise ExtractError(f"loop #{idx} not found")
            kw, bo, bc = spans[idx]
            if idx in recipe.get("before_loop", {}):
                ins.append((kw, order, recipe["before_loop"][idx].rstrip() + "\n")); order += 1
            if idx in loops:
                ins.append((bo, order, "\n" + loops[idx].rstrip() + "\n")); order += 1
            if idx in loop_proofs:
                ins.append((bo + 1, order, loop_proofs[idx].rstrip() + "\n")); order += 1
            if idx in recipe.get("end_of_loop_body", {}):
                ins.append((bc, order, recipe["end_of_loop_body"][idx].rstrip() + "\n")); order += 1
            if idx in recipe.get("after_loop", {}):
                ins.append((bc + 1, order, "\n" + recipe["after_loop"][idx].rstrip() + "\n")); order += 1
    for pat, occ, text in recipe.get("insert_after", []):
        m = _anchor(body, pat, occ, "insert_after")
        ins.append((m.end(), order, "\n" + text.rstrip() + "\n")); order += 1
    for pat, occ, text in recipe.get("insert_before", []):
        m = _anchor(body, pat, occ, "insert_before")
        ins.append((m.start(), order, text.rstrip() + "\n")); order += 1
    outlined = ""
    ot = recipe.get("outline_tail")
    if ot:
        # The statements from the anchor to the end of the function body are moved VERBATIM into an
        # external_body function (contract assumed, listed as such); the call replaces them.
        m = _anchor(body, ot["start"], None, "outline_tail")
        end = len(body) - 1  # closing brace of the fn body
        tail_text = body[m.start():end]
        ins = [x for x in ins if x[0] < m.start()]
        log["rewrites"].append(f"outline_tail: the last statements of the body ({len(tail_text.strip().splitlines())} lines starting at `{tail_text.strip().splitlines()[0][:60]}`) moved verbatim into external_body fn {ot['fn']} whose contract is ASSUMED")
        log.setdefault("outlined_sha", []).append(_sha_text(tail_text))
        norm_sha = _sha_text(re.sub(r"\s+", " ", tail_text.strip()))
        log.setdefault("outlined_norm_sha", []).append(norm_sha)
        if ot.get("expect_sha") and norm_sha != ot["expect_sha"]:
            raise ExtractError("outline_tail: the outlined statements changed (sha " + norm_sha + "); their assumed contract must be re-validated")
        outlined = (f"#[verifier::external_body]\nfn {ot['fn']}({ot['params']}) -> ({ot.get('ret_name', 'r')}: {ot['ret']})\n"
                    f"{ot['spec'].rstrip()}\n{{\n{ot.get('prelude', '')}\n{tail_text}\n}}\n")
        body = body[:m.start()] + ot["call"].rstrip() + "\n" + body[end:]
    for pos, _, text in sorted(ins, key=lambda x: (-x[0], -x[1])):
        body = body[:pos] + text + body[pos:]
    if outlined:
        log.setdefault("outlined_fns", []).append(outlined)
    spec = recipe.get("spec", "")
    return f"{sig}\n{spec.rstrip()}\n{body}\n"


def outline_block(fn, spec, log):
    """Return a synthetic fn dict whose body is the block opened by the `{` that ends the match of
    spec['start'] inside fn's body (text copied verbatim) and whose signature is spec['sig']."""
    body = fn["body"]
    if spec.get("no_await") and re.search(r"\.await\b", re.sub(r"//[^\n]*", "", body)):
        raise ExtractError(f"block: fn {spec.get('of', '')} now contains an .await (it was await-free when the recipe was written)")
    if not spec.get("start"):
        # the whole function body is the block (the first statement acquires the guard)
        log["rewrites"].append(f"block outlining: the body of fn {spec.get('of', '')} copied verbatim into fn {spec['name']} with its free "
                               f"variables as parameters ({spec.get('why', '')})")
        return dict(sig_start=fn["sig_start"], body_open=0, body_close=0, sig=spec["sig"], body=body)
    m = _anchor(body, spec["start"], spec.get("occ"), "block")
    o = m.end() - 1
    if body[o] != "{":
        raise ExtractError("block: start pattern must end at the opening brace")
    c = match_brace(body, o)
    text = body[o:c + 1]
    log["rewrites"].append(f"block outlining: the block opened by `{m.group(0).strip()[:70]}` of fn {spec.get('of', '')} "
                           f"({len(text.splitlines())} lines) copied verbatim into fn {spec['name']}; its free variables became parameters "
                           f"({spec.get('why', '')})")
    if re.search(r"\.await\b", re.sub(r"//[^\n]*", "", re.sub(r"let mut \w+ = [\w\.]+\.(?:write|read|lock)\(\)\.await;", "", text))):
        raise ExtractError("block: the outlined block contains an .await other than the guard acquisition")
    if spec.get("append"):
        text = text[:-1].rstrip() + "\n" + spec["append"] + "\n}"
        log["rewrites"].append(f"block outlining: `{spec['append']}` appended to fn {spec['name']} (normal completion of the block)")
    return dict(sig_start=fn["sig_start"], body_open=0, body_close=0, sig=spec["sig"], body=text)


def annotate_closure(body, c, log):
    """Closure annotation (specification only, plus parameter-pattern desugaring):
        |PAT| BODY     ->   |NAME: TY| -> (ret: RET) ensures ENS { PRELUDE BODY }
    `at` is a regex matching the closure's parameter list `|..|`; BODY is whatever follows up to the
    `)` / `,` that closes the enclosing call argument and is copied VERBATIM, so a change inside the
    closure body reaches the verifier (the `ensures` is then a proof obligation about that body)."""
    m = _anchor(body, c["at"], c.get("occ"), "closure")
    depth, end = 0, None
    for pos, ch in _scan_tokens(body, m.end()):
        if ch in "([{":
            depth += 1
        elif ch in ")]}":
            if depth == 0:
                end = pos
                break
            depth -= 1
        elif ch == "," and depth == 0:
            end = pos
            break
    if end is None:
        raise ExtractError("closure: end of body not found")
    cbody = body[m.end():end].strip()
    new = (f"{c['params']} -> (ret: {c['ret']}) ensures {c['ensures']} {{ {c.get('prelude', '')} {cbody} }}")
    log["rewrites"].append(f"closure `{m.group(0)} {cbody[:50]}`: parameter/return types and an `ensures` added"
                           + (f", parameter pattern desugared (`{c['prelude']}`)" if c.get("prelude") else "")
                           + " -- body copied verbatim; the ensures is proved against it")
    return body[:m.start()] + new + body[end:]


def find_enum(src, name):
    m = re.search(r"^(?:pub(?:\([^)]*\))?\s+)?enum\s+" + re.escape(name) + r"\b[^{]*\{", src, re.M)
    if not m:
        raise ExtractError(f"enum {name} not found")
    c = match_brace(src, m.end() - 1)
    text = src[m.start():c + 1]
    # strip doc comments and attributes (declaration text only)
    text = re.sub(r"^\s*///[^\n]*\n", "", text, flags=re.M)
    text = re.sub(r"^\s*#\[[^\]]*\]\s*\n", "", text, flags=re.M)
    return text


def find_const_item(src, name):
    m = re.search(r"^(?:pub(?:\([^)]*\))?\s+)?const\s+" + re.escape(name) + r"\s*:[^;]+;", src, re.M)
    if not m:
        raise ExtractError(f"const {name} not found")
    return m.group(0)


# ---------------------------------------------------------------------------
# Generic, semantics-preserving desugarings (applied only when a recipe asks for
# them with `desugar: [...]`; every application is counted in the evidence).
#
#   let_chains : `if A && let P = E && B { body }`      (no `else`)
#                -> `if A { if let P = E { if B { body } } }`
#                (Rust reference: let chains evaluate left to right and bind as
#                nested `if let`; without an `else` the nesting is equivalent.)
#   deref_pat  : `if let Some(&x) = E { body }`
#                -> `if let Some(x__r) = E { let x = *x__r; body }`
#   ref_pat    : `if let Some(ref x) = E { body }`
#                -> `if let Some(x) = &E { body }`        (match ergonomics)
# A construct outside these exact shapes raises ExtractError (=> UNDECIDED).
# ---------------------------------------------------------------------------

def _split_top_level_and(cond):
    parts, depth, last = [], 0, 0
    toks = list(_scan_tokens(cond, 0))
    i = 0
    while i < len(toks):
        pos, ch = toks[i]
        if ch in "([{":
            depth += 1
        elif ch in ")]}":
            depth -= 1
        elif ch == "&" and depth == 0 and cond.startswith("&&", pos):
            parts.append(cond[last:pos])
            last = pos + 2
            i += 1  # skip second '&'
        i += 1
    parts.append(cond[last:])
    return [p.strip() for p in parts]


def _find_ifs(body):
    """Yield (if_pos, cond_start, block_open, block_close) for every structural `if`."""
    sset = set(p for p, _ in _scan_tokens(body, 0))
    out = []
    for m in re.finditer(r"\bif\b", body):
        if m.start() not in sset:
            continue
        depth = 0
        block_open = None
        for pos, ch in _scan_tokens(body, m.end()):
            if ch in "([":
                depth += 1
            elif ch in ")]":
                depth -= 1
            elif ch == "{" and depth == 0:
                block_open = pos
                break
        if block_open is None:
            raise ExtractError("if without block")
        out.append((m.start(), m.end(), block_open, match_brace(body, block_open)))
    return out


def desugar_let_chains(body, log):
    count = 0
    while True:
        changed = False
        for if_pos, cstart, bopen, bclose in _find_ifs(body):
            cond = body[cstart:bopen]
            parts = _split_top_level_and(cond)
            if len(parts) < 2 or not any(re.match(r"let\b", p) for p in parts):
                continue
            nxt = _skip_ws_comments(body, bclose + 1)
            if body.startswith("else", nxt) and not (body[nxt + 4:nxt + 5].isalnum() or body[nxt + 4:nxt + 5] == "_"):
                raise ExtractError("let chain with an else branch: desugaring not defined")
            # is this `if` itself an `else if`? then nesting would change the else structure
            j = if_pos - 1
            while j >= 0 and body[j].isspace():
                j -= 1
            if body[max(0, j - 3):j + 1] == "else":
                raise ExtractError("let chain in an `else if`: desugaring not defined")
            head = "".join(f"if {p} {{ " for p in parts[:-1]) + f"if {parts[-1]} "
            tail = " }" * (len(parts) - 1)
            body = body[:if_pos] + head + body[bopen:bclose + 1] + tail + body[bclose + 1:]
            count += 1
            changed = True
            break
        if not changed:
            break
    if count:
        log["rewrites"].append(f"desugar let_chains: {count} `if .. && let ..` chain(s) rewritten as nested if / if-let (no else branch present)")
    return body


def desugar_deref_patterns(body, log):
    count = 0
    while True:
        m = None
        for if_pos, cstart, bopen, bclose in _find_ifs(body):
            cond = body[cstart:bopen]
            mm = re.match(r"\s*let\s+Some\(&(\w+)\)\s*=", cond)
            if mm:
                m = (cstart, bopen, mm)
                break
        if not m:
            break
        cstart, bopen, mm = m
        name = mm.group(1)
        cond = body[cstart:bopen]
        new_cond = cond[:mm.start(1) - 1] + f"{name}_r" + cond[mm.end(1):]
        body = body[:cstart] + new_cond + "{ let " + name + " = *" + name + "_r;" + body[bopen + 1:]
        count += 1
    if count:
        log["rewrites"].append(f"desugar deref_pat: {count} `if let Some(&x) = E {{..}}` -> `if let Some(x_r) = E {{ let x = *x_r; ..}}`")
    return body


def desugar_ref_patterns(body, log):
    count = 0
    while True:
        hit = None
        for if_pos, cstart, bopen, bclose in _find_ifs(body):
            cond = body[cstart:bopen]
            mm = re.match(r"(\s*let\s+Some\()ref\s+(\w+)(\)\s*=\s*)(.*?)\s*$", cond, re.S)
            if mm:
                hit = (cstart, bopen, mm)
                break
        if not hit:
            break
        cstart, bopen, mm = hit
        expr = mm.group(4)
        if not re.fullmatch(r"[\w\.]+", expr):
            expr = "(" + expr + ")"
        body = body[:cstart] + mm.group(1) + mm.group(2) + mm.group(3) + "&" + expr + " " + body[bopen:]
        count += 1
    if count:
        log["rewrites"].append(f"desugar ref_pat: {count} `if let Some(ref x) = E` -> `if let Some(x) = &E`")
    return body


def desugar_continue(body, log):
    """`for .. { A; if C { continue; } REST }` -> `for .. { A; if C { } else { REST } }` where the `if` has no
    else and `continue;` is its only statement, REST runs to the end of the block that encloses the `if`, and
    nothing but closing braces follows that block inside the loop body (so skipping REST is skipping the rest of
    the iteration; true for the loop body itself and for the else-blocks this desugaring creates).
    (Verus does not support `continue` in for-loops; the two forms are equivalent.)"""
    count = 0
    while True:
        hit = None
        loops = loop_spans(body)
        for kw, bo, bc in loops:
            for if_pos, cstart, bopen, bclose in _find_ifs(body):
                if not (bo < if_pos < bc):
                    continue
                inner = re.sub(r"//[^\n]*", "", body[bopen + 1:bclose]).strip()
                if inner != "continue;":
                    continue
                # innermost loop containing the `if`
                if any(bo < kw2 and bc2 < bc and bo2 < if_pos < bc2 for kw2, bo2, bc2 in loops):
                    continue
                stack = []
                for pos, ch in _scan_tokens(body, bo, if_pos):
                    if ch == "{":
                        stack.append(pos)
                    elif ch == "}":
                        stack.pop()
                if not stack:
                    continue
                blk_close = match_brace(body, stack[-1])
                if body[blk_close:bc + 1].strip(" \n\t}") != "":
                    continue
                nxt = _skip_ws_comments(body, bclose + 1)
                if body.startswith("else", nxt):
                    raise ExtractError("continue-if with an else branch: desugaring not defined")
                hit = (bopen, bclose, blk_close)
                break
            if hit:
                break
        if not hit:
            break
        bopen, bclose, blk_close = hit
        body = body[:bopen] + "{ }" + " else {" + body[bclose + 1:blk_close] + "}\n" + body[blk_close:]
        count += 1
    if re.search(r"\bcontinue\s*;", re.sub(r"//[^\n]*", "", body)):
        raise ExtractError("`continue` in a shape the desugaring does not cover")
    if count:
        log["rewrites"].append(f"desugar continue: {count} `if C {{ continue; }} REST` -> `if C {{ }} else {{ REST }}` in for-loop bodies")
    return body


def desugar_enumerate(body, log):
    """`for (i, PAT) in EXPR.enumerate() { BODY }` -> `let mut i: usize = 0; for PAT in EXPR { BODY i += 1; }`.
    (Verus has no specification for Enumerate. The two forms are equivalent when BODY has no `continue`:
    the counter starts at 0 and is incremented once per completed iteration; an early `return`/`break`
    leaves the loop in both forms. A `continue` in BODY is refused.)"""
    count = 0
    while True:
        sset = set(p for p, _ in _scan_tokens(body, 0))
        hit = None
        for m in re.finditer(r"\bfor \((\w+), ", body):
            if m.start() not in sset:
                continue
            # closing paren of the tuple pattern `(i, PAT)`
            o = m.start() + 4
            depth, close = 0, None
            for pos, ch in _scan_tokens(body, o):
                if ch == "(":
                    depth += 1
                elif ch == ")":
                    depth -= 1
                    if depth == 0:
                        close = pos
                        break
            if close is None:
                continue
            mm = re.match(r"\s+in\s+(.+?)\.enumerate\(\)\s*\{", body[close + 1:], re.S)
            if not mm or "{" in mm.group(1):
                continue
            hit = (m, close, mm)
            break
        if not hit:
            break
        m, close, mm = hit
        var, pat, expr = m.group(1), body[m.end():close], mm.group(1)
        bo = close + 1 + mm.end() - 1
        bc = match_brace(body, bo)
        inner = body[bo + 1:bc]
        if re.search(r"\bcontinue\b", re.sub(r"//[^\n]*", "", inner)):
            raise ExtractError("enumerate desugaring: loop body contains `continue`")
        body = (body[:m.start()] + f"let mut {var}: usize = 0;\n for {pat} in {expr} {{" + inner +
                f"\n{var} += 1;\n}}" + body[bc + 1:])
        count += 1
    if count:
        log["rewrites"].append(f"desugar enumerate: {count} `for (i, PAT) in EXPR.enumerate() {{ B }}` -> `let mut i: usize = 0; for PAT in EXPR {{ B; i += 1; }}` (no `continue` in B, checked)")
    return body


def desugar_match_continue(body, log):
    """Inside a for-loop body: `let X = match E { Some(P) => V, None => continue, }; REST`
    -> `if let Some(P) = E { let X = V; REST }`, where REST runs to the end of the enclosing block and nothing but
    closing braces follows that block inside the loop body (so "skip REST" is "skip the rest of this iteration").
    (Verus does not support `continue` in for-loops; the two forms run the same statements.)"""
    count = 0
    pat = re.compile(r"let (\w+) = match ([^{};]+?) \{\s*Some\((\w+)\) => ([^,{};]+),\s*None => continue,?\s*\};")
    while True:
        hit = None
        for kw, bo, bc in loop_spans(body):
            for m in pat.finditer(body, bo, bc):
                # innermost block enclosing the statement
                stack = []
                for pos, ch in _scan_tokens(body, bo, m.start()):
                    if ch == "{":
                        stack.append(pos)
                    elif ch == "}":
                        stack.pop()
                if not stack:
                    continue
                blk_close = match_brace(body, stack[-1])
                if body[blk_close:bc + 1].strip(" \n\t}") != "":
                    raise ExtractError("match-continue: statements follow the enclosing block inside the loop body")
                # innermost loop only
                if any(bo < kw2 < m.start() and bc2 > m.end() for kw2, bo2, bc2 in loop_spans(body) if (kw2, bo2, bc2) != (kw, bo, bc)):
                    continue
                hit = (m, blk_close)
                break
            if hit:
                break
        if not hit:
            break
        m, blk_close = hit
        x, e, pvar, v = m.group(1), m.group(2).strip(), m.group(3), m.group(4).strip()
        body = body[:m.start()] + f"if let Some({pvar}) = {e} {{ let {x} = {v};" + body[m.end():blk_close] + "}\n" + body[blk_close:]
        count += 1
    if count:
        log["rewrites"].append(f"desugar match-continue: {count} `let X = match E {{ Some(P) => V, None => continue }}; REST` -> `if let Some(P) = E {{ let X = V; REST }}` in for-loop bodies")
    return body


DESUGARINGS = {"match_continue": desugar_match_continue, "enumerate": desugar_enumerate, "continue": desugar_continue, "let_chains": desugar_let_chains, "deref_pat": desugar_deref_patterns, "ref_pat": desugar_ref_patterns}


def erase_error_values(body, prefixes, log, replacement="VerifError {}", structs=False):
    """Replace every expression `<prefix><Ident>(<balanced>)` (an error VALUE being built, e.g.
    `P2PError::Security(SecurityError::X(format!(..).into()))`) by a unit error value. The error
    payload (message text, nested enums) is DROPPED -- listed in the evidence; control flow (which
    branch returns Err) is untouched."""
    count = 0
    for prefix in prefixes:
        while True:
            sset = set(p for p, _ in _scan_tokens(body, 0))
            hit = None
            for m in re.finditer(re.escape(prefix) + (r"\w+\s*[\(\{]" if structs else r"\w+\s*\("), body):
                if m.start() in sset:
                    hit = m
                    break
            if not hit:
                break
            o = hit.end() - 1
            depth = 0
            close = None
            for pos, ch in _scan_tokens(body, o):
                if ch in "([{":
                    depth += 1
                elif ch in ")]}":
                    depth -= 1
                    if depth == 0:
                        close = pos
                        break
            if close is None:
                raise ExtractError("erase_error_values: unbalanced")
            body = body[:hit.start()] + replacement + body[close + 1:]
            count += 1
    if count:
        log["rewrites"].append(f"erase error values: {count} expression(s) `{'|'.join(prefixes)}Variant(..)` -> `{replacement}` (error payload / message text dropped)")
    return body


def drop_macro_statements(body, names, log):
    """Remove logging statements `name!( <balanced> );` (tracing/log macros have no effect on the
    values a contract mentions). Each dropped statement is counted; the first line of each is
    echoed in the evidence."""
    count = 0
    for name in sorted(names, key=len, reverse=True):
        while True:
            sset = set(p for p, _ in _scan_tokens(body, 0))
            hit = None
            for m in re.finditer(r"(?<![\w:])" + re.escape(name) + r"\s*\(", body):
                if m.start() in sset:
                    hit = m
                    break
            if not hit:
                break
            o = hit.end() - 1
            depth, close = 0, None
            for pos, ch in _scan_tokens(body, o):
                if ch in "([{":
                    depth += 1
                elif ch in ")]}":
                    depth -= 1
                    if depth == 0:
                        close = pos
                        break
            if close is None:
                raise ExtractError("drop_macro_statements: unbalanced")
            end = _skip_ws_comments(body, close + 1)
            if not body.startswith(";", end):
                raise ExtractError(f"{name} used as an expression, not a statement")
            log["dropped_text"].append(body[hit.start():close + 1].split("\n")[0].strip() + " ...)")
            body = body[:hit.start()] + body[end + 1:]
            count += 1
    return body
