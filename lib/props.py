"""Per-property configuration for the driver (which Verus units, assumptions, undecided clauses)."""

COMMON_TRUSTED = [
    "Kani 0.68.0 / CBMC 6.11.0 / CaDiCaL; Verus 0.2026.09.13 / Z3; rustc MIR",
    "std collections (Vec, slice sort, HashMap, LruCache) executed by CBMC on their real source up to the harness bound, assumed beyond it",
]

PROPS = {
    "C02": {
        "verus_units": ["bucket"],
        "trusted": COMMON_TRUSTED,
        "assumptions": [],
        "clauses_not_decided": [
            "reply built by DhtNetworkManager::find_closest_nodes_local / handle_lookup_request (async, needs live transport)",
            "protocol caps inside DhtCoreEngine::handle_request (async engine; Kani ICE)",
        ],
        "explanation": "Contracts on DhtKey::distance, KademliaRoutingTable::{get_bucket_index,get_bucket_index_for_key,add_node,remove_node,find_closest_nodes}.",
        "jobs": {"quick": 6, "thorough": 6},
    },
}
