"""Per-property configuration for the driver (which Verus units, assumptions, undecided clauses)."""

COMMON_TRUSTED = [
    "Kani 0.68.0 / CBMC 6.11.0 / CaDiCaL; Verus 0.2026.09.13 / Z3; rustc MIR",
    "std collections (Vec, slice sort, HashMap, LruCache) executed by CBMC on their real source up to the harness bound, assumed beyond it",
]

PROPS = {
    "C02": {
        "verus_units": ["bucket"],
        "trusted": COMMON_TRUSTED,
        "assumptions": [],
        "clauses_not_decided": [
            "reply built by DhtNetworkManager::find_closest_nodes_local / handle_lookup_request (async, needs live transport)",
            "protocol caps inside DhtCoreEngine::handle_request (async engine; Kani ICE)",
        ],
        "explanation": "Contracts on DhtKey::distance, KademliaRoutingTable::{get_bucket_index,get_bucket_index_for_key,add_node,remove_node,find_closest_nodes}.",
        "jobs": {"quick": 6, "thorough": 6},
    },
    "C12": {
        "verus_units": ["seq"],
        "trusted": COMMON_TRUSTED,
        "assumptions": [
            "sequential semantics per critical section: validate_sequence and batch_update hold one std::sync::RwLock write guard around validate+apply; that the lock serialises tasks is the contract of std::sync::RwLock (assumed)",
            "clock below 2^48 seconds; fewer than 2^64 accepted numbers per peer",
        ],
        "clauses_not_decided": [
            "concurrent submitters beyond the one-lock argument",
            "reload from disk (load_counters/sync_counters: tokio fs + postcard)",
            "the async wrappers validate_sequence/batch_update themselves (tokio Mutex for stats; HashMap entry)",
        ],
        "explanation": "Verus proves the step contracts of validate_sequence_internal/apply_sequence_update on the verbatim text for unbounded history, plus induction lemmas (accepted numbers are 1,2,3..; at most once). Kani proves the callee contract Verus assumes and compositions.",
        "jobs": {"quick": 6, "thorough": 6},
    },
}
