"""Per-property configuration for the driver (which Verus units, assumptions, undecided clauses)."""

COMMON_TRUSTED = [
    "Kani 0.68.0 / CBMC 6.11.0 / CaDiCaL; Verus 0.2026.09.13 / Z3; rustc MIR",
    "std collections (Vec, slice sort, HashMap, LruCache) executed by CBMC on their real source up to the harness bound, assumed beyond it",
]

PROPS = {
    "C02": {
        "verus_units": ["bucket", "mgr"],
        "trusted": COMMON_TRUSTED,
        "assumptions": [],
        "clauses_not_decided": [
            "DhtNetworkManager::find_closest_nodes_local is verified await-erased: each peer once under a single identifier, at most count, and no known peer that is closer than a named one is left out -- where \"known\" is (connected peers with an address) + (what DhtCoreEngine::find_nodes returned), the local node excluded; this rests on the ASSUMED contract of its outlined sort/take tail (stable sort by compare_node_distance, then a prefix); the async wrapper find_nodes and handle_lookup_request (which forwards the answer) are not extracted",
            "DhtCoreEngine::handle_request is verified in its await-erased form (both awaits are tokio RwLock acquisitions: data store, routing table; the guarded objects became parameters): sequential semantics under the two guards, no interleaving between them is explored",
        ],
        "explanation": "Contracts on DhtKey::distance, KBucket::{new, add_node, remove_node, get_nodes}, KademliaRoutingTable::{new, get_bucket_index, get_bucket_index_for_key, add_node, remove_node, find_closest_nodes}; the reply built by DhtCoreEngine::handle_request (await-erased) for FindNode is exactly find_closest_nodes(target, min(count, 20)) and never names more than 20 nodes, for FindValue it names at most K = 8 closest entries (none when the value is held); DataStore::{put, get} verified on the real field layout; DhtNetworkManager::{compare_node_distance, filter_response_nodes, find_closest_nodes_local}: the local answer over routing table plus connected peers names each peer once (duplicate filter on the DHT key) and never more than count.",
        "jobs": {"quick": 6, "thorough": 6},
    },
    "C04": {
        "verus_units": ["pending"],
        "trusted": COMMON_TRUSTED,
        "assumptions": [
            "sequential semantics per critical section: each of the three sections runs under one lock guard (std::sync::Mutex for active_operations, tokio::sync::RwLock for active_requests); that the guard serialises tasks is the lock's contract (assumed)",
            "HashMap<String, V> as a finite map (shims), String comparison by character sequence, oneshot::Sender::send consumes the sender",
        ],
        "clauses_not_decided": [
            "'every request completes exactly once -- with its reply, a timeout or a send error -- and afterwards nothing of it remains in the pending tables, whatever the interleaving': the timeout / cleanup paths (send_request's removal after the wait, wait_for_response, sweep_expired_operations) are async code with awaits between the steps; no interleaving is explored",
            "the cap on pending DHT operations and the DhtCoreEngine pending_requests LRU (10_000)",
            "that handle_dht_response / the /rr/ branch are the only places that complete a pending request (call-graph argument, not a contract)",
            "the native failing-input search covers handle_dht_response only (a real manager on a local transport bound to port 0); the /rr/ branch and the registration block sit inside a spawned receive loop / an async send path and have no search: a failed obligation there is reported with no-failing-input-found",
        ],
        "explanation": "Verus proves, on three critical sections outlined verbatim from handle_dht_response, the /rr/ reply branch of the receive loop and send_request: a reply completes a pending request only if it carries that request's id and comes from the contacted / expected peer (and, for DHT RPCs, carries a result); the waiting sender is consumed at most once; no other pending entry is touched; registration is refused at the cap of 256 and leaves nothing behind.",
        "jobs": {"quick": 2, "thorough": 2},
    },
    "C05": {
        "verus_units": ["inbound", "bucket"],
        "trusted": COMMON_TRUSTED,
        "assumptions": [
            "postcard decoders/encoders are total functions (value or error): that they return normally for every byte string is NOT verified (dependency; a bounded Kani run of the decoders was not tractable in this sandbox)",
            "wall clock below 2^62 seconds",
        ],
        "clauses_not_decided": [
            "no-panic / bounded allocation of the postcard decoders themselves for all byte strings up to 128 KiB",
            "the 64 KiB guard in DhtNetworkManager::handle_dht_message (inside an async method of an object that needs a transport)",
            "DhtCoreEngine::handle_request is verified in its await-erased form (both awaits are tokio RwLock acquisitions); DataStore access counters are assumed below u64::MAX (2^64 reads of one key would overflow `access_count += 1`: a debug-build panic, wrap-around in release)",
            "TransportHandle::parse_request_envelope (decode-only wrapper; nothing to decide beyond the decoder's totality)",
        ],
        "explanation": "Verus proves on the mechanically extracted text of network::parse_protocol_message, DhtRecord::{deserialize, serialize} and DhtNetworkManager::validate_put_value_size: a framed message is surfaced iff it decodes and its timestamp is within [now-300, now+30]; the surfaced source is the identity passed in by the transport (never the payload's `from`), topic and data come from the frame; records over 512 bytes are refused and the decoder is never entered with more (precondition of the decoder shim); serialised records are at most 512 bytes; stored values are at most 512 bytes. In the shared unit `bucket` (only the functions C05 depends on are extracted for this check): DhtCoreEngine::handle_request, await-erased, refuses a Store whose value is over 512 bytes and leaves the store unchanged, changes the store on no other request, answers Retrieve with exactly the stored bytes, and caps a FindNode reply at 20 names whatever count is asked; DataStore::{put, get} store and return exactly the given bytes; DhtCoreEngine::store (await-erased) refuses a value over 512 bytes, writes at most the given key with exactly the given bytes, and a receipt that lists this node means the value is in its store.",
        "jobs": {"quick": 4, "thorough": 4},
    },
    "C09": {
        "verus_units": ["peerrec"],
        "trusted": COMMON_TRUSTED,
        "assumptions": [
            "ideal-crypto contracts: ml_dsa_verify is a deterministic function of (key, message, signature); BLAKE3 injective on its input; UserId::from_public_key a function of the key; postcard::to_stdvec deterministic and injective (nothing is claimed about ML-DSA itself: C08 is not applicable)",
            "sequential use of one SignatureCache (&mut self)",
        ],
        "clauses_not_decided": [
            "a record whose name is Some(\"\") encodes like name = None (both as a zero length prefix); such a record is outside the documented bounds (construction refuses an empty name), so field coverage is proved under the documented name bound",
            "PeerDHTRecord::new (placeholder signature built from a boxed array; outside the extraction) -- its bounds check is the extracted validate_inputs",
        ],
        "explanation": "Verus proves on the mechanically extracted text of validate_inputs, create_signable_message, verify_signature, SignatureCache::{new, cache_key, verify_cached}: construction bounds exact; the signed message is the canonical encoding of every field; verify_signature succeeds iff the user id is derived from the embedded key and the signature verifies over this record; the cache invariant (every memoised verdict equals the direct verdict of every record mapping to that key) is kept for every capacity >= 0 and every eviction choice, hence verify_cached == verify_signature for all histories.",
        "jobs": {"quick": 4, "thorough": 4},
    },
    "C12": {
        "verus_units": ["seq"],
        "trusted": COMMON_TRUSTED,
        "assumptions": [
            "sequential semantics per critical section: validate_sequence and batch_update hold one std::sync::RwLock write guard around validate+apply; that the lock serialises tasks is the contract of std::sync::RwLock (assumed)",
            "clock below 2^48 seconds; fewer than 2^64 accepted numbers per peer",
        ],
        "clauses_not_decided": [
            "concurrent submitters beyond the one-lock argument",
            "reload from disk (load_counters/sync_counters: tokio fs + postcard)",
            "the async wrappers validate_sequence/batch_update themselves (tokio Mutex for stats; HashMap entry)",
        ],
        "explanation": "Verus proves the step contracts of validate_sequence_internal/apply_sequence_update on the verbatim text for unbounded history, plus induction lemmas (accepted numbers are 1,2,3..; at most once). Kani proves the callee contract Verus assumes and compositions.",
        "jobs": {"quick": 6, "thorough": 6},
    },
    "C16": {
        "verus_units": ["live", "evict", "select", "bucket"],
        "trusted": COMMON_TRUSTED,
        "assumptions": [
            "fewer than 2^32 consecutive failures per peer (u32 counter)",
        ],
        "clauses_not_decided": [
            "'appears in no closest-node answer until it is added again' is decided at the routing table (unit bucket: the critical sections of evict_node / handle_node_failure remove the peer and nothing else; find_closest_nodes answers only listed peers); the merge with connected peers in DhtNetworkManager::find_closest_nodes_local is async and not decided",
            "ranking clauses of the selector (closer first at equal trust, more trusted first at equal distance): not proved; exercised only by the native bounded search, which is not counted as evidence",
        ],
        "explanation": "Verus: liveness policy for all histories; EvictionManager policy predicate, events (whole-map frames), candidate list exactness for maps of any size; selector structural clauses (at most count, from distinct candidate positions, never below the trust floor, storage floor 0.2). Kani: liveness step, f64::clamp facts.",
        "jobs": {"quick": 6, "thorough": 6},
    },
    "C14": {
        "verus_units": ["ratelim"],
        "trusted": COMMON_TRUSTED,
        "assumptions": [
            "history-level bounds (admitted <= burst + sum of refills; admitted per window <= max) follow from the per-call contract by induction; the step from per-call float inequalities to a sum over calls treats refill sums as real numbers (rounding slack 1e-9 relative per call is allowed in the contract)",
            "sequential semantics per critical section (Engine holds a Mutex / RwLock write guard around try_consume)",
            "window > 0 and < 2^32 s, clock readings < 2^40 s after an arbitrary base, bucket timestamps not in the future of the clock (same monotonic clock)",
        ],
        "clauses_not_decided": [
            "concurrent submitters beyond the one-lock argument",
            "call site in start_network_listeners (async)",
        ],
        "explanation": "Per-call contract of the token bucket proved over the full f64/u32/clock domain (loop-free => complete); prefix extraction complete; keyed engine / join limiter composition bounded.",
        "jobs": {"quick": 6, "thorough": 6},
    },
    "C13": {
        "verus_units": ["ipdiv"],
        "trusted": COMMON_TRUSTED,
        "assumptions": [
            "configured caps >= 1 (true of default/testnet/permissive and 'small caps'; with a cap of 0 the code admits the first node of a key, which the statement's 'never exceeds the cap' would forbid -- degenerate configuration, outside the quantifier); max_per_ip_cap <= 2^28; counters below usize::MAX",
            "below the 50k-entry tracking bound (the property's own qualifier): LruCache is a finite map, eviction not modelled",
            "sequential semantics: the enforcer is used behind one lock",
        ],
        "clauses_not_decided": [
            "slot return when the routing table drops a node (DhtCoreEngine::evict_node / handle_node_failure): DECIDED and failing -- recorded as four known findings (KNOWN_FINDINGS.txt), not repaired; a second leak of the same kind (add_node for an already listed peer takes slots again) is known from reading and not under contract",
            "whether the connecting-peer path applies the gate at all (address string rendering, C19)",
            "BootstrapManager::add_peer (async, ant-quic cache)",
        ],
        "explanation": "Verus also proves, on the sequential body of DhtCoreEngine::add_node (await erasure: every await is a lock acquisition), that an admission refused by a later step (region cap, full k-bucket) leaves the IP diversity counters and the per-region counters as they were. Verus proves, on the mechanically extracted text of can_accept_node/add_node/remove_node/can_accept_ipv4/add_ipv4/remove_ipv4/*_unified/set_network_size, for every counter state (unbounded maps): admitted iff every level is below its cap (halved, min 1, for hosting/VPN; IPv4 caps scaled by the network-size rule); add counts each level exactly once and touches no other key of any map, or consumes nothing; remove returns each slot and touches nothing else. Lemmas over those contracts give the history-level claims: caps hold after every admission/removal (induction step), remove undoes add. Kani proves the f64 per-IP limit contract Verus assumes and the prefix extraction.",
        "jobs": {"quick": 8, "thorough": 8},
    },
    "C15": {
        "verus_units": ["cgv"],
        "trusted": COMMON_TRUSTED,
        "assumptions": [
            "IEEE-754 operators on f64 are deterministic total functions of their operands (float prelude F0); the order facts used by the lemmas are proved bit-precisely by the Kani harnesses c15_float_* EXCEPT two facts about division (monotone in the numerator; x/x >= 1), which stay assumptions (SAT on the 64-bit divider did not finish) and are used only by the withdrawal / unanimity lemmas",
            "normal-mode lemmas: every witness weight in [0,1] (trust in [0,1] or unknown = 0.5: the property's domain); f-liars lemma: quorum threshold >= 1/2 and fewer than 2^32 witnesses",
            "'distinct response times' = the collusion heuristic raises no flag (callee contract, proved by Kani for bounded witness counts)",
        ],
        "clauses_not_decided": [
            "count_confirming_regions itself (HashSet chain): its contract is assumed",
            "detect_collusion_indicators beyond the Kani bound on the number of witnesses",
        ],
        "explanation": "Verus: structural contracts of validate_trust_weighted / validate_bft / validate_membership over uninterpreted IEEE operators for witness sets of any size, plus lemmas (f liars, withdrawal, unanimity) over those contracts. Kani: IEEE order axioms (complete), collusion callee contract (bounded), quorum arithmetic.",
        "jobs": {"quick": 8, "thorough": 8},
        "harness_timeout": {"quick": 1500, "thorough": 7200},
    },
    "C18": {
        "verus_units": ["keystore"],
        "trusted": COMMON_TRUSTED,
        "assumptions": [
            "ideal cryptography / file system (assumed contracts of the manager's own helpers): the store file opens under exactly one password -- load_and_decrypt (ChaCha20-Poly1305 under an Argon2id-derived key) succeeds only under it and then returns the seed table the file holds; encrypt_and_store replaces the file as a whole by one that opens with the given password and holds the given table, or fails and leaves it (write to .tmp + rename)",
            "cache_key (keyed BLAKE3 of the password under a per-process random key, hex, ':' seed id) is injective in (password, seed id); its text is pinned by hash",
            "sequential use of one manager: no other task touches the file or the cache during a call (await erasure); std locks are not poisoned; the file is changed only through this manager",
            "a failure of SecureMemory::from_slice (memory locking) after store_master_seed rewrote the file would leave the previously cached seed in place: value coherence of the cache after a FAILED store is proved only when the file was left unchanged",
        ],
        "clauses_not_decided": [
            "'if any byte of the store file is altered the operation fails rather than returning different key material': authenticity of ChaCha20-Poly1305 / integrity of the postcard framing -- cryptographic, assumed in the helper contracts, not verified",
            "'an interrupted update leaves either the old or the new file, never a mixture': crash atomicity of write-to-.tmp + rename -- no file-system or crash model in the verifier; assumed in encrypt_and_store's contract",
            "'returned unchanged ... after reopening the file': a reopened manager starts with an empty cache, so this is the cache-miss path (proved) over the assumed round trip encrypt_and_store / load_and_decrypt",
            "that the current password DOES open every stored seed (success direction): depends on IO / allocation / Argon2 succeeding; exercised by the native search only",
            "key derivation (derive_key, Argon2 parameters), password strength validation, background tasks, SecureMemory zeroisation",
        ],
        "explanation": "Verus proves, on the await-erased text of EncryptedKeyStorageManager::{initialize, store_master_seed, retrieve_master_seed, change_password, clear_cache}, with the in-memory seed cache and the store file as explicit state: a seed is returned only to a caller presenting the password that currently opens the store, and it is exactly the seed the store holds under that id; the cache invariant (every cached entry is filed under the key of the CURRENT password) is established by every operation -- in particular nothing cached under the previous password survives a password change or a re-initialisation; a seed is stored, and the password changed, only for a caller presenting the current password; storing never changes the password and leaves every other seed as it was; a refused change leaves the store as it was.",
        "jobs": {"quick": 2, "thorough": 2},
    },
    "C17": {
        "verus_units": ["placement"],
        "trusted": COMMON_TRUSTED + [
            "f64::powf replaced by an arbitrary f64 (no exact model in CBMC; over-approximation)",
            "fastrand::f64 replaced by an arbitrary value in [0,1): the sampler's random choices are universally quantified",
        ],
        "assumptions": [
            "GeographicLocation::distance_km is a deterministic, symmetric function of its two arguments (haversine over f64 trigonometry, uninterpreted): 'no two closer than 50 km' is a statement about the distance this function measures",
            "WeightedSampler::sample_nodes is verified on its own text (closure with early return verified in place); ASSUMED behind shims: `iter().map(f).collect::<Result<Vec<_>, _>>()` maps every element in order or returns the first error, sort_by is a permutation, `into_iter().take(k).map().collect()` keeps the first min(k, len) entries; fastrand::f64 and f64::powf are arbitrary values. NOT proved: that the k names come from pairwise different positions (drawing without replacement) -- exercised by the native search only; select_nodes does not depend on it (it draws one name per round and removes it from the remaining set)",
            "await erasure of select_nodes: its only .await is the call of the strategy's own calculate_weights, an async fn without awaits that is verified in the same unit; sequential semantics",
            "std contracts behind shims: HashMap / HashSet (vstd; key model assumed for NodeId, NetworkRegion), `*map.entry(k).or_insert(0) += 1`, sort_by is a permutation, into_iter().map().collect() keeps order, first(), ok_or / ok_or_else",
        ],
        "clauses_not_decided": [
            "'over many draws favours heavier candidates' (statistical statement; no contract can state it)",
            "'never a panic for zero, negative, infinite or NaN scores': decided for calculate_weight only (Kani, complete over all f64); inside sample_nodes the comparator's unwrap_or and the guards are verified panic-free by Verus on the extracted text, the std sort_by itself is not; Verus checks arithmetic overflow / index bounds of the extracted text but not panics inside the assumed callees",
            "the orchestrator (src/placement/orchestrator.rs) and other PlacementStrategy implementations",
        ],
        "explanation": "Verus proves, on the extracted text, for candidate sets, metadata maps and selections of ANY size: DiversityEnforcer::validate_selection accepts only selections in which no two nodes are closer than half the configured distance, no region holds more than max_nodes_per_region and no autonomous system more than max_nodes_per_asn entries (loop invariants over the pair loop and the two tally maps); DiversityEnforcer::new sets 100 km / 2 / 3; calculate_weights names only remaining candidates; select_nodes (await-erased) returns either an error or a decision naming exactly replication_factor nodes, pairwise distinct, all among the supplied candidates, satisfying the three diversity constraints with the metadata the caller supplied. Kani: calculate_weight complete over f64, ReplicationFactor::new complete.",
        "jobs": {"quick": 6, "thorough": 6},
    },
}
