"""Per-property configuration for the driver (which Verus units, assumptions, undecided clauses)."""

COMMON_TRUSTED = [
    "Kani 0.68.0 / CBMC 6.11.0 / CaDiCaL; Verus 0.2026.09.13 / Z3; rustc MIR",
    "std collections (Vec, slice sort, HashMap, LruCache) executed by CBMC on their real source up to the harness bound, assumed beyond it",
]

PROPS = {
    "C02": {
        "verus_units": ["bucket"],
        "trusted": COMMON_TRUSTED,
        "assumptions": [],
        "clauses_not_decided": [
            "reply built by DhtNetworkManager::find_closest_nodes_local / handle_lookup_request (async, needs live transport)",
            "protocol caps inside DhtCoreEngine::handle_request (async engine; Kani ICE)",
        ],
        "explanation": "Contracts on DhtKey::distance, KademliaRoutingTable::{get_bucket_index,get_bucket_index_for_key,add_node,remove_node,find_closest_nodes}.",
        "jobs": {"quick": 6, "thorough": 6},
    },
    "C12": {
        "verus_units": ["seq"],
        "trusted": COMMON_TRUSTED,
        "assumptions": [
            "sequential semantics per critical section: validate_sequence and batch_update hold one std::sync::RwLock write guard around validate+apply; that the lock serialises tasks is the contract of std::sync::RwLock (assumed)",
            "clock below 2^48 seconds; fewer than 2^64 accepted numbers per peer",
        ],
        "clauses_not_decided": [
            "concurrent submitters beyond the one-lock argument",
            "reload from disk (load_counters/sync_counters: tokio fs + postcard)",
            "the async wrappers validate_sequence/batch_update themselves (tokio Mutex for stats; HashMap entry)",
        ],
        "explanation": "Verus proves the step contracts of validate_sequence_internal/apply_sequence_update on the verbatim text for unbounded history, plus induction lemmas (accepted numbers are 1,2,3..; at most once). Kani proves the callee contract Verus assumes and compositions.",
        "jobs": {"quick": 6, "thorough": 6},
    },
    "C16": {
        "verus_units": ["live"],
        "trusted": COMMON_TRUSTED,
        "assumptions": [
            "fewer than 2^32 consecutive failures per peer (u32 counter)",
        ],
        "clauses_not_decided": [
            "that DhtCoreEngine::evict_node / handle_node_failure call remove_node (async engine; Kani ICE)",
            "selection when trust selection is disabled (engine-level async select_query_peers)",
        ],
        "explanation": "Liveness policy for all histories by Verus (induction lemma over step contracts); eviction-reason predicate, events and candidate list by Kani over symbolic counts/scores/thresholds with enumerated map shapes; selector ranking by Kani (bounded candidates).",
        "jobs": {"quick": 6, "thorough": 6},
    },
    "C14": {
        "verus_units": [],
        "trusted": COMMON_TRUSTED,
        "assumptions": [
            "history-level bounds (admitted <= burst + sum of refills; admitted per window <= max) follow from the per-call contract by induction; the step from per-call float inequalities to a sum over calls treats refill sums as real numbers (rounding slack 1e-9 relative per call is allowed in the contract)",
            "sequential semantics per critical section (Engine holds a Mutex / RwLock write guard around try_consume)",
            "window > 0 and < 2^32 s, clock readings < 2^40 s after an arbitrary base, bucket timestamps not in the future of the clock (same monotonic clock)",
        ],
        "clauses_not_decided": [
            "concurrent submitters beyond the one-lock argument",
            "call site in start_network_listeners (async)",
        ],
        "explanation": "Per-call contract of the token bucket proved over the full f64/u32/clock domain (loop-free => complete); prefix extraction complete; keyed engine / join limiter composition bounded.",
        "jobs": {"quick": 6, "thorough": 6},
    },
}
