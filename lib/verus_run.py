"""Build a Verus file from a unit recipe + the current /repo tree and run Verus on it."""
import json, os, re, subprocess, time
from . import extract as X

REPO = os.environ.get("VERIF_REPO", "/repo")
ROOT = os.path.dirname(os.path.dirname(os.path.abspath(__file__)))
BUILD = os.path.join(ROOT, ".build", "verus")

CANARY = """
// Vacuity canary: this postcondition is false and MUST be reported as failing.
fn verif_canary(x: u8) -> (r: u8)
    ensures r == 1,
{ 0 }
"""


class Undecided(Exception):
    pass


def build_unit(name, unit, pid=None):
    """Return (path, info). Raises extract.ExtractError when an anchor is lost.
    pid: only the items that serve property pid are extracted (item key 'serves': the properties whose obligations
    depend on the function, closed under calls); an item without 'serves' serves every property that runs the unit."""
    os.makedirs(BUILD, exist_ok=True)
    log = {"dropped_text": [], "rewrites": [], "shim_fields_omitted": {}, "functions": []}
    srcs = {}

    def src_of(rel):
        if rel not in srcs:
            with open(os.path.join(REPO, rel)) as f:
                srcs[rel] = f.read()
        return srcs[rel]

    spec_path = os.path.join(ROOT, unit["spec"])
    with open(spec_path) as f:
        spec_text = f.read()
    for pre in unit.get("preludes", []):
        with open(os.path.join(ROOT, pre)) as f:
            spec_text = f.read() + "\n" + spec_text
    main_src = unit["src"]
    for sname, (rel, fields) in unit.get("shims", {}).items():
        omitted = X.check_shim(src_of(rel or main_src), sname, fields)
        log["shim_fields_omitted"][sname] = omitted
    for rel, pattern, why in unit.get("expect_text", []):
        # a fact about /repo that an assumed shim contract relies on: re-checked on every run
        if not re.search(pattern, src_of(rel)):
            raise X.ExtractError(f"expected text not found in {rel}: {pattern!r} ({why})")
        log["rewrites"].append(f"checked {rel} still contains /{pattern}/ ({why})")
    for rel, impl, fname, sha, why in unit.get("pinned_fns", []):
        # a repository function whose contract this unit ASSUMES and nobody verifies: its text is pinned, so that
        # an edit there makes the unit UNDECIDED (then the native search runs) instead of staying silently green
        f = X.find_method(src_of(rel), impl, fname) if impl else X.find_fn(src_of(rel), fname)
        got = _sha(re.sub(r"\s+", " ", (f["sig"] + f["body"]).strip()))
        if sha and got != sha:
            raise X.ExtractError(f"pinned fn {impl + '::' if impl else ''}{fname} changed (sha {got}, expected {sha}): its assumed contract must be re-validated ({why})")
        log["rewrites"].append(f"pinned (unverified, contract assumed) {impl + '::' if impl else ''}{fname} in {rel}: text sha {got} ({why})")
    consts = {}
    for cname, (rel, pattern) in unit.get("consts", {}).items():
        ty, val = X.find_const(src_of(rel or main_src), cname)
        m = re.fullmatch(pattern, val)
        if not m:
            raise X.ExtractError(f"const {cname} = `{val}` no longer matches {pattern!r}")
        consts[cname] = m.group(1).replace("_", "")
        log["rewrites"].append(f"const {cname}: `{val}` -> {consts[cname]} (value re-derived from source)")
    for k, v in consts.items():
        spec_text = spec_text.replace("@" + k + "@", v)
    parts = ["// GENERATED on every run by /verif/lib/verus_run.py from " + main_src + " -- do not edit\n",
             "use vstd::prelude::*;\nverus! {\n", spec_text, "\n"]
    for ename in unit.get("enums", []):
        parts.append(X.find_enum(src_of(main_src), ename) + "\n")
        log["functions"].append({"name": "enum " + ename, "file": main_src, "verbatim": True})
    for rel, ename in unit.get("enums_from", []):
        parts.append(X.find_enum(src_of(rel), ename) + "\n")
        log["functions"].append({"name": "enum " + ename, "file": rel, "verbatim": True})
    for cname in unit.get("consts_verbatim", []):
        parts.append(X.find_const_item(src_of(main_src), cname) + "\n")
    for rel, cname in unit.get("const_items", []):
        parts.append(X.find_const_item(src_of(rel), cname) + "\n")
    groups = {}
    for it in unit["items"]:
        if pid and it.get("serves") and pid not in it["serves"]:
            log.setdefault("items_not_extracted_for_this_property", []).append(
                (it["impl"] + "::" if it.get("impl") else "") + ((it.get("block") or {}).get("name") or it["fn"]))
            continue
        rel = it.get("src", main_src)
        s = src_of(rel)
        if it.get("impl"):
            fn = X.find_method(s, it["impl"], it["fn"])
        else:
            fn = X.find_fn(s, it["fn"])
        if it.get("block"):
            # BLOCK OUTLINING: a block of the function (e.g. the critical section that holds a lock guard) is
            # copied VERBATIM into a function of its own whose parameters are the block's free variables
            # (signature given by the recipe). The block text is then treated like any extracted body.
            fn = X.outline_block(fn, it["block"], log)
        recipe = dict(it)
        # substitute constants into rewrite replacements
        rw = []
        for rwt in it.get("rewrite", []):
            pat, repl, why = rwt[0], rwt[1], rwt[2]
            for k, v in consts.items():
                repl = repl.replace("@" + k + "@", v)
            rw.append((pat, repl, why) + tuple(rwt[3:]))
        recipe["rewrite"] = rw
        for k, v in consts.items():
            if recipe.get("spec"):
                recipe["spec"] = recipe["spec"].replace("@" + k + "@", v)
        text = X.render_fn(fn, recipe, log)
        _key = (it["impl"] + "::" if it.get("impl") else "") + (it["block"]["name"] if it.get("block") else it["fn"])
        text = f"// @item {_key}\n" + text + "\n// @enditem\n"
        groups.setdefault(it.get("impl"), []).append(text)
        qn = (it["impl"] + "::" if it.get("impl") else "") + it["fn"] + (" [block -> fn " + it["block"]["name"] + "]" if it.get("block") else "")
        log["functions"].append({"name": qn, "file": rel,
                                 "verbatim_body_sha": _sha(fn["body"]),
                                 "lines": s[:fn["sig_start"]].count("\n") + 1})
    for impl, texts in groups.items():
        if impl:
            parts.append(f"impl {impl} {{\n" + "\n".join(texts) + "}\n")
        else:
            parts.append("\n".join(texts))
    for o in log.pop("outlined_fns", []):
        parts.append(o)
    parts.append(CANARY)
    parts.append("\n} // verus!\nfn main() {}\n")
    path = os.path.join(BUILD, f"{name}_{pid}.rs" if pid else f"{name}.rs")
    with open(path, "w") as f:
        f.write("".join(parts))
    return path, log


def _sha(t):
    import hashlib
    return hashlib.sha256(t.encode()).hexdigest()[:16]


def tags_by_line(path):
    tags = {}
    with open(path) as f:
        for n, line in enumerate(f, 1):
            m = re.search(r"//\s*@(C\d\d/\S+)", line)
            if m:
                tags[n] = m.group(1)
    return tags


def _fn_keys_by_line(src_lines):
    """line number -> key ('Impl::fn' / 'fn' / block fn name) of the extracted item the line belongs to, from the
    `// @item` / `// @enditem` markers written by build_unit; None for lines of the spec file (lemmas, shims)."""
    keys, cur = {}, None
    for n, line in enumerate(src_lines, 1):
        m = re.match(r"// @item (\S+)", line)
        if m:
            cur = m.group(1)
        elif line.startswith("// @enditem"):
            cur = None
        keys[n] = cur
    return keys


def excluded_fns(unit, pid):
    """Functions of a shared unit that do not serve property `pid` (item key 'serves': [ids]); default: a function
    serves every property that runs the unit."""
    out = set()
    if not pid:
        return out
    for it in unit.get("items", []):
        sv = it.get("serves")
        if sv and pid not in sv:
            nm = it["block"]["name"] if it.get("block") else it["fn"]
            out.add((it["impl"] + "::" if it.get("impl") else "") + nm)
    return out


def run_unit(name, unit, timeout=300, pid=None):
    """Returns dict(status, obligations=[{name,status,engine}], info...).
    status in {'ok','failed','undecided'}.
    pid: the property being decided; in a unit shared by several properties, obligations of functions whose item
    says `serves` and does not list pid are neither counted nor reported for pid (they belong to the other property's check)."""
    t0 = time.time()
    res = {"unit": name, "engine": "verus/z3", "obligations": [], "status": "ok", "notes": []}
    try:
        path, log = build_unit(name, unit, pid)
    except X.ExtractError as e:
        res["status"] = "undecided"
        res["notes"].append(f"extraction failed (anchor lost or shape changed): {e}")
        return res
    res.update(log)
    res["file"] = path
    cmd = ["verus", "--edition=2024", "--output-json", "--time", "--triggers-mode", "silent",
           "--multiple-errors", "20", path]
    res["cmd"] = " ".join(cmd)
    try:
        p = subprocess.run(cmd, capture_output=True, text=True, timeout=timeout, cwd=BUILD)
    except subprocess.TimeoutExpired:
        res["status"] = "undecided"
        res["notes"].append("verus timed out")
        return res
    res["wall_s"] = round(time.time() - t0, 2)
    try:
        out = json.loads(p.stdout)
    except Exception:
        res["status"] = "undecided"
        res["notes"].append("verus produced no JSON: " + p.stderr[-2000:])
        return res
    vr = out.get("verification-results", {})
    if re.search(r"^error\[E\d+\]", p.stderr, re.M):
        res["status"] = "undecided"
        res["stderr_tail"] = p.stderr[-6000:]
        res["notes"].append("rustc/Verus front end rejected the extracted text: " + p.stderr[-2500:])
        return res
    res["stderr_tail"] = p.stderr[-6000:]
    if vr.get("encountered-vir-error") or "verified" not in vr:
        res["status"] = "undecided"
        res["notes"].append("verus rejected the extracted text (dialect/VIR error): " + p.stderr[-3000:])
        return res
    funcs = []
    try:
        for mt in out["times-ms"]["smt"]["smt-run-module-times"]:
            funcs += mt.get("function-breakdown", [])
    except Exception:
        pass
    res["solver_time_ms"] = out.get("times-ms", {}).get("smt", {}).get("smt-run")
    fstat = {f["function"].split("::", 1)[-1]: f for f in funcs}
    canaries = {k: v for k, v in fstat.items() if k.startswith("verif_canary")}
    if "verif_canary" not in canaries or any(c.get("success", True) for c in canaries.values()):
        res["status"] = "undecided"
        res["notes"].append("a vacuity/consistency canary did not fail (%s): the pipeline cannot say no, or the assumed axioms are inconsistent"
                            % [k for k, c in canaries.items() if c.get("success", True)])
        return res
    # lines inside canary functions (their failures are expected)
    canary_lines = set()
    with open(path) as f:
        src_lines = f.read().split("\n")
    inside, depth = False, 0
    for n, line in enumerate(src_lines, 1):
        if re.search(r"fn verif_canary\w*", line):
            inside, depth = True, 0
        if inside:
            canary_lines.add(n)
            depth += line.count("{") - line.count("}")
            if depth <= 0 and "}" in line:
                inside = False
    # Map error lines -> tags.
    tags = tags_by_line(path)
    fnkey = _fn_keys_by_line(src_lines)
    excl = excluded_fns(unit, pid)
    if pid and unit.get("spec_serves") and pid not in unit["spec_serves"]:
        excl.add(None)      # lemmas / shims of the spec file serve other properties only
    item_keys = set(k for k in fnkey.values() if k)
    foreign, own_err_fns = [], set()
    # functions whose tagged clauses are reported only by the property named in the tag (item key 'tags_by_owner')
    by_owner = set((it["impl"] + "::" if it.get("impl") else "") + (it["block"]["name"] if it.get("block") else it["fn"])
                   for it in unit.get("items", []) if it.get("tags_by_owner")) if pid else set()
    def _foreign_tag(l):
        return l in tags and fnkey.get(l) in by_owner and not tags[l].startswith(pid + "/")
    all_tags = sorted(set(t for l, t in tags.items() if fnkey.get(l) not in excl and not _foreign_tag(l)))
    failed_tags, untagged = set(), []
    err_blocks = re.split(r"\n(?=error)", p.stderr)
    for blk in err_blocks:
        if not blk.startswith("error"):
            continue
        if "verif_canary" in blk or re.search(r"ensures r == 1,", blk):
            continue
        if any(ln in canary_lines for ln in [int(x) for x in re.findall(r"-->\s*\S+?:(\d+):\d+", blk)]):
            continue
        if blk.startswith("error: aborting"):
            continue
        lines = primary_span_lines(blk)
        if lines and (all(fnkey.get(l) in excl for l in lines) or
                      (any(l in tags for l in lines) and all(_foreign_tag(l) for l in lines if l in tags))):
            foreign.append({"fn": fnkey.get(lines[0]), "tags": [tags[l] for l in lines if l in tags], "text": blk.strip()[:300]})
            continue
        own_err_fns.update(fnkey.get(l) for l in lines)
        hit = [tags[l] for l in lines if l in tags]
        if hit:
            failed_tags.update(hit)
        else:
            untagged.append(blk.strip()[:600])
    rlimit = "rlimit" in p.stderr.lower() or "resource limit" in p.stderr.lower()
    for t in all_tags:
        res["obligations"].append({"name": t, "engine": "verus/z3", "class": "complete(unbounded)",
                                   "status": "failed" if t in failed_tags else "discharged"})
    # lemmas / functions without tags count as one obligation each
    for fname, f in fstat.items():
        if fname.startswith("verif_canary") or fname in excl or (None in excl and fname not in item_keys):
            continue
        if not f.get("success") and fname not in own_err_fns and any(x["fn"] == fname for x in foreign):
            # every failed clause of this function belongs to another property (tags_by_owner): not an obligation of pid
            continue
        res["obligations"].append({"name": f"{unit['property']}/verus/{name}/fn:{fname}", "engine": "verus/z3",
                                   "class": "complete(unbounded)",
                                   "status": "discharged" if f.get("success") else "fn-failed",
                                   "time_us": f.get("time-micros")})
    bad_fns = [o for o in res["obligations"] if o["status"] == "fn-failed"]
    if rlimit:
        res["status"] = "undecided"
        res["notes"].append("solver resource limit hit")
    elif failed_tags:
        res["status"] = "failed"
        res["failed"] = sorted(failed_tags)
    elif untagged or bad_fns:
        # Something failed that is not a property-level postcondition (a loop
        # invariant, a lemma, an index bound): proof did not go through, which
        # is undecided, never a violation.
        res["status"] = "undecided"
        res["notes"].append("non-property obligation failed: " + " | ".join(untagged)[:3000])
    for o in res["obligations"]:
        if o["status"] == "fn-failed":
            o["status"] = "failed" if res["status"] == "failed" else "undecided"
    if foreign:
        res["not_this_property"] = foreign
        res["notes"].append("obligations of functions that serve another property failed in this shared unit (reported by that property's check): "
                            + ", ".join(sorted(set(t for f in foreign for t in (f["tags"] or [f["fn"] or "?"])))))
    res["trusted"] = list(unit.get("trusted", [])) + scan_assumptions(path, name)
    return res


def primary_span_lines(blk):
    """Source lines of the PRIMARY span of one Verus/rustc diagnostic (the clause that failed): the `-->` line
    and, for a multi-line span, the lines up to the one carrying the `^` marker. Context lines and secondary
    spans (`at the end of the function body`, `at this exit`) are not included."""
    ls = blk.split("\n")
    out, started = [], False
    for i, ln in enumerate(ls):
        m = re.search(r"-->\s*\S+?:(\d+):\d+", ln)
        if m and not started:
            out.append(int(m.group(1)))
            started = True
            continue
        if not started:
            continue
        if re.match(r"^\s*\|\s*(\|?_*)?\^", ln):      # caret line: end of the primary span
            break
        n = re.match(r"^\s*(\d+)\s*\|\s?([/|])?", ln)
        if n:
            if n.group(2) or int(n.group(1)) == out[0]:
                out.append(int(n.group(1)))
            elif len(out) > 1:
                out.append(int(n.group(1)))
        if re.match(r"^\s*-->", ln):                        # a second location: secondary span
            break
    return out


def scan_assumptions(path, name):
    """Mechanical scan of the generated Verus file for everything that is assumed rather than proved."""
    with open(path) as f:
        text = f.read()
    ext = re.findall(r"#\[verifier::external_body\]\s*(?:pub\s+)?(?:broadcast\s+)?(?:proof\s+)?(?:fn|struct)\s+(\w+)", text)
    spec = re.findall(r"assume_specification[^\[;{]*\[([^\]]+)\]", text)
    unint = re.findall(r"uninterp\s+spec\s+fn\s+(\w+)", text)
    n_admit = len(re.findall(r"\badmit\(\)", text))
    n_assume = len(re.findall(r"(?<![\w:])assume\(", text))
    out = [f"scan verus/{name}: {len(ext)} external_body items (assumed contracts / opaque types): {', '.join(sorted(set(ext)))}"]
    if spec:
        out.append(f"scan verus/{name}: assume_specification for std items: {', '.join(sorted(set(x.strip() for x in spec)))}")
    if unint:
        out.append(f"scan verus/{name}: uninterpreted spec functions: {', '.join(sorted(set(unint)))}")
    out.append(f"scan verus/{name}: {n_admit} admit(), {n_assume} assume() in the generated file")
    return out
