#!/usr/bin/env python3
"""Sanity check to run before committing /verif: MANIFEST and every evidence file validate against the
schemas, every claimed check has an evidence file from a run on a clean /repo tree with all obligations
discharged and no violation recorded. (python3-vt lib/selfcheck.py)"""
import glob, json, os, subprocess, sys
try:
    import jsonschema
except ImportError:
    sys.exit("run with python3-vt (needs jsonschema)")
ROOT = os.path.dirname(os.path.dirname(os.path.abspath(__file__)))
bad = 0
m = json.load(open(os.path.join(ROOT, "MANIFEST.json")))
jsonschema.validate(m, json.load(open("/root/.vp/MANIFEST.schema.json")))
sch = json.load(open("/root/.vp/EVIDENCE.schema.json"))
for c in m["checks"]:
    f = c["evidence_file"]
    if not os.path.exists(f):
        print("MISSING", f); bad += 1; continue
    d = json.load(open(f))
    try:
        jsonschema.validate(d, sch)
    except Exception as e:
        print("INVALID", f, str(e)[:120]); bad += 1; continue
    cov = d["coverage"]
    if cov.get("obligations", 0) < 1 or cov.get("obligations") != cov.get("discharged") or not cov.get("checker_cmd") or d.get("violations"):
        print("STALE/BAD", f, cov.get("obligations"), cov.get("discharged"), "violations:", len(d.get("violations") or [])); bad += 1
dirty = subprocess.run(["git", "-C", "/repo", "status", "--porcelain"], capture_output=True, text=True).stdout.strip()
if dirty:
    print("/repo working tree is dirty:", dirty[:200]); bad += 1
print("selfcheck:", "OK" if not bad else f"{bad} problem(s)")
sys.exit(1 if bad else 0)
