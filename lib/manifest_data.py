HOOK_COMMIT_SUBJECT_PREFIX = "verif hook:"

def chk(pid, text, note, technique, design_ref):
    return {
        "property_id": pid,
        "quick_cmd": f"./check {pid} --tier quick",
        "thorough_cmd": f"./check {pid} --tier thorough",
        "evidence_file": f"/verif/evidence/{pid}.json",
        "replay_cmd_template": f"./check {pid} --replay {{path}}",
        "engine": "kani+verus",
        "level_claimed": {"category": "proof", "text": text, "design_ref": design_ref},
        "level_note": note,
        "technique": technique,
    }

CHECKS = [
    chk("C02",
        "Machine-checked contracts on the real routing-table functions: bucket index = first differing bit (Verus, unbounded, on the verbatim extracted text; Kani complete over all 2^512 id pairs), XOR distance (Kani complete). Table invariant and closest-n exactness are bounded stand-ins (B nodes, listed bucket positions), labelled bounded and not counted as proved.",
        "Trusted: Kani/CBMC/Verus/Z3; DhtKey::distance contract assumed in Verus (proved on the real fn by Kani). Not decided: async reply construction in DhtNetworkManager, protocol caps inside async handle_request.",
        "Verus function contracts + loop invariant on extracted code; Kani proof harnesses with named postconditions inside the real crate",
        "DESIGN.md section 5 C02"),
    chk("C09",
        "Verus proves, on the mechanically extracted text of PeerDHTRecord::{validate_inputs, create_signable_message, verify_signature} and SignatureCache::{new, cache_key, verify_cached}, for all records and all cache histories/capacities/eviction choices: construction accepts exactly the documented bounds; the signed message is the canonical encoding of every field; verification succeeds iff the user id is the one derived from the embedded key and the signature verifies over exactly this record; verify_cached returns the same verdict as verify_signature (inductive cache invariant + lemma: equal cache keys imply equal verdicts).",
        "Under an ideal-crypto dependency contract (ml_dsa_verify deterministic in its three arguments, BLAKE3 injective, postcard injective) -- assumptions, listed in the evidence; error payloads dropped by the extraction; no Kani counterexample producer for this unit (violations are reported with no-failing-input-found).",
        "Verus function contracts, data-structure invariant and lemmas on mechanically extracted code",
        "DESIGN.md section 5 C09"),
    chk("C12",
        "Verus proves, on the verbatim text of validate_sequence_internal / apply_sequence_update / next_expected_sequence / PeerCounter::new, for histories of any length: Valid only for last+1 and never for a seen (number,hash); numbers <= last never accepted; gap/replay classification; apply sets last; plus induction lemmas over those contracts (accepted numbers are exactly 1,2,3..., each at most once). Kani proves the callee contract Verus assumes (has_seen_sequence, bounded history), the same postconditions over the full u64 domain (counterexample producer), cleanup keeps the acceptance state, and same-number-twice composition.",
        "Assumed: std::sync::RwLock serialises the validate+apply critical section (sequential semantics per critical section); clock < 2^48 s; fewer than 2^64 accepts per peer. Not decided: concurrent submitters beyond the lock argument, reload from disk, the async wrappers themselves.",
        "Verus contracts + induction lemmas on extracted code; Kani harnesses with named postconditions in the real crate",
        "DESIGN.md section 5 C12"),
    chk("C13",
        "Verus proves, on the mechanically extracted text of IPDiversityEnforcer::{can_accept_node, add_node, remove_node, can_accept_ipv4, add_ipv4, remove_ipv4, can_accept_unified, add_unified, remove_unified, set_network_size}, for every counter state (maps of any size): admitted iff every level is below its cap (halved, minimum one, for hosting/VPN; IPv4 caps scaled by the network-size rule); an admission counts each level exactly once and touches no other key of any map, a refused admission consumes nothing; removal returns each slot. Lemmas over those contracts give the history-level claims (caps hold after every admission and removal; remove undoes add). Kani proves, complete over the input domain, the f64 per-IP-limit contract that Verus assumes, and the prefix extraction.",
        "Assumed: lru::LruCache is a finite map below its capacity (the property's own 50k qualifier; dependency contract, lru crate not verified); std::cmp::max/min, Option::copied specs; configured caps >= 1. Not decided: slot return on routing-table removal and on the partial-failure path of the async DhtCoreEngine::add_node, the connecting-peer path, BootstrapManager::add_peer.",
        "Verus function contracts + lemmas on mechanically extracted code (let-chain / ref-pattern desugaring listed in the evidence); Kani complete harnesses for the float and bit-level callees",
        "DESIGN.md section 5 C13"),
    chk("C14",
        "Kani proves the per-call contract of the token bucket (Bucket::try_consume, Bucket::new) over the full f64 token / u32 cap / clock domain (loop-free, complete): a grant needs a token and a window slot and consumes exactly one of each, a denial changes neither beyond crediting elapsed refill, tokens never exceed burst; and the prefix extraction of the join limiter (first 64/48/32 resp. 24/16/8 bits, complete).",
        "History-level bounds follow from the per-call contract by induction (refill sums treated as real numbers). Assumed: one lock around try_consume; clock monotone. Not decided: concurrent submitters beyond the lock argument; the async call site.",
        "Kani proof harnesses with named postconditions inside the real crate (bit-precise floats)",
        "DESIGN.md section 5 C14"),
]

_PENDING = "check under construction in this session (claimed in DESIGN.md; will move to checks when its obligations discharge)"
NOT_APPLICABLE = [
    {"property_id": "C01", "reason": "iterative lookup lives in a 180-line async method needing a live transport and quantifies over topologies/lying peers; Verus rejects the text, Kani cannot construct the object; only a hand-written model could be proved (different family)"},
    {"property_id": "C03", "reason": "which peers are addressed / whether store really stores / when get gives up are inside async engine+manager methods (Kani ICE, no transport); reachable pieces decide no clause alone (size guard claimed under C05)"},
    {"property_id": "C04", "reason": "reply matching is inline in spawned task closures of a transport-holding manager and quantifies over schedules/cancellations; no contract can be attached without an unguarded refactor, Kani has no threads"},
    {"property_id": "C05", "reason": _PENDING},
    {"property_id": "C06", "reason": "quantifies over crash points of file-system operations; neither verifier has a file system or crash model and PersistentStateManager cannot be constructed without files"},
    {"property_id": "C07", "reason": "same file I/O plus HMAC/SHA-256/postcard over file contents; the verifiers cannot execute the recovery loop"},
    {"property_id": "C08", "reason": "claim is about real ML-DSA-65 in the release profile; the scheme cannot be executed symbolically, Kani builds the debug shim, and assuming 'verify accepts exactly what sign produced' would assume the property"},
    {"property_id": "C10", "reason": "floating-point power iteration over HashMaps with data-dependent iteration count inside async methods on tokio locks; bounds on a float fixed point are outside both tools"},
    {"property_id": "C11", "reason": "quantitative statement about the limit of that iteration over all attack graphs up to 1000 nodes; no inductive invariant within reach"},
    {"property_id": "C15", "reason": _PENDING},
    {"property_id": "C16", "reason": _PENDING},
    {"property_id": "C17", "reason": _PENDING},
    {"property_id": "C18", "reason": "Argon2id + ChaCha20-Poly1305 over a file, reopen and crash-at-rename; no file system or crypto semantics in the verifiers, every method async on an object that opens files"},
    {"property_id": "C19", "reason": "string formatting/parsing through the four-word dictionary and SocketAddr parsing; Verus has no string byte reasoning, CBMC on format!/parse + dictionary over 2^48 is intractable; cross-component clause sits in async call sites"},
    {"property_id": "C20", "reason": "liveness/deadlock property over schedules; Kani has no concurrency or termination proof, Verus would need the code rewritten with its permission types"},
]
