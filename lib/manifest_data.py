HOOK_COMMIT_SUBJECT_PREFIX = "verif hook:"

def chk(pid, text, note, technique, design_ref):
    return {
        "property_id": pid,
        "quick_cmd": f"./check {pid} --tier quick",
        "thorough_cmd": f"./check {pid} --tier thorough",
        "evidence_file": f"/verif/evidence/{pid}.json",
        "replay_cmd_template": f"./check {pid} --replay {{path}}",
        "engine": "kani+verus",
        "level_claimed": {"category": "proof", "text": text, "design_ref": design_ref},
        "level_note": note,
        "technique": technique,
    }

CHECKS = [
    chk("C02",
        "Machine-checked contracts on the real routing-table functions: bucket index = first differing bit (Verus, unbounded, on the verbatim extracted text; Kani complete over all 2^512 id pairs), XOR distance (Kani complete). Table invariant and closest-n exactness are bounded stand-ins (B nodes, listed bucket positions), labelled bounded and not counted as proved.",
        "Trusted: Kani/CBMC/Verus/Z3; DhtKey::distance contract assumed in Verus (proved on the real fn by Kani). Not decided: async reply construction in DhtNetworkManager, protocol caps inside async handle_request.",
        "Verus function contracts + loop invariant on extracted code; Kani proof harnesses with named postconditions inside the real crate",
        "DESIGN.md section 5 C02"),
    chk("C12",
        "Verus proves, on the verbatim text of validate_sequence_internal / apply_sequence_update / next_expected_sequence / PeerCounter::new, for histories of any length: Valid only for last+1 and never for a seen (number,hash); numbers <= last never accepted; gap/replay classification; apply sets last; plus induction lemmas over those contracts (accepted numbers are exactly 1,2,3..., each at most once). Kani proves the callee contract Verus assumes (has_seen_sequence, bounded history), the same postconditions over the full u64 domain (counterexample producer), cleanup keeps the acceptance state, and same-number-twice composition.",
        "Assumed: std::sync::RwLock serialises the validate+apply critical section (sequential semantics per critical section); clock < 2^48 s; fewer than 2^64 accepts per peer. Not decided: concurrent submitters beyond the lock argument, reload from disk, the async wrappers themselves.",
        "Verus contracts + induction lemmas on extracted code; Kani harnesses with named postconditions in the real crate",
        "DESIGN.md section 5 C12"),
]

_PENDING = "check under construction in this session (claimed in DESIGN.md; will move to checks when its obligations discharge)"
NOT_APPLICABLE = [
    {"property_id": "C01", "reason": "iterative lookup lives in a 180-line async method needing a live transport and quantifies over topologies/lying peers; Verus rejects the text, Kani cannot construct the object; only a hand-written model could be proved (different family)"},
    {"property_id": "C03", "reason": "which peers are addressed / whether store really stores / when get gives up are inside async engine+manager methods (Kani ICE, no transport); reachable pieces decide no clause alone (size guard claimed under C05)"},
    {"property_id": "C04", "reason": "reply matching is inline in spawned task closures of a transport-holding manager and quantifies over schedules/cancellations; no contract can be attached without an unguarded refactor, Kani has no threads"},
    {"property_id": "C05", "reason": _PENDING},
    {"property_id": "C06", "reason": "quantifies over crash points of file-system operations; neither verifier has a file system or crash model and PersistentStateManager cannot be constructed without files"},
    {"property_id": "C07", "reason": "same file I/O plus HMAC/SHA-256/postcard over file contents; the verifiers cannot execute the recovery loop"},
    {"property_id": "C08", "reason": "claim is about real ML-DSA-65 in the release profile; the scheme cannot be executed symbolically, Kani builds the debug shim, and assuming 'verify accepts exactly what sign produced' would assume the property"},
    {"property_id": "C09", "reason": _PENDING},
    {"property_id": "C10", "reason": "floating-point power iteration over HashMaps with data-dependent iteration count inside async methods on tokio locks; bounds on a float fixed point are outside both tools"},
    {"property_id": "C11", "reason": "quantitative statement about the limit of that iteration over all attack graphs up to 1000 nodes; no inductive invariant within reach"},
    {"property_id": "C13", "reason": _PENDING},
    {"property_id": "C14", "reason": _PENDING},
    {"property_id": "C15", "reason": _PENDING},
    {"property_id": "C16", "reason": _PENDING},
    {"property_id": "C17", "reason": _PENDING},
    {"property_id": "C18", "reason": "Argon2id + ChaCha20-Poly1305 over a file, reopen and crash-at-rename; no file system or crypto semantics in the verifiers, every method async on an object that opens files"},
    {"property_id": "C19", "reason": "string formatting/parsing through the four-word dictionary and SocketAddr parsing; Verus has no string byte reasoning, CBMC on format!/parse + dictionary over 2^48 is intractable; cross-component clause sits in async call sites"},
    {"property_id": "C20", "reason": "liveness/deadlock property over schedules; Kani has no concurrency or termination proof, Verus would need the code rewritten with its permission types"},
]
