// Spec side of unit `select` (C16, trust-aware peer selection): specification only.
//
// ASSUMED (listed in the evidence): the float prelude; the trust provider is a function of the node id
// during one selection (`trust_of`); xor_distance is a function of (key, id) (its own loop is outside
// this unit; Kani harness c16_xor_distance_contract); DhtKey::distance is byte-wise XOR (Kani
// c02_distance_is_xor); derived Clone of NodeInfo returns an equal value; the two iterator chains
// (`iter().filter_map(f).collect()`; `sort_by(..)` + `into_iter().take(n).map(..).collect()`) behave as
// documented by std (renamed to shims / outlined verbatim; the closure of filter_map stays in place and
// is verified).

pub mod verif_select_std {
    use vstd::prelude::*;
    pub struct DhtKey(pub [u8; 32]);
    pub struct NodeId(pub DhtKey);
    pub struct NodeInfo { pub id: NodeId }
    impl Clone for NodeInfo {
        #[verifier::external_body]
        fn clone(&self) -> (r: Self) ensures r == *self { unimplemented!() }
    }
    pub open spec fn xor_seq(a: [u8; 32], b: [u8; 32]) -> Seq<u8> { Seq::new(32, |i: int| a[i] ^ b[i]) }
    /// the byte-wise XOR as an array (DhtKey::distance; Kani c02_distance_is_xor)
    pub uninterp spec fn xor_arr(a: [u8; 32], b: [u8; 32]) -> [u8; 32];
    #[verifier::external_body]
    pub broadcast proof fn axiom_xor_arr(a: [u8; 32], b: [u8; 32])
        ensures (#[trigger] xor_arr(a, b))@ == xor_seq(a, b),
    {}
    impl DhtKey {
        #[verifier::external_body]
        pub fn from_bytes(bytes: [u8; 32]) -> (r: DhtKey) ensures r.0 == bytes { unimplemented!() }
        #[verifier::external_body]
        pub fn distance(&self, other: &DhtKey) -> (r: [u8; 32]) ensures r == xor_arr(self.0, other.0) { unimplemented!() }
    }
    impl NodeId {
        #[verifier::external_body]
        pub fn as_bytes(&self) -> (r: &[u8; 32]) ensures *r == self.0.0 { unimplemented!() }
    }
    /// top-16-byte XOR distance as computed by xor_distance (a function of key and id)
    pub uninterp spec fn xor16(key: DhtKey, id: NodeId) -> u128;
    #[verifier::external_body]
    pub fn xor_distance(key: &DhtKey, node_id: &NodeId) -> (r: u128) ensures r == xor16(*key, *node_id) { unimplemented!() }
}
pub use verif_select_std::*;
broadcast use verif_float::group_float;

pub struct TrustSelectionConfig {
    pub trust_weight: f64,
    pub min_trust_threshold: f64,
    pub exclude_untrusted: bool,
}
/// `trust_provider: Arc<T>` is represented by what it answers during one selection
pub struct TrustAwarePeerSelector {
    pub trust_provider: Ghost<spec_fn(NodeId) -> f64>,
    pub config: TrustSelectionConfig,
    pub storage_config: TrustSelectionConfig,
}
impl TrustAwarePeerSelector {
    // ASSUMED: asks the provider (a function of the id during one selection)
    #[verifier::external_body]
    fn get_trust_for_node(&self, node_id: &NodeId) -> (r: f64) ensures r == (self.trust_provider@)(*node_id) { unimplemented!() }
}
pub type Scored = (NodeInfo, f64, [u8; 32]);

/// the trust the provider reports for a candidate (judged against the floor as reported)
pub open spec fn judged_trust(s: &TrustAwarePeerSelector, n: NodeInfo) -> f64 {
    (s.trust_provider@)(n.id)
}
/// the trust a candidate is scored with: the reported trust clamped to [0, 1] (NaN stays NaN)
pub open spec fn scored_trust(s: &TrustAwarePeerSelector, n: NodeInfo) -> f64 {
    f_clamp((s.trust_provider@)(n.id), 0.0f64, 1.0f64)
}
pub open spec fn score_of(key: DhtKey, n: NodeInfo, trust: f64, c: &TrustSelectionConfig) -> f64 {
    f_mul(f_div(1.0f64, f_add(1.0f64, f_div(f_of_nat(xor16(key, n.id) as nat), 1e30f64))),
          f_add(c.trust_weight, f_mul(f_sub(1.0f64, c.trust_weight), trust)))
}
/// what the filter_map closure yields for a candidate
pub open spec fn sel_entry(s: &TrustAwarePeerSelector, key: DhtKey, c: &TrustSelectionConfig, n: NodeInfo) -> Option<Scored> {
    let trust = scored_trust(s, n);
    if c.exclude_untrusted && f_lt(judged_trust(s, n), c.min_trust_threshold) { None }
    else if f_is_nan(score_of(key, n, trust, c)) { None }
    else { Some((n, score_of(key, n, trust, c), xor_arr(n.id.0.0, key.0))) }
}
/// from the statement: "never include one whose trust is below the floor" (when exclusion is configured)
pub open spec fn eligible(s: &TrustAwarePeerSelector, c: &TrustSelectionConfig, n: NodeInfo) -> bool {
    !(c.exclude_untrusted && f_lt(judged_trust(s, n), c.min_trust_threshold))
}
/// selection result: at most `count` entries, each one a candidate that passed the trust floor, taken
/// from pairwise different candidate positions (hence distinct peers when the candidates are distinct)
pub open spec fn selection_ok(s: &TrustAwarePeerSelector, c: &TrustSelectionConfig, cands: Seq<NodeInfo>, count: usize, r: Seq<NodeInfo>) -> bool {
    &&& r.len() <= count && r.len() <= cands.len()
    &&& exists|pos: Seq<int>| pos.len() == r.len()
            && (forall|i: int| 0 <= i < r.len() ==> 0 <= #[trigger] pos[i] < cands.len() && r[i] == cands[pos[i]] && eligible(s, c, cands[pos[i]]))
            && (forall|i: int, j: int| 0 <= i < j < r.len() ==> #[trigger] pos[i] != #[trigger] pos[j])
}

// ---- shims for the iterator chains ---------------------------------------------------------------
pub open spec fn fm_spec(s: Seq<NodeInfo>, f: spec_fn(NodeInfo) -> Option<Scored>, n: int) -> Seq<Scored>
    decreases n
{
    if n <= 0 { Seq::empty() }
    else if f(s[n - 1]).is_some() { fm_spec(s, f, n - 1).push(f(s[n - 1]).unwrap()) }
    else { fm_spec(s, f, n - 1) }
}
/// `xs.iter().filter_map(f).collect()` -- body IS the chain; contract: the Some-results in order (std docs)
#[verifier::external_body]
pub fn verif_filter_map_collect<'a, P: Fn(&'a NodeInfo) -> Option<Scored>>(s: &'a [NodeInfo], p: P, Ghost(f): Ghost<spec_fn(NodeInfo) -> Option<Scored>>) -> (r: Vec<Scored>)
    requires
        forall|x: &NodeInfo| #[trigger] call_requires(p, (x,)),
        forall|x: &NodeInfo, o: Option<Scored>| #[trigger] call_ensures(p, (x,), o) ==> o == f(*x),
    ensures r@ == fm_spec(s@, f, s@.len() as int),
{
    s.iter().filter_map(p).collect()
}
/// every entry of the filter_map result comes from a candidate position, positions increase
proof fn lemma_fm_positions(s: Seq<NodeInfo>, f: spec_fn(NodeInfo) -> Option<Scored>, n: int) -> (pos: Seq<int>)
    requires 0 <= n <= s.len(),
    ensures pos.len() == fm_spec(s, f, n).len(), pos.len() <= n,
        forall|i: int| 0 <= i < pos.len() ==> 0 <= #[trigger] pos[i] < n && f(s[pos[i]]) == Some(fm_spec(s, f, n)[i]),
        forall|i: int, j: int| 0 <= i < j < pos.len() ==> #[trigger] pos[i] < #[trigger] pos[j],
    decreases n
{
    if n <= 0 {
        Seq::empty()
    } else {
        let p = lemma_fm_positions(s, f, n - 1);
        if f(s[n - 1]).is_some() {
            let q = p.push(n - 1);
            assert forall|i: int| 0 <= i < q.len() implies 0 <= #[trigger] q[i] < n && f(s[q[i]]) == Some(fm_spec(s, f, n)[i]) by {
                if i < p.len() { assert(q[i] == p[i]); assert(fm_spec(s, f, n)[i] == fm_spec(s, f, n - 1)[i]); }
            }
            assert forall|i: int, j: int| 0 <= i < j < q.len() implies #[trigger] q[i] < #[trigger] q[j] by {
                assert(q[i] == p[i]);
                if j < p.len() { assert(q[j] == p[j]); }
            }
            q
        } else { p }
    }
}
/// ASSUMED contract of the outlined tail: `scored.sort_by(cmp)` permutes, `into_iter().take(count)
/// .map(|(node, _, _)| node).collect()` keeps the first min(count, len) first components, in order.
pub open spec fn tail_post(scored: Seq<Scored>, count: usize, r: Seq<NodeInfo>) -> bool {
    &&& r.len() == (if count <= scored.len() { count as int } else { scored.len() as int })
    &&& exists|perm: Seq<int>| perm.len() == scored.len()
            && (forall|i: int| 0 <= i < perm.len() ==> 0 <= #[trigger] perm[i] < scored.len())
            && (forall|i: int, j: int| 0 <= i < j < perm.len() ==> #[trigger] perm[i] != #[trigger] perm[j])
            && (forall|i: int| 0 <= i < r.len() ==> r[i] == scored[#[trigger] perm[i]].0)
            && (forall|i: int, j: int| 0 <= i < j < perm.len() ==> ranked_before(scored[#[trigger] perm[i]], scored[#[trigger] perm[j]]))
}
/// comparator of the sort: score descending in IEEE total order, ties by full XOR distance ascending
pub open spec fn ranked_before(a: Scored, b: Scored) -> bool {
    f_total_cmp(b.1, a.1) == std::cmp::Ordering::Less
        || (f_total_cmp(b.1, a.1) == std::cmp::Ordering::Equal && !lex_lt(b.2@, a.2@))
}
pub open spec fn lex_lt(x: Seq<u8>, y: Seq<u8>) -> bool {
    exists|i: int| 0 <= i < 32 && x[i] < y[i] && forall|j: int| 0 <= j < i ==> x[j] == y[j]
}
proof fn lemma_selection(s: &TrustAwarePeerSelector, key: DhtKey, c: &TrustSelectionConfig, cands: Seq<NodeInfo>, scored: Seq<Scored>, count: usize, r: Seq<NodeInfo>)
    requires
        scored == fm_spec(cands, |n: NodeInfo| sel_entry(s, key, c, n), cands.len() as int),
        tail_post(scored, count, r),
    ensures selection_ok(s, c, cands, count, r),
{
    let f = |n: NodeInfo| sel_entry(s, key, c, n);
    let p = lemma_fm_positions(cands, f, cands.len() as int);
    let perm = choose|perm: Seq<int>| perm.len() == scored.len()
            && (forall|i: int| 0 <= i < perm.len() ==> 0 <= #[trigger] perm[i] < scored.len())
            && (forall|i: int, j: int| 0 <= i < j < perm.len() ==> #[trigger] perm[i] != #[trigger] perm[j])
            && (forall|i: int| 0 <= i < r.len() ==> r[i] == scored[#[trigger] perm[i]].0)
            && (forall|i: int, j: int| 0 <= i < j < perm.len() ==> ranked_before(scored[#[trigger] perm[i]], scored[#[trigger] perm[j]]));
    let pos = Seq::new(r.len(), |i: int| p[perm[i]]);
    assert forall|i: int| 0 <= i < r.len() implies 0 <= #[trigger] pos[i] < cands.len() && r[i] == cands[pos[i]] && eligible(s, c, cands[pos[i]]) by {
        let k = perm[i];
        assert(f(cands[p[k]]) == Some(scored[k]));
    }
    assert forall|i: int, j: int| 0 <= i < j < r.len() implies #[trigger] pos[i] != #[trigger] pos[j] by {
        let (a, b) = (perm[i], perm[j]);
        assert(a != b);
        if a < b { assert(p[a] < p[b]); } else { assert(p[b] < p[a]); }
    }
    assert(pos.len() == r.len());
    assert(scored.len() == p.len() && p.len() <= cands.len());
    assert(r.len() <= count && r.len() <= cands.len());
    assert(pos.len() == r.len()
        && (forall|i: int| 0 <= i < r.len() ==> 0 <= #[trigger] pos[i] < cands.len() && r[i] == cands[pos[i]] && eligible(s, c, cands[pos[i]]))
        && (forall|i: int, j: int| 0 <= i < j < r.len() ==> #[trigger] pos[i] != #[trigger] pos[j]));
}
proof fn lemma_empty_selection(s: &TrustAwarePeerSelector, c: &TrustSelectionConfig, cands: Seq<NodeInfo>, count: usize, r: Seq<NodeInfo>)
    requires r.len() == 0,
    ensures selection_ok(s, c, cands, count, r),
{
    let pos = Seq::<int>::empty();
    assert(pos.len() == r.len()
        && (forall|i: int| 0 <= i < r.len() ==> 0 <= #[trigger] pos[i] < cands.len() && r[i] == cands[pos[i]] && eligible(s, c, cands[pos[i]]))
        && (forall|i: int, j: int| 0 <= i < j < r.len() ==> #[trigger] pos[i] != #[trigger] pos[j]));
}
