// Spec side of unit `cgv` (C15, close-group membership verdicts): specification only.
//
// ASSUMED (listed in the evidence): the float prelude (verus/float.spec.rs); the contracts of the
// two callees kept outside the dialect -- count_confirming_regions (HashSet of region strings) and
// detect_collusion_indicators (sort + windows over Durations): the latter's contract is PROVED on
// the real function by the Kani harnesses c15_collusion_contract_* (bounded witness count);
// `is_attack_mode` reads an AtomicBool (modelled as a field-like spec value of the validator).

pub mod verif_cgv_std {
    use vstd::prelude::*;
    #[verifier::external_body]
    pub struct DhtNodeId { _p: [u8; 32] }
    impl Clone for DhtNodeId {
        #[verifier::external_body]
        fn clone(&self) -> (r: Self) ensures r == *self { unimplemented!() }
    }
    /// std::time::Duration (opaque here: only the collusion heuristic reads latencies)
    #[verifier::external_body]
    pub struct Duration { _p: u64 }
}
pub use verif_cgv_std::*;
// ASSUMED std specifications (documented behaviour)
pub assume_specification<T: PartialEq> [<[T]>::contains] (s: &[T], x: &T) -> (r: bool);
pub assume_specification<T, F: FnOnce(T) -> bool> [Option::<T>::is_some_and] (o: Option<T>, f: F) -> (r: bool)
    requires o.is_some() ==> call_requires(f, (o.unwrap(),)),
    ensures o.is_none() ==> !r, o.is_some() ==> call_ensures(f, (o.unwrap(),), r);
broadcast use verif_float::group_float;

pub struct CloseGroupResponse {
    pub confirms_membership: bool,
    pub peer_trust_score: Option<f64>,
    pub peer_region: Option<String>,
    pub response_latency: Duration,
}
pub struct CloseGroupValidationResult {
    pub node_id: DhtNodeId,
    pub is_valid: bool,
    pub confirmation_ratio: f64,
    pub weighted_confirmation: f64,
    pub confirming_regions: usize,
    pub failure_reasons: Vec<CloseGroupFailure>,
    pub used_bft_consensus: bool,
}
pub struct CloseGroupValidatorConfig {
    pub min_peers_to_query: usize,
    pub trust_weighted_threshold: f64,
    pub bft_threshold: f64,
    pub min_witness_trust: f64,
    pub min_regions: usize,
}
pub struct CloseGroupValidator {
    pub config: CloseGroupValidatorConfig,
    /// stands for the AtomicBool `attack_mode` (read with Ordering::Relaxed)
    pub attack_mode: Ghost<bool>,
}
impl PartialEq for CloseGroupFailure {
    #[verifier::external_body]
    fn eq(&self, other: &CloseGroupFailure) -> (r: bool) ensures r == (*self == *other) { unimplemented!() }
}

pub type Rs = Seq<CloseGroupResponse>;

// ---- the property's vocabulary ------------------------------------------------------------------
/// weight of a witness in normal mode: its trust, 0.5 when unknown
pub open spec fn weight_of(r: CloseGroupResponse) -> f64 {
    match r.peer_trust_score { Some(t) => t, None => 0.5f64 }
}
/// "sufficiently trusted witness": trust known and >= min_witness_trust (unknown counts as 0.0)
pub open spec fn trusted(r: CloseGroupResponse, min_trust: f64) -> bool {
    f_ge(match r.peer_trust_score { Some(t) => t, None => 0.0f64 }, min_trust)
}
pub open spec fn total_w(rs: Rs, n: int) -> f64 decreases n {
    if n <= 0 { 0.0f64 } else { f_add(total_w(rs, n - 1), weight_of(rs[n - 1])) }
}
pub open spec fn conf_w(rs: Rs, n: int) -> f64 decreases n {
    if n <= 0 { 0.0f64 } else if rs[n - 1].confirms_membership { f_add(conf_w(rs, n - 1), weight_of(rs[n - 1])) } else { conf_w(rs, n - 1) }
}
pub open spec fn conf_n(rs: Rs, n: int) -> int decreases n {
    if n <= 0 { 0 } else { conf_n(rs, n - 1) + if rs[n - 1].confirms_membership { 1int } else { 0int } }
}
/// confirming share of witness trust (normal mode)
pub open spec fn share(rs: Rs) -> f64 {
    if f_gt(total_w(rs, rs.len() as int), 0.0f64) { f_div(conf_w(rs, rs.len() as int), total_w(rs, rs.len() as int)) } else { 0.0f64 }
}
/// the trusted witnesses, in order (BFT mode)
pub open spec fn trusted_of(rs: Rs, min_trust: f64) -> Rs {
    rs.filter(|r: CloseGroupResponse| trusted(r, min_trust))
}
pub open spec fn confirming_of(rs: Rs) -> Rs {
    rs.filter(|r: CloseGroupResponse| r.confirms_membership)
}
/// fraction of the trusted witnesses that confirm, as the code computes it
pub open spec fn bft_ratio(rs: Rs, min_trust: f64) -> f64 {
    f_div(f_of_nat(confirming_of(trusted_of(rs, min_trust)).len()), f_of_nat(trusted_of(rs, min_trust).len()))
}
/// number of distinct known regions among the confirming witnesses
pub open spec fn confirming_regions(rs: Rs) -> nat {
    confirming_of(rs).filter(|r: CloseGroupResponse| r.peer_region.is_some()).map_values(|r: CloseGroupResponse| r.peer_region.unwrap()).to_set().len()
}
/// the collusion flag of detect_collusion_indicators over the given (trusted) witnesses
pub uninterp spec fn collusion_flag(rs: Rs) -> bool;

impl CloseGroupValidator {
    // ASSUMED: reads the AtomicBool
    #[verifier::external_body]
    pub fn is_attack_mode(&self) -> (r: bool) ensures r == self.attack_mode@ { unimplemented!() }

    // ASSUMED contract (body: filter/filter_map/collect::<HashSet<_>>().len(), outside the dialect)
    #[verifier::external_body]
    fn count_confirming_regions(&self, responses: &[CloseGroupResponse]) -> (r: usize)
        ensures r == confirming_regions(responses@)
    { unimplemented!() }

    // ASSUMED here; PROVED on the real function by Kani (c15_collusion_contract_*, bounded)
    #[verifier::external_body]
    fn detect_collusion_indicators(&self, responses: &Vec<&CloseGroupResponse>) -> (r: bool)
        ensures r == collusion_flag(responses@.map_values(|x: &CloseGroupResponse| *x)),
                responses@.len() < 3 ==> !r,
    { unimplemented!() }
}

/// BFT acceptance, from the statement: enough sufficiently trusted witnesses answered, at least the
/// configured fraction of them confirm, no collusion flag, confirmations span the required regions.
pub open spec fn bft_accepts(v: &CloseGroupValidator, rs: Rs) -> bool {
    let t = trusted_of(rs, v.config.min_witness_trust);
    &&& t.len() >= v.config.min_peers_to_query
    &&& f_ge(bft_ratio(rs, v.config.min_witness_trust), v.config.bft_threshold)
    &&& !collusion_flag(t)
    &&& confirming_regions(rs) >= v.config.min_regions
}
/// normal-mode acceptance: the confirming share of witness trust reaches the threshold
pub open spec fn normal_accepts(v: &CloseGroupValidator, rs: Rs) -> bool {
    f_ge(share(rs), v.config.trust_weighted_threshold)
}
/// the gates in front of both modes
pub open spec fn gates_pass(v: &CloseGroupValidator, rs: Rs, node_trust: Option<f64>) -> bool {
    &&& rs.len() >= v.config.min_peers_to_query
    &&& !(node_trust matches Some(t) && f_lt(t, v.config.min_witness_trust))
}

// ---- shims for the two iterator chains of validate_bft -------------------------------------------
// `xs.iter().filter(p).collect()` and `xs.iter().filter(p).count()`: the extraction renames the chains
// to these shims (bodies ARE the std chains); contract = documented std behaviour (elements for
// which the predicate returns true, in order / their number). The closure stays visible to the
// verifier: its `ensures` is proved against its verbatim body and must agree with the ghost predicate.
#[verifier::external_body]
pub fn verif_filter_collect<'a, P: Fn(&&'a CloseGroupResponse) -> bool>(s: &'a [CloseGroupResponse], p: P, Ghost(f): Ghost<spec_fn(CloseGroupResponse) -> bool>) -> (r: Vec<&'a CloseGroupResponse>)
    requires
        forall|x: &&CloseGroupResponse| #[trigger] call_requires(p, (x,)),
        forall|x: &&CloseGroupResponse, b: bool| #[trigger] call_ensures(p, (x,), b) ==> b == f(**x),
    ensures r@.map_values(|x: &CloseGroupResponse| *x) == s@.filter(f),
{
    s.iter().filter(p).collect()
}
#[verifier::external_body]
pub fn verif_filter_count<'a, P: Fn(&&&'a CloseGroupResponse) -> bool>(s: &Vec<&'a CloseGroupResponse>, p: P, Ghost(f): Ghost<spec_fn(CloseGroupResponse) -> bool>) -> (r: usize)
    requires
        forall|x: &&&CloseGroupResponse| #[trigger] call_requires(p, (x,)),
        forall|x: &&&CloseGroupResponse, b: bool| #[trigger] call_ensures(p, (x,), b) ==> b == f(***x),
    ensures r == s@.map_values(|x: &CloseGroupResponse| *x).filter(f).len(),
{
    s.iter().filter(p).count()
}
