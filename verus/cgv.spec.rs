// Spec side of unit `cgv` (C15, close-group membership verdicts): specification only.
//
// ASSUMED (listed in the evidence): the float prelude (verus/float.spec.rs); the contracts of the
// two callees kept outside the dialect -- count_confirming_regions (HashSet of region strings) and
// detect_collusion_indicators (sort + windows over Durations): the latter's contract is PROVED on
// the real function by the Kani harnesses c15_collusion_contract_* (bounded witness count);
// `is_attack_mode` reads an AtomicBool (modelled as a field-like spec value of the validator).

pub mod verif_cgv_std {
    use vstd::prelude::*;
    #[verifier::external_body]
    pub struct DhtNodeId { _p: [u8; 32] }
    impl Clone for DhtNodeId {
        #[verifier::external_body]
        fn clone(&self) -> (r: Self) ensures r == *self { unimplemented!() }
    }
    /// std::time::Duration (opaque here: only the collusion heuristic reads latencies)
    #[verifier::external_body]
    pub struct Duration { _p: u64 }
}
pub use verif_cgv_std::*;
// ASSUMED std specifications (documented behaviour)
pub assume_specification<T: PartialEq> [<[T]>::contains] (s: &[T], x: &T) -> (r: bool);
pub assume_specification<T, F: FnOnce(T) -> bool> [Option::<T>::is_some_and] (o: Option<T>, f: F) -> (r: bool)
    requires o.is_some() ==> call_requires(f, (o.unwrap(),)),
    ensures o.is_none() ==> !r, o.is_some() ==> call_ensures(f, (o.unwrap(),), r);
broadcast use verif_float::group_float;

pub struct CloseGroupResponse {
    pub confirms_membership: bool,
    pub peer_trust_score: Option<f64>,
    pub peer_region: Option<String>,
    pub response_latency: Duration,
}
pub struct CloseGroupValidationResult {
    pub node_id: DhtNodeId,
    pub is_valid: bool,
    pub confirmation_ratio: f64,
    pub weighted_confirmation: f64,
    pub confirming_regions: usize,
    pub failure_reasons: Vec<CloseGroupFailure>,
    pub used_bft_consensus: bool,
}
pub struct CloseGroupValidatorConfig {
    pub min_peers_to_query: usize,
    pub trust_weighted_threshold: f64,
    pub bft_threshold: f64,
    pub min_witness_trust: f64,
    pub min_regions: usize,
}
pub struct CloseGroupValidator {
    pub config: CloseGroupValidatorConfig,
    /// stands for the AtomicBool `attack_mode` (read with Ordering::Relaxed)
    pub attack_mode: Ghost<bool>,
}
impl PartialEq for CloseGroupFailure {
    #[verifier::external_body]
    fn eq(&self, other: &CloseGroupFailure) -> (r: bool) ensures r == (*self == *other) { unimplemented!() }
}

pub type Rs = Seq<CloseGroupResponse>;

// ---- the property's vocabulary ------------------------------------------------------------------
/// weight of a witness in normal mode: its trust, 0.5 when unknown
pub open spec fn weight_of(r: CloseGroupResponse) -> f64 {
    match r.peer_trust_score { Some(t) => t, None => 0.5f64 }
}
/// "sufficiently trusted witness": trust known and >= min_witness_trust (unknown counts as 0.0)
pub open spec fn trusted(r: CloseGroupResponse, min_trust: f64) -> bool {
    f_ge(match r.peer_trust_score { Some(t) => t, None => 0.0f64 }, min_trust)
}
pub open spec fn total_w(rs: Rs, n: int) -> f64 decreases n {
    if n <= 0 { 0.0f64 } else { f_add(total_w(rs, n - 1), weight_of(rs[n - 1])) }
}
pub open spec fn conf_w(rs: Rs, n: int) -> f64 decreases n {
    if n <= 0 { 0.0f64 } else if rs[n - 1].confirms_membership { f_add(conf_w(rs, n - 1), weight_of(rs[n - 1])) } else { conf_w(rs, n - 1) }
}
pub open spec fn conf_n(rs: Rs, n: int) -> int decreases n {
    if n <= 0 { 0 } else { conf_n(rs, n - 1) + if rs[n - 1].confirms_membership { 1int } else { 0int } }
}
/// confirming share of witness trust (normal mode)
pub open spec fn share(rs: Rs) -> f64 {
    if f_gt(total_w(rs, rs.len() as int), 0.0f64) { f_div(conf_w(rs, rs.len() as int), total_w(rs, rs.len() as int)) } else { 0.0f64 }
}
/// the trusted witnesses, in order (BFT mode)
pub open spec fn trusted_of(rs: Rs, min_trust: f64) -> Rs {
    rs.filter(|r: CloseGroupResponse| trusted(r, min_trust))
}
pub open spec fn confirming_of(rs: Rs) -> Rs {
    rs.filter(|r: CloseGroupResponse| r.confirms_membership)
}
/// fraction of the trusted witnesses that confirm, as the code computes it
pub open spec fn bft_ratio(rs: Rs, min_trust: f64) -> f64 {
    f_div(f_of_nat(confirming_of(trusted_of(rs, min_trust)).len()), f_of_nat(trusted_of(rs, min_trust).len()))
}
/// number of distinct known regions among the confirming witnesses
pub open spec fn confirming_regions(rs: Rs) -> nat {
    confirming_of(rs).filter(|r: CloseGroupResponse| r.peer_region.is_some()).map_values(|r: CloseGroupResponse| r.peer_region.unwrap()).to_set().len()
}
/// the collusion flag of detect_collusion_indicators over the given (trusted) witnesses: a function of
/// their response latencies only (the function reads nothing else; ASSUMED with its contract)
pub uninterp spec fn collusion_of(latencies: Seq<Duration>) -> bool;
pub open spec fn lat_seq(rs: Rs) -> Seq<Duration> { rs.map_values(|r: CloseGroupResponse| r.response_latency) }
pub open spec fn collusion_flag(rs: Rs) -> bool { collusion_of(lat_seq(rs)) }

impl CloseGroupValidator {
    // ASSUMED: reads the AtomicBool
    #[verifier::external_body]
    pub fn is_attack_mode(&self) -> (r: bool) ensures r == self.attack_mode@ { unimplemented!() }

    // ASSUMED contract (body: filter/filter_map/collect::<HashSet<_>>().len(), outside the dialect)
    #[verifier::external_body]
    fn count_confirming_regions(&self, responses: &[CloseGroupResponse]) -> (r: usize)
        ensures r == confirming_regions(responses@)
    { unimplemented!() }

    // ASSUMED here; PROVED on the real function by Kani (c15_collusion_contract_*, bounded)
    #[verifier::external_body]
    fn detect_collusion_indicators(&self, responses: &Vec<&CloseGroupResponse>) -> (r: bool)
        ensures r == collusion_flag(responses@.map_values(|x: &CloseGroupResponse| *x)),
                responses@.len() < 3 ==> !r,
    { unimplemented!() }
}

/// BFT acceptance, from the statement: enough sufficiently trusted witnesses answered, at least the
/// configured fraction of them confirm, no collusion flag, confirmations span the required regions.
pub open spec fn bft_accepts(v: &CloseGroupValidator, rs: Rs) -> bool {
    let t = trusted_of(rs, v.config.min_witness_trust);
    &&& t.len() >= v.config.min_peers_to_query
    &&& f_ge(bft_ratio(rs, v.config.min_witness_trust), v.config.bft_threshold)
    &&& !collusion_flag(t)
    &&& confirming_regions(rs) >= v.config.min_regions
}
/// normal-mode acceptance: the confirming share of witness trust reaches the threshold
pub open spec fn normal_accepts(v: &CloseGroupValidator, rs: Rs) -> bool {
    f_ge(share(rs), v.config.trust_weighted_threshold)
}
/// the gates in front of both modes
pub open spec fn gates_pass(v: &CloseGroupValidator, rs: Rs, node_trust: Option<f64>) -> bool {
    &&& rs.len() >= v.config.min_peers_to_query
    &&& !(node_trust matches Some(t) && f_lt(t, v.config.min_witness_trust))
}

// ---- shims for the two iterator chains of validate_bft -------------------------------------------
// `xs.iter().filter(p).collect()` and `xs.iter().filter(p).count()`: the extraction renames the chains
// to these shims (bodies ARE the std chains); contract = documented std behaviour (elements for
// which the predicate returns true, in order / their number). The closure stays visible to the
// verifier: its `ensures` is proved against its verbatim body and must agree with the ghost predicate.
#[verifier::external_body]
pub fn verif_filter_collect<'a, P: Fn(&&'a CloseGroupResponse) -> bool>(s: &'a [CloseGroupResponse], p: P, Ghost(f): Ghost<spec_fn(CloseGroupResponse) -> bool>) -> (r: Vec<&'a CloseGroupResponse>)
    requires
        forall|x: &&CloseGroupResponse| #[trigger] call_requires(p, (x,)),
        forall|x: &&CloseGroupResponse, b: bool| #[trigger] call_ensures(p, (x,), b) ==> b == f(**x),
    ensures r@.map_values(|x: &CloseGroupResponse| *x) == s@.filter(f),
{
    s.iter().filter(p).collect()
}
#[verifier::external_body]
pub fn verif_filter_count<'a, P: Fn(&&&'a CloseGroupResponse) -> bool>(s: &Vec<&'a CloseGroupResponse>, p: P, Ghost(f): Ghost<spec_fn(CloseGroupResponse) -> bool>) -> (r: usize)
    requires
        forall|x: &&&CloseGroupResponse| #[trigger] call_requires(p, (x,)),
        forall|x: &&&CloseGroupResponse, b: bool| #[trigger] call_ensures(p, (x,), b) ==> b == f(***x),
    ensures r == s@.map_values(|x: &CloseGroupResponse| *x).filter(f).len(),
{
    s.iter().filter(p).count()
}

// ---- lemmas over the contracts (the clauses of the statement that need arithmetic) ----------------

/// "with 3f+1 trusted witnesses, f of them answering arbitrarily cannot get a claim accepted that all
/// the others deny": at most f of the 3f+1 trusted witnesses confirm => BFT mode does not accept
/// (for every quorum threshold of at least one half; the default is 0.71).
proof fn lemma_f_liars_cannot_force_acceptance(v: &CloseGroupValidator, rs: Rs, f: nat)
    requires
        trusted_of(rs, v.config.min_witness_trust).len() == 3 * f + 1,
        confirming_of(trusted_of(rs, v.config.min_witness_trust)).len() <= f,
        f_le(0.5f64, v.config.bft_threshold),
        3 * f + 1 <= 0xffff_ffff,
    ensures
        !bft_accepts(v, rs), // @C15/bft/f_liars_of_3f_plus_1_cannot_force_acceptance
{
    let c = confirming_of(trusted_of(rs, v.config.min_witness_trust)).len();
    let n = trusted_of(rs, v.config.min_witness_trust).len();
    let ratio = bft_ratio(rs, v.config.min_witness_trust);
    axiom_f_below_third_is_below_half(c, n);
    axiom_f_order(ratio, 0.5f64, v.config.bft_threshold);
    axiom_f_order(0.5f64, v.config.bft_threshold, ratio);
}

/// every witness weight is in [0, 1] (trust in [0,1], or unknown = 0.5): the property's domain
pub open spec fn unit_weights(rs: Rs) -> bool {
    forall|i: int| 0 <= i < rs.len() ==> is_unit(weight_of(#[trigger] rs[i]))
}
/// rs2 is rs with the confirmation of witness k turned into a denial (nothing else changes)
pub open spec fn withdrawn_at(rs: Rs, rs2: Rs, k: int) -> bool {
    &&& rs.len() == rs2.len() && 0 <= k < rs.len()
    &&& rs[k].confirms_membership && !rs2[k].confirms_membership
    &&& forall|i: int| 0 <= i < rs.len() ==> (#[trigger] rs2[i]).peer_trust_score == rs[i].peer_trust_score
            && rs2[i].peer_region == rs[i].peer_region && rs2[i].response_latency == rs[i].response_latency
    &&& forall|i: int| 0 <= i < rs.len() && i != k ==> (#[trigger] rs2[i]).confirms_membership == rs[i].confirms_membership
}
proof fn lemma_sums(rs: Rs, n: int)
    requires unit_weights(rs), 0 <= n <= rs.len(),
    ensures nn_fin(total_w(rs, n)), nn_fin(conf_w(rs, n)), f_le(conf_w(rs, n), total_w(rs, n)),
    decreases n
{
    axiom_f_literals();
    if n > 0 {
        lemma_sums(rs, n - 1);
        let w = weight_of(rs[n - 1]);
        axiom_f_order(0.0f64, total_w(rs, n - 1), total_w(rs, n - 1));
        axiom_f_add_monotone(conf_w(rs, n - 1), total_w(rs, n - 1), w);
        axiom_f_add_monotone(total_w(rs, n - 1), total_w(rs, n - 1), w);
        axiom_f_order(conf_w(rs, n - 1), total_w(rs, n - 1), total_w(rs, n));
    } else {
        axiom_f_order(0.0f64, 0.0f64, 0.0f64);
    }
}
proof fn lemma_withdraw_sums(rs: Rs, rs2: Rs, k: int, n: int)
    requires unit_weights(rs), withdrawn_at(rs, rs2, k), 0 <= n <= rs.len(),
    ensures total_w(rs2, n) == total_w(rs, n), f_le(conf_w(rs2, n), conf_w(rs, n)), nn_fin(conf_w(rs2, n)), nn_fin(conf_w(rs, n)),
    decreases n
{
    axiom_f_literals();
    assert(unit_weights(rs2)) by {
        assert forall|i: int| 0 <= i < rs2.len() implies is_unit(weight_of(#[trigger] rs2[i])) by { assert(rs2[i].peer_trust_score == rs[i].peer_trust_score); assert(is_unit(weight_of(rs[i]))); }
    }
    lemma_sums(rs, n);
    lemma_sums(rs2, n);
    if n > 0 {
        lemma_withdraw_sums(rs, rs2, k, n - 1);
        lemma_sums(rs, n - 1);
        lemma_sums(rs2, n - 1);
        let w = weight_of(rs[n - 1]);
        assert(weight_of(rs2[n - 1]) == w);
        if n - 1 == k {
            axiom_f_order(0.0f64, conf_w(rs, n - 1), conf_w(rs, n - 1));
            axiom_f_add_monotone(conf_w(rs, n - 1), conf_w(rs, n - 1), w);
            axiom_f_order(conf_w(rs2, n - 1), conf_w(rs, n - 1), conf_w(rs, n));
        } else if rs[n - 1].confirms_membership {
            axiom_f_add_monotone(conf_w(rs2, n - 1), conf_w(rs, n - 1), w);
        }
    } else {
        axiom_f_order(0.0f64, 0.0f64, 0.0f64);
    }
}
/// Normal mode: "turning a confirmation into a denial never turns a rejection into an acceptance".
proof fn lemma_normal_mode_withdrawal_never_creates_acceptance(v: &CloseGroupValidator, rs: Rs, rs2: Rs, k: int)
    requires unit_weights(rs), withdrawn_at(rs, rs2, k),
    ensures normal_accepts(v, rs2) ==> normal_accepts(v, rs), // @C15/normal/withdrawing_a_confirmation_never_creates_acceptance
{
    let n = rs.len() as int;
    lemma_withdraw_sums(rs, rs2, k, n);
    lemma_sums(rs, n);
    let t = total_w(rs, n);
    if f_gt(t, 0.0f64) {
        axiom_f_div_monotone(conf_w(rs2, n), conf_w(rs, n), t);
        axiom_f_order(v.config.trust_weighted_threshold, share(rs2), share(rs));
    }
}
/// Normal mode: a unanimous confirmation by witnesses of positive weight is accepted (threshold <= 1).
proof fn lemma_normal_mode_unanimous_confirmation_is_accepted(v: &CloseGroupValidator, rs: Rs)
    requires
        unit_weights(rs), rs.len() >= 1,
        forall|i: int| 0 <= i < rs.len() ==> (#[trigger] rs[i]).confirms_membership && f_lt(0.0f64, weight_of(rs[i])),
        f_le(v.config.trust_weighted_threshold, 1.0f64),
    ensures normal_accepts(v, rs), // @C15/normal/unanimous_confirmation_by_weighted_witnesses_is_accepted
{
    let n = rs.len() as int;
    lemma_all_confirm(rs, n);
    lemma_sums(rs, n);
    axiom_f_div_self(total_w(rs, n));
    axiom_f_order(v.config.trust_weighted_threshold, 1.0f64, share(rs));
}
proof fn lemma_all_confirm(rs: Rs, n: int)
    requires unit_weights(rs), 0 <= n <= rs.len(),
        forall|i: int| 0 <= i < rs.len() ==> (#[trigger] rs[i]).confirms_membership && f_lt(0.0f64, weight_of(rs[i])),
    ensures conf_w(rs, n) == total_w(rs, n), n >= 1 ==> f_lt(0.0f64, total_w(rs, n)),
    decreases n
{
    if n > 0 {
        lemma_all_confirm(rs, n - 1);
        lemma_sums(rs, n - 1);
        axiom_f_order(0.0f64, total_w(rs, n - 1), total_w(rs, n - 1));
        axiom_f_add_monotone(total_w(rs, n - 1), total_w(rs, n - 1), weight_of(rs[n - 1]));
    }
}

// ---- BFT mode: withdrawal and unanimity (relational lemmas over the filters) ---------------------
proof fn lemma_filter_step<A>(s: Seq<A>, f: spec_fn(A) -> bool)
    requires s.len() > 0,
    ensures s.filter(f) == (if f(s.last()) { s.drop_last().filter(f).push(s.last()) } else { s.drop_last().filter(f) }),
{
    reveal(Seq::filter);
}
proof fn lemma_filter_empty<A>(s: Seq<A>, f: spec_fn(A) -> bool)
    requires s.len() == 0,
    ensures s.filter(f).len() == 0,
{
    reveal(Seq::filter);
}
proof fn lemma_filter_sub<A>(s: Seq<A>, f: spec_fn(A) -> bool, i: int) -> (j: int)
    requires 0 <= i < s.filter(f).len(),
    ensures f(s.filter(f)[i]), 0 <= j < s.len(), s[j] == s.filter(f)[i],
    decreases s.len()
{
    if s.len() == 0 {
        lemma_filter_empty(s, f);
        0
    } else {
        lemma_filter_step(s, f);
        let p = s.drop_last();
        if f(s.last()) && i == p.filter(f).len() {
            (s.len() - 1) as int
        } else {
            let j = lemma_filter_sub(p, f, i);
            assert(p[j] == s[j]);
            j
        }
    }
}
proof fn lemma_filter_sup<A>(s: Seq<A>, f: spec_fn(A) -> bool, j: int) -> (i: int)
    requires 0 <= j < s.len(), f(s[j]),
    ensures 0 <= i < s.filter(f).len(), s.filter(f)[i] == s[j],
    decreases s.len()
{
    lemma_filter_step(s, f);
    let p = s.drop_last();
    if j == s.len() - 1 {
        p.filter(f).len() as int
    } else {
        assert(p[j] == s[j]);
        let i = lemma_filter_sup(p, f, j);
        i
    }
}
/// b is a with some confirmations withdrawn (trust, region, latency of every witness unchanged)
pub open spec fn withdrawn(a: Rs, b: Rs) -> bool {
    &&& a.len() == b.len()
    &&& forall|i: int| 0 <= i < a.len() ==> (#[trigger] b[i]).peer_trust_score == a[i].peer_trust_score && b[i].peer_region == a[i].peer_region
            && b[i].response_latency == a[i].response_latency && (b[i].confirms_membership ==> a[i].confirms_membership)
}
proof fn lemma_withdrawn_drop_last(a: Rs, b: Rs)
    requires withdrawn(a, b), a.len() > 0,
    ensures withdrawn(a.drop_last(), b.drop_last()),
{
    assert forall|i: int| 0 <= i < a.drop_last().len() implies (#[trigger] b.drop_last()[i]).peer_trust_score == a.drop_last()[i].peer_trust_score
        && b.drop_last()[i].peer_region == a.drop_last()[i].peer_region && b.drop_last()[i].response_latency == a.drop_last()[i].response_latency
        && (b.drop_last()[i].confirms_membership ==> a.drop_last()[i].confirms_membership) by {
        assert(b.drop_last()[i] == b[i] && a.drop_last()[i] == a[i]);
    }
}
proof fn lemma_withdrawn_push(a: Rs, b: Rs, x: CloseGroupResponse, y: CloseGroupResponse)
    requires withdrawn(a, b), y.peer_trust_score == x.peer_trust_score, y.peer_region == x.peer_region, y.response_latency == x.response_latency,
        y.confirms_membership ==> x.confirms_membership,
    ensures withdrawn(a.push(x), b.push(y)),
{
    assert forall|i: int| 0 <= i < a.push(x).len() implies (#[trigger] b.push(y)[i]).peer_trust_score == a.push(x)[i].peer_trust_score
        && b.push(y)[i].peer_region == a.push(x)[i].peer_region && b.push(y)[i].response_latency == a.push(x)[i].response_latency
        && (b.push(y)[i].confirms_membership ==> a.push(x)[i].confirms_membership) by {
        if i < a.len() { assert(b.push(y)[i] == b[i] && a.push(x)[i] == a[i]); }
    }
}
/// the trusted witnesses of b are those of a, with some confirmations withdrawn
proof fn lemma_trusted_withdrawn(a: Rs, b: Rs, mt: f64)
    requires withdrawn(a, b),
    ensures withdrawn(trusted_of(a, mt), trusted_of(b, mt)),
    decreases a.len()
{
    let f = |r: CloseGroupResponse| trusted(r, mt);
    if a.len() == 0 {
        lemma_filter_empty(a, f);
        lemma_filter_empty(b, f);
    } else {
        lemma_withdrawn_drop_last(a, b);
        lemma_trusted_withdrawn(a.drop_last(), b.drop_last(), mt);
        lemma_filter_step(a, f);
        lemma_filter_step(b, f);
        assert(b.last() == b[b.len() - 1] && a.last() == a[a.len() - 1]);
        assert(trusted(a.last(), mt) == trusted(b.last(), mt));
        if trusted(a.last(), mt) {
            lemma_withdrawn_push(trusted_of(a.drop_last(), mt), trusted_of(b.drop_last(), mt), a.last(), b.last());
        }
    }
}
proof fn lemma_confirming_len(a: Rs, b: Rs)
    requires withdrawn(a, b),
    ensures confirming_of(b).len() <= confirming_of(a).len(),
    decreases a.len()
{
    let f = |r: CloseGroupResponse| r.confirms_membership;
    if a.len() == 0 {
        lemma_filter_empty(a, f);
        lemma_filter_empty(b, f);
    } else {
        lemma_withdrawn_drop_last(a, b);
        lemma_confirming_len(a.drop_last(), b.drop_last());
        lemma_filter_step(a, f);
        lemma_filter_step(b, f);
        assert(b.last() == b[b.len() - 1] && a.last() == a[a.len() - 1]);
    }
}
proof fn lemma_lat_seq(a: Rs, b: Rs)
    requires withdrawn(a, b),
    ensures lat_seq(a) == lat_seq(b),
{
    assert(lat_seq(a) =~= lat_seq(b)) by {
        assert forall|i: int| 0 <= i < a.len() implies lat_seq(a)[i] == lat_seq(b)[i] by { assert(b[i].response_latency == a[i].response_latency); }
    }
}
/// the known regions of the confirming witnesses, as a set
pub open spec fn region_set(rs: Rs) -> Set<String> {
    confirming_of(rs).filter(|r: CloseGroupResponse| r.peer_region.is_some()).map_values(|r: CloseGroupResponse| r.peer_region.unwrap()).to_set()
}
proof fn lemma_region_member(rs: Rs, g: String)
    ensures region_set(rs).contains(g) <==> exists|i: int| 0 <= i < rs.len() && (#[trigger] rs[i]).confirms_membership && rs[i].peer_region == Some(g),
{
    let f1 = |r: CloseGroupResponse| r.confirms_membership;
    let f2 = |r: CloseGroupResponse| r.peer_region.is_some();
    let c = rs.filter(f1);
    let d = c.filter(f2);
    let m = d.map_values(|r: CloseGroupResponse| r.peer_region.unwrap());
    if region_set(rs).contains(g) {
        assert(m.contains(g));
        let j = choose|j: int| 0 <= j < m.len() && m[j] == g;
        let k = lemma_filter_sub(c, f2, j);
        let i = lemma_filter_sub(rs, f1, k);
        assert(rs[i].confirms_membership && rs[i].peer_region == Some(g));
    }
    if exists|i: int| 0 <= i < rs.len() && (#[trigger] rs[i]).confirms_membership && rs[i].peer_region == Some(g) {
        let i = choose|i: int| 0 <= i < rs.len() && (#[trigger] rs[i]).confirms_membership && rs[i].peer_region == Some(g);
        let k = lemma_filter_sup(rs, f1, i);
        let j = lemma_filter_sup(c, f2, k);
        assert(m[j] == g);
        assert(m.contains(g));
    }
}
proof fn lemma_regions_withdrawn(a: Rs, b: Rs)
    requires withdrawn(a, b),
    ensures confirming_regions(b) <= confirming_regions(a),
{
    assert(region_set(b).subset_of(region_set(a))) by {
        assert forall|g: String| region_set(b).contains(g) implies region_set(a).contains(g) by {
            lemma_region_member(b, g);
            lemma_region_member(a, g);
            let i = choose|i: int| 0 <= i < b.len() && (#[trigger] b[i]).confirms_membership && b[i].peer_region == Some(g);
            assert(a[i].confirms_membership && a[i].peer_region == Some(g));
        }
    }
    let ma = confirming_of(a).filter(|r: CloseGroupResponse| r.peer_region.is_some()).map_values(|r: CloseGroupResponse| r.peer_region.unwrap());
    vstd::set_lib::lemma_len_subset(region_set(b), region_set(a));
}
/// BFT mode: "turning a confirmation into a denial never turns a rejection into an acceptance".
proof fn lemma_bft_withdrawal_never_creates_acceptance(v: &CloseGroupValidator, a: Rs, b: Rs)
    requires withdrawn(a, b), a.len() <= u64::MAX,
    ensures bft_accepts(v, b) ==> bft_accepts(v, a), // @C15/bft/withdrawing_a_confirmation_never_creates_acceptance
{
    let mt = v.config.min_witness_trust;
    lemma_trusted_withdrawn(a, b, mt);
    let ta = trusted_of(a, mt);
    let tb = trusted_of(b, mt);
    lemma_confirming_len(ta, tb);
    lemma_lat_seq(ta, tb);
    lemma_regions_withdrawn(a, b);
    broadcast use vstd::seq_lib::group_filter_ensures;
    let n = ta.len();
    let ca = confirming_of(ta).len();
    let cb = confirming_of(tb).len();
    assert(n <= a.len());
    assert(ca <= n);
    if bft_accepts(v, b) {
        assert(n >= 1 || v.config.min_peers_to_query == 0);
        axiom_f_of_nat(cb, ca);
        axiom_f_of_nat(ca, ca);
        axiom_f_of_nat(n, n);
        if n >= 1 {
            axiom_f_div_monotone(f_of_nat(cb), f_of_nat(ca), f_of_nat(n));
            axiom_f_order(v.config.bft_threshold, bft_ratio(b, mt), bft_ratio(a, mt));
        } else {
            assert(cb == 0 && ca == 0);
        }
    }
}

proof fn lemma_filter_all<A>(s: Seq<A>, f: spec_fn(A) -> bool)
    requires forall|i: int| 0 <= i < s.len() ==> f(#[trigger] s[i]),
    ensures s.filter(f) == s,
    decreases s.len()
{
    if s.len() == 0 {
        lemma_filter_empty(s, f);
        assert(s.filter(f) =~= s);
    } else {
        let p = s.drop_last();
        assert forall|i: int| 0 <= i < p.len() implies f(#[trigger] p[i]) by { assert(p[i] == s[i]); }
        lemma_filter_all(p, f);
        lemma_filter_step(s, f);
        assert(f(s[s.len() - 1]));
        assert(p.push(s.last()) =~= s);
    }
}
/// BFT mode: "a unanimous confirmation ... by enough trusted, regionally spread witnesses with distinct
/// response times is always accepted" (distinct response times = the collusion heuristic raises no flag;
/// quorum threshold at most 1).
proof fn lemma_bft_unanimous_confirmation_is_accepted(v: &CloseGroupValidator, rs: Rs)
    requires
        forall|i: int| 0 <= i < rs.len() ==> trusted(#[trigger] rs[i], v.config.min_witness_trust) && rs[i].confirms_membership,
        rs.len() >= 1, rs.len() >= v.config.min_peers_to_query, rs.len() <= u64::MAX,
        confirming_regions(rs) >= v.config.min_regions,
        !collusion_flag(rs),
        f_le(v.config.bft_threshold, 1.0f64),
    ensures bft_accepts(v, rs), // @C15/bft/unanimous_confirmation_by_trusted_spread_witnesses_is_accepted
{
    let mt = v.config.min_witness_trust;
    lemma_filter_all(rs, |r: CloseGroupResponse| trusted(r, mt));
    lemma_filter_all(rs, |r: CloseGroupResponse| r.confirms_membership);
    let n = rs.len();
    axiom_f_of_nat(n, n);
    axiom_f_div_self(f_of_nat(n));
    axiom_f_order(v.config.bft_threshold, 1.0f64, bft_ratio(rs, mt));
}
