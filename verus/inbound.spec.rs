// Spec side of unit `inbound` (C05): specification only.
//
// ASSUMED dependency contract: postcard::from_bytes is a total function from byte strings to
// "some value or an error" (that the decoder itself returns normally for every input is NOT
// verified here); postcard::to_stdvec returns some byte string or an error. The shim of
// from_bytes carries, as a PRECONDITION, the size limit that must have been enforced before the
// decoder is entered -- so "refused before decoding" is a proof obligation at every call site.

pub mod verif_std {
    use vstd::prelude::*;
    /// Error values: payloads are dropped by the extraction.
    pub struct VerifError {}
    pub type PeerId = String;

    // ---- shims (field names + type text checked against /repo on every run) ----
    pub struct WireMessage {
        pub protocol: String,
        pub data: Vec<u8>,
        pub from: String,
        pub timestamp: u64,
    }
    pub struct DhtRecord {}
    pub struct DhtNetworkManager {}
    pub struct TransportHandle {}
    pub struct RequestResponseEnvelope {
        pub message_id: String,
        pub is_response: bool,
        pub payload: Vec<u8>,
    }

    /// Largest input the decoder may be entered with, per decoded type.
    pub uninterp spec fn decode_limit<T>() -> nat;
    pub uninterp spec fn decode_unlimited<T>() -> bool;
    /// What the decoder yields for a byte string (None = decode error).
    pub uninterp spec fn decoded<T>(bytes: Seq<u8>) -> Option<T>;
    /// What the encoder yields for a value.
    pub uninterp spec fn encoded<T>(v: &T) -> Option<Seq<u8>>;

    /// Limits that must hold when a decoder is entered: records 512 bytes (the property's limit).
    /// Framed messages are bounded upstream by the 64 KiB check of the async dispatcher, which this
    /// unit does not reach, so no bound is demanded at this layer.
    #[verifier::external_body]
    pub broadcast proof fn axiom_decode_limit_record()
        ensures #[trigger] decode_limit::<DhtRecord>() == 512, !decode_unlimited::<DhtRecord>(),
    {}
    #[verifier::external_body]
    pub broadcast proof fn axiom_decode_limit_frame()
        ensures #[trigger] decode_unlimited::<WireMessage>(),
    {}
    #[verifier::external_body]
    pub broadcast proof fn axiom_decode_limit_envelope()
        ensures #[trigger] decode_unlimited::<RequestResponseEnvelope>(),
    {}

    pub mod postcard {
        use vstd::prelude::*;
        use super::*;
        pub struct PostcardError {}
        #[verifier::external_body]
        pub fn from_bytes<T>(bytes: &[u8]) -> (r: core::result::Result<T, PostcardError>)
            requires decode_unlimited::<T>() || bytes@.len() <= decode_limit::<T>(), // @C05/decoder/oversized_input_is_refused_before_decoding
            ensures r.is_ok() == decoded::<T>(bytes@).is_some(),
                    r matches Ok(v) ==> v == decoded::<T>(bytes@).unwrap(),
        { unimplemented!() }
        #[verifier::external_body]
        pub fn to_stdvec<T>(v: &T) -> (r: core::result::Result<Vec<u8>, PostcardError>)
            ensures r.is_ok() == encoded::<T>(v).is_some(),
                    r matches Ok(b) ==> b@ == encoded::<T>(v).unwrap(),
        { unimplemented!() }
    }

    /// Wall clock in seconds (ASSUMED < 2^62: `now + 30` does not overflow).
    pub uninterp spec fn clock_reading() -> u64;
    #[verifier::external_body]
    pub fn verif_clock_secs() -> (r: u64) ensures r == clock_reading(), r < 0x4000_0000_0000_0000 { unimplemented!() }

    // std integer helpers a refactoring of the window check may reach for (exact std semantics)
    pub assume_specification [u64::abs_diff] (a: u64, b: u64) -> (r: u64)
        ensures r as int == (if a >= b { a as int - b as int } else { b as int - a as int });

    // ---- the property as spec functions ----
    /// "its timestamp lies within the accepted window (5 minutes back, 30 seconds ahead)"
    pub open spec fn in_window(ts: u64, now: u64) -> bool {
        now as int - 300 <= ts as int <= now as int + 30
    }
}
pub use verif_std::*;
pub type Result<T> = core::result::Result<T, VerifError>;
pub type P2pResult<T> = core::result::Result<T, VerifError>;
broadcast use {verif_std::axiom_decode_limit_record, verif_std::axiom_decode_limit_frame, verif_std::axiom_decode_limit_envelope};
