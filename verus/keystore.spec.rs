// Spec side of unit `keystore` (C18, password gating of the encrypted key store): specification only.
//
// EncryptedKeyStorageManager::{initialize, store_master_seed, retrieve_master_seed, change_password, clear_cache}
// are `async fn`s whose awaits are calls of the manager's own async helpers (load_and_decrypt, encrypt_and_store,
// get_current_salt -- file IO + Argon2 + AEAD, no suspension the contract depends on) and whose shared state is the
// in-memory seed cache behind a std RwLock. They are verified AWAIT-ERASED (DESIGN 0.2): the body is copied
// verbatim; `self.key_cache.{read,write}()` becomes the parameter `key_cache_g` that stands for the guarded
// map, the store file becomes the abstract parameter `file_g`, each awaited helper becomes a plain call of a
// function with an ASSUMED contract (below), statistics bookkeeping is dropped (echoed in the evidence).
//
// ASSUMED (ideal cryptography / file system, listed in the evidence):
//   * the store file has exactly one password that opens it (`pw_of`) and holds one seed table (`seeds_of`):
//     load_and_decrypt succeeds only under that password and then returns that table (ChaCha20-Poly1305 under
//     an Argon2id key: authenticated decryption fails under any other key; Argon2id injective on passwords);
//   * encrypt_and_store either replaces the file by one that opens with the given password and holds the given
//     table, or fails and leaves the file as it was (write to .tmp + rename);
//   * cache_key (keyed BLAKE3 of the password, hex, ':' seed id) is injective in (password, seed id) for a
//     fixed per-process key (text of the function pinned by hash);
//   * sequential use: no other task touches the file or the cache during one call; locks are not poisoned.

pub mod verif_keystore_std {
    use vstd::prelude::*;
    use std::collections::HashMap;
    pub struct VerifError {}
    pub type Result<T> = core::result::Result<T, VerifError>;

    /// secure_memory::SecureString / SecureMemory, key_derivation::MasterSeed: opaque byte containers
    #[verifier::external_body]
    pub struct SecureString { _p: u8 }
    impl SecureString {
        pub uninterp spec fn view(&self) -> Seq<u8>;
    }
    #[verifier::external_body]
    pub struct SecureMemory { _p: u8 }
    impl SecureMemory {
        pub uninterp spec fn view(&self) -> Seq<u8>;
        #[verifier::external_body]
        pub fn from_slice(s: &[u8]) -> (r: Result<SecureMemory>)
            ensures r matches Ok(m) ==> m@ == s@,
        { unimplemented!() }
        #[verifier::external_body]
        pub fn as_slice(&self) -> (r: &[u8])
            ensures r@ == self@,
        { unimplemented!() }
    }
    #[verifier::external_body]
    pub struct MasterSeed { _p: u8 }
    impl MasterSeed {
        pub uninterp spec fn view(&self) -> Seq<u8>;
        #[verifier::external_body]
        pub fn from_entropy(s: &[u8]) -> (r: Result<MasterSeed>)
            ensures r matches Ok(m) ==> m@ == s@,
        { unimplemented!() }
        #[verifier::external_body]
        pub fn seed_material(&self) -> (r: &[u8])
            ensures r@ == self@,
        { unimplemented!() }
    }

    /// `s.to_string()` for `s: &str` and the key a `&str` denotes in a HashMap<String, _>
    pub uninterp spec fn str_key(s: &str) -> String;
    #[verifier::external_body]
    pub fn verif_str_to_string(s: &str) -> (r: String)
        ensures r == str_key(s),
    { unimplemented!() }
    /// `map.get(k)` with `k: &str` on HashMap<String, Vec<u8>> (std: Borrow<str>)
    #[verifier::external_body]
    pub fn verif_get_str<'a, V>(m: &'a HashMap<String, V>, k: &str) -> (r: Option<&'a V>)
        ensures r.is_some() == m@.contains_key(str_key(k)), r matches Some(v) ==> *v == m@[str_key(k)],
    { unimplemented!() }
    /// `opt.ok_or_else(|| err)`
    #[verifier::external_body]
    pub fn verif_ok_or<T>(o: Option<T>) -> (r: Result<T>)
        ensures r.is_ok() == o.is_some(), r matches Ok(v) ==> v == o.unwrap(),
    { unimplemented!() }
    /// `slice.to_vec()`
    #[verifier::external_body]
    pub fn verif_to_vec(s: &[u8]) -> (r: Vec<u8>)
        ensures r@ == s@,
    { unimplemented!() }
    /// HashMap<String, V> get / insert / clear as a finite map (std docs)
    #[verifier::external_body]
    pub fn verif_get<'a, V>(m: &'a HashMap<String, V>, k: &String) -> (r: Option<&'a V>)
        ensures r.is_some() == m@.contains_key(*k), r.is_some() ==> *r.unwrap() == m@[*k],
    { unimplemented!() }
    #[verifier::external_body]
    pub fn verif_insert<V>(m: &mut HashMap<String, V>, k: String, v: V)
        ensures final(m)@ == old(m)@.insert(k, v),
    { unimplemented!() }
    #[verifier::external_body]
    pub fn verif_clear<V>(m: &mut HashMap<String, V>)
        ensures final(m)@ == Map::<String, V>::empty(),
    { unimplemented!() }
    #[verifier::external_body]
    pub fn verif_new_map<V>() -> (r: HashMap<String, V>)
        ensures r@ == Map::<String, V>::empty(),
    { unimplemented!() }
    /// RngCore::fill_bytes(&mut thread_rng(), buf): some bytes
    #[verifier::external_body]
    pub fn verif_fill_random<const N: usize>(buf: &mut [u8; N]) { unimplemented!() }
    #[verifier::external_body]
    pub fn current_timestamp() -> u64 { unimplemented!() }
    /// cache key of (password, seed id) under the per-process binding key
    pub uninterp spec fn ck(key: [u8; 32], password: Seq<u8>, id: String) -> String;
}
pub use verif_keystore_std::*;
use std::collections::HashMap;

pub struct PasswordValidation {
    pub valid: bool,
}
#[verifier::external_body]
pub struct KeyMetadata { _p: u8 }
pub struct KeyStorageData {
    pub master_seeds: HashMap<String, Vec<u8>>,
    pub derived_keys: HashMap<String, Vec<u8>>,
    pub key_metadata: HashMap<String, KeyMetadata>,
    pub created_at: u64,
    pub last_accessed: u64,
}
pub struct EncryptedKeyStorageManager {
    pub cache_binding_key: [u8; 32],
}

/// The store file on disk (abstract): the one password that opens it and the seed table it holds.
#[verifier::external_body]
pub struct StoreFile { _p: u8 }
pub uninterp spec fn pw_of(f: StoreFile) -> Seq<u8>;
pub uninterp spec fn seeds_of(f: StoreFile) -> Map<String, Seq<u8>>;

/// seed table of a decrypted KeyStorageData
pub open spec fn table(m: Map<String, Vec<u8>>) -> Map<String, Seq<u8>> {
    Map::new(m.dom(), |k: String| m[k]@)
}


pub mod verif_keystore_ax {
    use vstd::prelude::*;
    use super::verif_keystore_std::ck;
    /// ASSUMED (ideal keyed hash, fixed-length hex tag followed by ':' and the id): injective
    #[verifier::external_body]
    pub broadcast proof fn axiom_ck_injective(key: [u8; 32], p1: Seq<u8>, i1: String, p2: Seq<u8>, i2: String)
        requires #[trigger] ck(key, p1, i1) == #[trigger] ck(key, p2, i2),
        ensures p1 == p2, i1 == i2,
    {}
}
broadcast use verif_keystore_ax::axiom_ck_injective;

/// CACHE BINDING: every cached entry is filed under the key of (the password that currently opens the store, some id).
pub open spec fn cache_bound(cache: Map<String, SecureMemory>, key: [u8; 32], f: StoreFile) -> bool {
    forall|k: String| #[trigger] cache.contains_key(k) ==> exists|id: String| k == #[trigger] ck(key, pw_of(f), id)
}
/// CACHE VALUES: an entry filed under (current password, id) is the seed the store holds under id.
pub open spec fn cache_vals(cache: Map<String, SecureMemory>, key: [u8; 32], f: StoreFile) -> bool {
    forall|id: String| #[trigger] cache.contains_key(ck(key, pw_of(f), id)) ==>
        seeds_of(f).contains_key(id) && cache[ck(key, pw_of(f), id)]@ == seeds_of(f)[id]
}

impl EncryptedKeyStorageManager {
    /// (pinned, contract assumed) keyed BLAKE3 tag of the password + ':' + seed id
    #[verifier::external_body]
    fn cache_key(&self, seed_id: &str, password: &SecureString) -> (r: Result<String>)
        ensures r matches Ok(k) ==> k == ck(self.cache_binding_key, password@, str_key(seed_id)),
    { unimplemented!() }

    /// (assumed) password strength check: no effect on the store
    #[verifier::external_body]
    pub fn validate_password(&self, password: &SecureString) -> (r: Result<PasswordValidation>)
    { unimplemented!() }

    /// (assumed: authenticated decryption under an Argon2id key) succeeds only under the password of the file
    #[verifier::external_body]
    fn load_and_decrypt(&self, f: &StoreFile, password: &SecureString) -> (r: Result<KeyStorageData>)
        ensures r matches Ok(d) ==> password@ == pw_of(*f) && table(d.master_seeds@) == seeds_of(*f),
    { unimplemented!() }

    /// (assumed: write to .tmp then rename) the file is replaced as a whole or not at all
    #[verifier::external_body]
    fn encrypt_and_store<const S: usize, const N: usize>(&self, f: &mut StoreFile, password: &SecureString, salt: &[u8; S], _nonce: &[u8; N], key_data: &KeyStorageData) -> (r: Result<()>)
        ensures
            r.is_ok() ==> pw_of(*final(f)) == password@ && seeds_of(*final(f)) == table(key_data.master_seeds@),
            r.is_err() ==> *final(f) == *old(f),
    { unimplemented!() }

    #[verifier::external_body]
    fn get_current_salt(&self, f: &StoreFile) -> (r: Result<[u8; 32]>)
    { unimplemented!() }

    #[verifier::external_body]
    fn generate_nonce(&self) -> (r: Result<[u8; 12]>)
    { unimplemented!() }
}
