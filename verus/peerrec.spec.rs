// Spec side of unit `peerrec` (C09): specification only.
//
// ASSUMED dependency contracts (ideal-crypto model; all listed in the evidence):
//   * ml_dsa_verify(pk, msg, sig) is a deterministic function `sig_valid` of exactly its three
//     arguments (nothing is claimed about ML-DSA itself -- that is C08, not applicable);
//   * BLAKE3 (blake3::Hasher) is injective on the concatenation of the bytes it is fed;
//   * UserId::from_public_key(pk) is a function `derive_id(pk)` of the key;
//   * postcard::to_stdvec is a deterministic, injective encoding of the endpoint list;
//   * to_be_bytes are the big-endian bytes (fixed length, injective); String::len / as_bytes.
// std::collections::HashMap is used through vstd's specifications.

pub mod verif_std {
    use vstd::prelude::*;

    /// Error values: payloads (message text, nested enums) are dropped by the extraction.
    pub struct VerifError {}

    // ---- integers as big-endian bytes ----
    pub uninterp spec fn be64(x: u64) -> Seq<u8>;
    pub uninterp spec fn be32(x: u32) -> Seq<u8>;
    #[verifier::external_body]
    pub broadcast proof fn axiom_be64(x: u64, y: u64)
        ensures #[trigger] be64(x).len() == 8, (#[trigger] be64(x) == #[trigger] be64(y)) ==> x == y,
    {}
    #[verifier::external_body]
    pub broadcast proof fn axiom_be32(x: u32, y: u32)
        ensures #[trigger] be32(x).len() == 4, (#[trigger] be32(x) == #[trigger] be32(y)) ==> x == y,
    {}
    // ASSUMED: to_be_bytes gives the big-endian bytes. (vstd cannot attach a specification to the
    // std method because of its const-generic return type, so the extraction renames the call
    // `.to_be_bytes()` to this shim method, whose body IS the std call.)
    pub trait VerifBe64 { fn verif_to_be_bytes(self) -> (r: [u8; 8]); }
    pub trait VerifBe32 { fn verif_to_be_bytes(self) -> (r: [u8; 4]); }
    impl VerifBe64 for u64 {
        #[verifier::external_body]
        fn verif_to_be_bytes(self) -> (r: [u8; 8]) ensures r@ == be64(self) { self.to_be_bytes() }
    }
    impl VerifBe32 for u32 {
        #[verifier::external_body]
        fn verif_to_be_bytes(self) -> (r: [u8; 4]) ensures r@ == be32(self) { self.to_be_bytes() }
    }

    // ---- strings: byte length and bytes ----
    pub uninterp spec fn str_bytes(s: &String) -> Seq<u8>;
    pub assume_specification [String::len] (s: &String) -> (r: usize)
        ensures r == str_bytes(s).len();
    // String::is_empty is specified by vstd over the character view; a string has no bytes iff
    // it has no characters (ASSUMED).
    #[verifier::external_body]
    pub broadcast proof fn axiom_str_empty(s: &String)
        ensures (#[trigger] str_bytes(s).len() == 0) <==> s@.len() == 0,
    {}
    pub assume_specification<'a> [String::as_bytes] (s: &'a String) -> (r: &'a [u8])
        ensures r@ == str_bytes(s);
    #[verifier::external_body]
    pub broadcast proof fn axiom_str_bytes_injective(a: &String, b: &String)
        ensures (#[trigger] str_bytes(a) == #[trigger] str_bytes(b)) ==> *a == *b,
    {}

    // ---- blake3 (ideal hash: injective on its input) ----
    pub mod blake3 {
        use vstd::prelude::*;
        #[verifier::external_body]
        pub struct Hash { _p: [u8; 32] }
        impl Clone for Hash {
            #[verifier::external_body]
            fn clone(&self) -> (r: Self) ensures r == *self { unimplemented!() }
        }
        impl PartialEq for Hash {
            #[verifier::external_body]
            fn eq(&self, other: &Hash) -> (r: bool) ensures r == (*self == *other) { unimplemented!() }
        }
        impl Eq for Hash {}
        impl std::hash::Hash for Hash {
            #[verifier::external_body]
            fn hash<H: std::hash::Hasher>(&self, state: &mut H) { unimplemented!() }
        }
        impl Hash {
            /// the 32 output bytes (nothing is assumed about them here)
            pub uninterp spec fn bytes(&self) -> Seq<u8>;
            #[verifier::external_body]
            pub fn as_bytes(&self) -> (r: &[u8; 32]) ensures r@ == self.bytes() { unimplemented!() }
        }
        pub uninterp spec fn hash_of(input: Seq<u8>) -> Hash;
        #[verifier::external_body]
        pub broadcast proof fn axiom_hash_injective(a: Seq<u8>, b: Seq<u8>)
            ensures (#[trigger] hash_of(a) == #[trigger] hash_of(b)) ==> a == b,
        {}
        #[verifier::external_body]
        pub struct Hasher { _p: [u8; 32] }
        impl Hasher {
            pub uninterp spec fn fed(&self) -> Seq<u8>;
            #[verifier::external_body]
            pub fn new() -> (r: Hasher) ensures r.fed() == Seq::<u8>::empty() { unimplemented!() }
            #[verifier::external_body]
            pub fn update(&mut self, input: &[u8]) ensures final(self).fed() == old(self).fed() + input@ { unimplemented!() }
            #[verifier::external_body]
            pub fn finalize(&self) -> (r: Hash) ensures r == hash_of(self.fed()) { unimplemented!() }
        }
    }
    #[verifier::external_body]
    pub broadcast proof fn axiom_hash_key_model()
        ensures #[trigger] vstd::std_specs::hash::obeys_key_model::<blake3::Hash>(),
    {}
}


pub mod verif_deps {
    use vstd::prelude::*;
    use super::verif_std::*;
// ---- opaque dependency types (saorsa-pqc keys/signatures, endpoints) ---------------------------
#[verifier::external_body]
pub struct MlDsaPublicKey { _p: [u8; 1] }
#[verifier::external_body]
pub struct MlDsaSignature { _p: [u8; 1] }
#[verifier::external_body]
pub struct PeerEndpoint { _p: [u8; 1] }
pub uninterp spec fn pk_bytes(pk: &MlDsaPublicKey) -> Seq<u8>;
pub uninterp spec fn sig_bytes(s: &MlDsaSignature) -> Seq<u8>;
impl MlDsaPublicKey {
    #[verifier::external_body]
    pub fn as_bytes(&self) -> (r: &[u8]) ensures r@ == pk_bytes(self), r@.len() == 1952 { unimplemented!() }
}
impl MlDsaSignature {
    #[verifier::external_body]
    pub fn as_bytes(&self) -> (r: &[u8]) ensures r@ == sig_bytes(self) { unimplemented!() }
}
#[verifier::external_body]
pub broadcast proof fn axiom_key_bytes_injective(a: &MlDsaPublicKey, b: &MlDsaPublicKey)
    ensures (#[trigger] pk_bytes(a) == #[trigger] pk_bytes(b)) ==> *a == *b, pk_bytes(a).len() == 1952,
{}
#[verifier::external_body]
pub broadcast proof fn axiom_sig_bytes_injective(a: &MlDsaSignature, b: &MlDsaSignature)
    ensures (#[trigger] sig_bytes(a) == #[trigger] sig_bytes(b)) ==> *a == *b, sig_bytes(a).len() == 3309,
{}

/// postcard encoding of the endpoint list (deterministic and injective -- assumed).
pub uninterp spec fn enc_endpoints(e: Seq<PeerEndpoint>) -> Option<Seq<u8>>;
#[verifier::external_body]
pub broadcast proof fn axiom_enc_endpoints_injective(a: Seq<PeerEndpoint>, b: Seq<PeerEndpoint>)
    ensures (#[trigger] enc_endpoints(a) == #[trigger] enc_endpoints(b) && enc_endpoints(a).is_some()) ==> a == b,
{}
pub mod postcard {
    use vstd::prelude::*;
    use super::*;
    pub struct PostcardError {}
    #[verifier::external_body]
    pub fn to_stdvec(v: &Vec<PeerEndpoint>) -> (r: core::result::Result<Vec<u8>, PostcardError>)
        ensures r.is_ok() == enc_endpoints(v@).is_some(),
                r matches Ok(b) ==> b@ == enc_endpoints(v@).unwrap() && b@.len() <= u32::MAX,
    { unimplemented!() }
}
/// ML-DSA verification: a deterministic function of (key, message, signature) -- assumed.
pub uninterp spec fn sig_valid(pk: &MlDsaPublicKey, msg: Seq<u8>, sig: &MlDsaSignature) -> Option<bool>;
pub mod quantum_crypto {
    use vstd::prelude::*;
    use super::*;
    pub struct CryptoError {}
    #[verifier::external_body]
    pub fn ml_dsa_verify(public_key: &MlDsaPublicKey, message: &Vec<u8>, signature: &MlDsaSignature) -> (r: core::result::Result<bool, CryptoError>)
        ensures r.is_ok() == sig_valid(public_key, message@, signature).is_some(),
                r matches Ok(b) ==> b == sig_valid(public_key, message@, signature).unwrap(),
    { unimplemented!() }
}

}
pub use verif_deps::*;

pub mod verif_spec {
    use vstd::prelude::*;
    use super::verif_std::*;
    use super::verif_std::blake3::Hash;
    use super::verif_deps::*;
    use std::collections::HashMap;
    broadcast use {super::verif_std::axiom_be64, super::verif_std::axiom_be32, super::verif_std::axiom_str_bytes_injective, super::verif_std::axiom_str_empty,
               super::verif_std::blake3::axiom_hash_injective, super::verif_std::axiom_hash_key_model,
               super::verif_deps::axiom_key_bytes_injective, super::verif_deps::axiom_sig_bytes_injective, super::verif_deps::axiom_enc_endpoints_injective};
    pub type Result<T> = core::result::Result<T, VerifError>;
// ---- struct shims ---------------------------------------------------------------------------
pub struct UserId { pub hash: [u8; 32] }
// ASSUMED: the derived PartialEq of UserId is equality of the 32 bytes.
impl PartialEq for UserId {
    #[verifier::external_body]
    fn eq(&self, other: &UserId) -> (r: bool) ensures r == (*self == *other) { unimplemented!() }
    #[verifier::external_body]
    fn ne(&self, other: &UserId) -> (r: bool) ensures r == (*self != *other) { unimplemented!() }
}
pub uninterp spec fn derive_id(pk: &MlDsaPublicKey) -> UserId;
impl UserId {
    // ASSUMED: blake3::hash of the key bytes (one-shot API), a function of the key.
    #[verifier::external_body]
    pub fn from_public_key(public_key: &MlDsaPublicKey) -> (r: UserId) ensures r == derive_id(public_key) { unimplemented!() }
}
pub struct PeerDHTRecord {
    pub version: u8,
    pub user_id: UserId,
    pub public_key: MlDsaPublicKey,
    pub sequence_number: u64,
    pub name: Option<String>,
    pub endpoints: Vec<PeerEndpoint>,
    pub ttl: u32,
    pub timestamp: u64,
    pub signature: MlDsaSignature,
}
pub struct SignatureCache {
    pub cache: HashMap<Hash, bool>,
    pub max_size: usize,
}

// ---- the property as spec functions ---------------------------------------------------------

pub open spec fn name_part(name: Option<String>) -> Seq<u8> {
    match name {
        Some(n) => be32(str_bytes(&n).len() as u32) + str_bytes(&n),
        None => be32(0u32),
    }
}
/// The canonical signed encoding: every field of the record, in order, length-prefixed where the
/// length varies.
pub open spec fn signable(r: &PeerDHTRecord) -> Seq<u8> {
    seq![r.version] + r.user_id.hash@ + pk_bytes(&r.public_key) + be64(r.sequence_number)
        + name_part(r.name)
        + be32(enc_endpoints(r.endpoints@).unwrap().len() as u32) + enc_endpoints(r.endpoints@).unwrap()
        + be64(r.timestamp) + be32(r.ttl)
}
pub open spec fn encodable(r: &PeerDHTRecord) -> bool {
    enc_endpoints(r.endpoints@).is_some()
}
/// Direct verification verdict, from the statement: the signature verifies over the canonical
/// encoding of exactly this record under the embedded key, and the user id is the one derived from
/// that key.
pub open spec fn verdict(r: &PeerDHTRecord) -> bool {
    r.user_id == derive_id(&r.public_key)
    && encodable(r)
    && sig_valid(&r.public_key, signable(r), &r.signature) == Some(true)
}
/// Documented construction bounds.
pub open spec fn within_bounds(name: &Option<String>, n_endpoints: nat, ttl: u32) -> bool {
    (name.is_some() ==> 1 <= str_bytes(&name.unwrap()).len() <= 255)
    && 1 <= n_endpoints <= 16
    && 1 <= ttl <= 86400
}
/// What the cache key is a hash of.
pub open spec fn key_material(r: &PeerDHTRecord) -> Seq<u8> {
    signable(r) + sig_bytes(&r.signature)
}

impl SignatureCache {
    /// Cache invariant: every memoised verdict is the direct-verification verdict of EVERY record
    /// that maps to that key.
    pub open spec fn inv(&self) -> bool {
        forall|h: Hash, r: &PeerDHTRecord| #![trigger self.cache@.contains_key(h), verdict(r)]
            self.cache@.contains_key(h) && encodable(r) && blake3::hash_of(key_material(r)) == h
            ==> self.cache@[h] == verdict(r)
    }
}

    // ---- lemmas over the contracts ----------------------------------------------------------

    /// The fixed-length head of the canonical encoding pins version, user id and public key.
    pub proof fn lemma_signable_head(a: &PeerDHTRecord, b: &PeerDHTRecord)
        requires signable(a) == signable(b),
        ensures a.version == b.version, a.user_id == b.user_id, a.public_key == b.public_key,
    {
        let sa = signable(a);
        let sb = signable(b);
        let ta = be64(a.sequence_number) + name_part(a.name)
            + be32(enc_endpoints(a.endpoints@).unwrap().len() as u32) + enc_endpoints(a.endpoints@).unwrap()
            + be64(a.timestamp) + be32(a.ttl);
        let tb = be64(b.sequence_number) + name_part(b.name)
            + be32(enc_endpoints(b.endpoints@).unwrap().len() as u32) + enc_endpoints(b.endpoints@).unwrap()
            + be64(b.timestamp) + be32(b.ttl);
        assert(sa =~= seq![a.version] + a.user_id.hash@ + pk_bytes(&a.public_key) + ta);
        assert(sb =~= seq![b.version] + b.user_id.hash@ + pk_bytes(&b.public_key) + tb);
        assert(a.user_id.hash@.len() == 32 && b.user_id.hash@.len() == 32);
        assert(pk_bytes(&a.public_key).len() == 1952 && pk_bytes(&b.public_key).len() == 1952);
        assert(sa[0] == a.version && sb[0] == b.version);
        assert(sa.subrange(1, 33) =~= a.user_id.hash@);
        assert(sb.subrange(1, 33) =~= b.user_id.hash@);
        assert(a.user_id.hash@ == b.user_id.hash@);
        assert(a.user_id.hash == b.user_id.hash) by {
            assert(a.user_id.hash@ =~= b.user_id.hash@);
            assert forall|i: int| 0 <= i < 32 implies a.user_id.hash[i] == b.user_id.hash[i] by {
                assert(a.user_id.hash@[i] == b.user_id.hash@[i]);
            }
            assert(a.user_id.hash =~= b.user_id.hash);
        }
        assert(sa.subrange(33, 1985) =~= pk_bytes(&a.public_key));
        assert(sb.subrange(33, 1985) =~= pk_bytes(&b.public_key));
    }


    /// x1 + y1 == x2 + y2 with equally long heads splits into equal heads and equal tails.
    pub proof fn lemma_concat_split(x1: Seq<u8>, y1: Seq<u8>, x2: Seq<u8>, y2: Seq<u8>)
        requires x1 + y1 == x2 + y2, x1.len() == x2.len(),
        ensures x1 == x2, y1 == y2,
    {
        let a = x1 + y1;
        let b = x2 + y2;
        assert(a.subrange(0, x1.len() as int) =~= x1);
        assert(b.subrange(0, x2.len() as int) =~= x2);
        assert(a.subrange(x1.len() as int, a.len() as int) =~= y1);
        assert(b.subrange(x2.len() as int, b.len() as int) =~= y2);
    }

    /// Documented name bound (what construction accepts): absent, or 1..=255 bytes.
    pub open spec fn name_ok(name: Option<String>) -> bool {
        name.is_some() ==> 1 <= str_bytes(&name.unwrap()).len() <= 255
    }
    pub open spec fn head_of(r: &PeerDHTRecord) -> Seq<u8> {
        seq![r.version] + r.user_id.hash@ + pk_bytes(&r.public_key)
    }
    pub open spec fn tail5(r: &PeerDHTRecord) -> Seq<u8> { be64(r.timestamp) + be32(r.ttl) }
    pub open spec fn tail4(r: &PeerDHTRecord) -> Seq<u8> { enc_endpoints(r.endpoints@).unwrap() + tail5(r) }
    pub open spec fn tail3(r: &PeerDHTRecord) -> Seq<u8> { be32(enc_endpoints(r.endpoints@).unwrap().len() as u32) + tail4(r) }
    pub open spec fn tail2(r: &PeerDHTRecord) -> Seq<u8> { name_part(r.name) + tail3(r) }
    pub open spec fn tail1(r: &PeerDHTRecord) -> Seq<u8> { be64(r.sequence_number) + tail2(r) }

    /// The canonical encoding, re-associated: fixed-length head, then the nested tails.
    pub proof fn lemma_signable_shape(r: &PeerDHTRecord)
        ensures signable(r) == head_of(r) + tail1(r), head_of(r).len() == 1985,
    {
        assert(signable(r) =~= head_of(r) + tail1(r));
        assert(r.user_id.hash@.len() == 32);
        assert(pk_bytes(&r.public_key).len() == 1952);
    }

    /// The length-prefixed name is uniquely decodable under the documented bound.
    pub proof fn lemma_name_part_injective(n1: Option<String>, t1: Seq<u8>, n2: Option<String>, t2: Seq<u8>)
        requires name_part(n1) + t1 == name_part(n2) + t2, name_ok(n1), name_ok(n2),
        ensures n1 == n2, t1 == t2,
    {
        let b1 = match n1 { Some(n) => str_bytes(&n), None => Seq::<u8>::empty() };
        let b2 = match n2 { Some(n) => str_bytes(&n), None => Seq::<u8>::empty() };
        let l1 = be32(b1.len() as u32);
        let l2 = be32(b2.len() as u32);
        assert(name_part(n1) =~= l1 + b1);
        assert(name_part(n2) =~= l2 + b2);
        assert(name_part(n1) + t1 =~= l1 + (b1 + t1));
        assert(name_part(n2) + t2 =~= l2 + (b2 + t2));
        lemma_concat_split(l1, b1 + t1, l2, b2 + t2);
        assert(b1.len() as u32 == b2.len() as u32);
        assert(b1.len() == b2.len());
        lemma_concat_split(b1, t1, b2, t2);
        if n1.is_some() {
            assert(b1.len() >= 1);
            assert(n2.is_some());
            assert(str_bytes(&n1.unwrap()) == str_bytes(&n2.unwrap()));
        } else {
            assert(b2.len() == 0);
            assert(n2.is_none());
        }
    }

    /// "the signature covers every field of the record as presented": two records (within the
    /// documented name bound, endpoints encodable) with the same canonical encoding agree on EVERY
    /// field the statement lists -- id, key, sequence number, name, endpoints, timestamp, lifetime
    /// (and version).
    pub proof fn lemma_signable_injective(a: &PeerDHTRecord, b: &PeerDHTRecord)
        requires
            signable(a) == signable(b), encodable(a), encodable(b), name_ok(a.name), name_ok(b.name),
            enc_endpoints(a.endpoints@).unwrap().len() <= u32::MAX, enc_endpoints(b.endpoints@).unwrap().len() <= u32::MAX,
        ensures
            a.version == b.version, a.user_id == b.user_id, a.public_key == b.public_key, // @C09/signable/covers_version_id_and_key
            a.sequence_number == b.sequence_number, // @C09/signable/covers_sequence_number
            a.name == b.name, // @C09/signable/covers_name
            a.endpoints@ == b.endpoints@, // @C09/signable/covers_endpoints
            a.timestamp == b.timestamp, // @C09/signable/covers_timestamp
            a.ttl == b.ttl, // @C09/signable/covers_lifetime
    {
        lemma_signable_head(a, b);
        lemma_signable_shape(a);
        lemma_signable_shape(b);
        lemma_concat_split(head_of(a), tail1(a), head_of(b), tail1(b));
        lemma_concat_split(be64(a.sequence_number), tail2(a), be64(b.sequence_number), tail2(b));
        lemma_name_part_injective(a.name, tail3(a), b.name, tail3(b));
        let ea = enc_endpoints(a.endpoints@).unwrap();
        let eb = enc_endpoints(b.endpoints@).unwrap();
        lemma_concat_split(be32(ea.len() as u32), tail4(a), be32(eb.len() as u32), tail4(b));
        assert(ea.len() as u32 == eb.len() as u32);
        assert(ea.len() == eb.len());
        lemma_concat_split(ea, tail5(a), eb, tail5(b));
        assert(enc_endpoints(a.endpoints@) == enc_endpoints(b.endpoints@));
        lemma_concat_split(be64(a.timestamp), be32(a.ttl), be64(b.timestamp), be32(b.ttl));
    }

    /// Two records that map to the same cache key have the same direct-verification verdict
    /// (under the ideal-hash contract): the key covers everything the verdict depends on.
    pub broadcast proof fn lemma_same_key_same_verdict(a: &PeerDHTRecord, b: &PeerDHTRecord)
        requires
            #[trigger] blake3::hash_of(key_material(a)) == #[trigger] blake3::hash_of(key_material(b)),
            encodable(a), encodable(b),
        ensures
            verdict(a) == verdict(b), // @C09/cache/equal_keys_imply_equal_verdicts
    {
        assert(key_material(a) == key_material(b));
        lemma_key_material_split(a, b);
        lemma_signable_head(a, b);
    }

    /// signable + signature bytes splits uniquely (signatures have a fixed length).
    pub proof fn lemma_key_material_split(a: &PeerDHTRecord, b: &PeerDHTRecord)
        requires key_material(a) == key_material(b),
        ensures signable(a) == signable(b), a.signature == b.signature,
    {
        let ka = key_material(a);
        let kb = key_material(b);
        assert(sig_bytes(&a.signature).len() == 3309 && sig_bytes(&b.signature).len() == 3309);
        assert(ka.len() == signable(a).len() + 3309);
        assert(kb.len() == signable(b).len() + 3309);
        assert(signable(a).len() == signable(b).len());
        assert(ka.subrange(0, signable(a).len() as int) =~= signable(a));
        assert(kb.subrange(0, signable(b).len() as int) =~= signable(b));
        assert(ka.subrange(signable(a).len() as int, ka.len() as int) =~= sig_bytes(&a.signature));
        assert(kb.subrange(signable(b).len() as int, kb.len() as int) =~= sig_bytes(&b.signature));
    }
}
pub use verif_spec::*;
pub use verif_std::*;
pub use verif_std::blake3::Hash;
use std::collections::HashMap;
broadcast use {verif_std::axiom_be64, verif_std::axiom_be32, verif_std::axiom_str_bytes_injective, verif_std::axiom_str_empty,
               verif_std::blake3::axiom_hash_injective, verif_std::axiom_hash_key_model,
               verif_deps::axiom_key_bytes_injective, verif_deps::axiom_sig_bytes_injective, verif_deps::axiom_enc_endpoints_injective,
               verif_spec::lemma_same_key_same_verdict};
