// Spec side of unit `mgr` (C02, reply construction helpers of DhtNetworkManager): specification only.
//
// ASSUMED: DhtKey::distance is byte-wise XOR (proved on the real fn by Kani c02_distance_is_xor);
// `<[u8; 32] as Ord>::cmp` is the lexicographic byte order (the extraction renames `.cmp(` on the two
// distance arrays to the shim `verif_lex_cmp`, whose body is that call); parse_peer_id_to_key is a
// function of the peer id string (hash-based derivation, not verified); the iterator chain
// `v.into_iter().filter(p).collect()` keeps exactly the elements satisfying p, in order (renamed to a
// shim whose body is the chain; the closure itself is verified).

pub struct DhtKey(pub [u8; 32]);
pub type Key = [u8; 32];
pub type PeerId = String;
pub open spec fn is_xor(a: [u8; 32], b: [u8; 32], d: [u8; 32]) -> bool {
    forall|i: int| 0 <= i < 32 ==> #[trigger] d[i] == a[i] ^ b[i]
}
impl DhtKey {
    #[verifier::external_body]
    pub fn from_bytes(bytes: [u8; 32]) -> (r: DhtKey) ensures r.0 == bytes { unimplemented!() }
    // is_xor is the contract Kani proves on the real fn (c02_distance_is_xor); the sequence form follows
    // from it by lemma_xor_seq below
    #[verifier::external_body]
    pub fn distance(&self, other: &DhtKey) -> (r: [u8; 32]) ensures is_xor(self.0, other.0, r), r@ == xor_seq(self.0, other.0) { unimplemented!() }
}
pub struct DHTNode {
    pub peer_id: String,
    pub address: String,
    pub distance: Option<Vec<u8>>,
    pub reliability: f64,
    pub cached_dht_key: Option<DhtKey>,
}
pub struct DhtNetworkManager {}
/// verified identity on f64 (works around a Verus encoding quirk: an f64 read from a nested field of a partially
/// moved value inside a struct literal loses the facts about the enclosing statement)
pub fn verif_f64x(x: f64) -> (r: f64) ensures r == x { x }
pub uninterp spec fn parsed_key(peer_id: Seq<char>) -> Option<DhtKey>;

pub open spec fn lex_lt(x: Seq<u8>, y: Seq<u8>) -> bool {
    exists|i: int| 0 <= i < 32 && x[i] < y[i] && forall|j: int| 0 <= j < i ==> x[j] == y[j]
}
pub open spec fn lex_cmp(x: [u8; 32], y: [u8; 32]) -> std::cmp::Ordering {
    if x@ == y@ { std::cmp::Ordering::Equal } else if lex_lt(x@, y@) { std::cmp::Ordering::Less } else { std::cmp::Ordering::Greater }
}
pub trait VerifLexCmp { fn verif_lex_cmp(&self, other: &Self) -> (r: std::cmp::Ordering); }
impl VerifLexCmp for [u8; 32] {
    #[verifier::external_body]
    fn verif_lex_cmp(&self, other: &[u8; 32]) -> (r: std::cmp::Ordering) ensures r == lex_cmp(*self, *other) { self.cmp(other) }
}
impl DhtNetworkManager {
    // ASSUMED: a function of the peer id (derive_dht_key_from_peer_id; None for the empty string)
    #[verifier::external_body]
    fn parse_peer_id_to_key(peer_id: &str) -> (r: Option<DhtKey>) ensures r == parsed_key(peer_id@) { unimplemented!() }

    /// the key a node is ranked by: its cached key, else the key derived from its peer id
    pub open spec fn eff_key(n: &DHTNode) -> Option<DhtKey> {
        if n.cached_dht_key.is_some() { n.cached_dht_key } else { parsed_key(n.peer_id@) }
    }
}
/// XOR distance of a node's ranking key to the target, as a byte sequence
pub open spec fn xor_seq(a: [u8; 32], b: [u8; 32]) -> Seq<u8> { Seq::new(32, |i: int| a[i] ^ b[i]) }
/// the order the statement asks for: ascending XOR distance, nodes without a usable id last
pub open spec fn rank_cmp(a: &DHTNode, b: &DHTNode, key: Key) -> std::cmp::Ordering {
    match (DhtNetworkManager::eff_key(a), DhtNetworkManager::eff_key(b)) {
        (Some(ka), Some(kb)) => {
            if xor_seq(ka.0, key) == xor_seq(kb.0, key) { std::cmp::Ordering::Equal }
            else if lex_lt(xor_seq(ka.0, key), xor_seq(kb.0, key)) { std::cmp::Ordering::Less }
            else { std::cmp::Ordering::Greater }
        }
        (Some(_), None) => std::cmp::Ordering::Less,
        (None, Some(_)) => std::cmp::Ordering::Greater,
        (None, None) => std::cmp::Ordering::Equal,
    }
}
proof fn lemma_xor_seq(a: [u8; 32], b: [u8; 32], d: [u8; 32])
    requires is_xor(a, b, d),
    ensures d@ == xor_seq(a, b),
{
    assert(d@ =~= xor_seq(a, b)) by {
        assert forall|i: int| 0 <= i < 32 implies d@[i] == xor_seq(a, b)[i] by { assert(d[i] == a[i] ^ b[i]); }
    }
}

/// `v.into_iter().filter(p).collect()` -- body IS the chain; contract: documented std behaviour.
#[verifier::external_body]
pub fn verif_into_filter_collect<P: Fn(&DHTNode) -> bool>(v: Vec<DHTNode>, p: P, Ghost(f): Ghost<spec_fn(DHTNode) -> bool>) -> (r: Vec<DHTNode>)
    requires
        forall|x: &DHTNode| #[trigger] call_requires(p, (x,)),
        forall|x: &DHTNode, b: bool| #[trigger] call_ensures(p, (x,), b) ==> b == f(*x),
    ensures r@ == v@.filter(f),
{
    v.into_iter().filter(p).collect()
}

// ---- rank_cmp is a total preorder (so `sort_by(compare_node_distance)` yields ascending distance) ----
proof fn lemma_lex_trichotomy(x: Seq<u8>, y: Seq<u8>)
    requires x.len() == 32, y.len() == 32,
    ensures x == y || lex_lt(x, y) || lex_lt(y, x), !(lex_lt(x, y) && lex_lt(y, x)), !(x == y && lex_lt(x, y)),
{
    if x != y {
        assert(!(x =~= y));
        // first differing index
        let k = choose|k: int| 0 <= k < 32 && x[k] != y[k] && forall|j: int| 0 <= j < k ==> x[j] == y[j];
        lemma_first_diff(x, y, 32);
        if x[k] < y[k] { assert(lex_lt(x, y)); } else { assert(lex_lt(y, x)); }
    }
    if lex_lt(x, y) && lex_lt(y, x) {
        let i = choose|i: int| 0 <= i < 32 && x[i] < y[i] && forall|j: int| 0 <= j < i ==> x[j] == y[j];
        let i2 = choose|i: int| 0 <= i < 32 && y[i] < x[i] && forall|j: int| 0 <= j < i ==> y[j] == x[j];
        if i < i2 { assert(y[i] == x[i]); } else if i2 < i { assert(x[i2] == y[i2]); }
    }
}
proof fn lemma_first_diff(x: Seq<u8>, y: Seq<u8>, n: int)
    requires x.len() == 32, y.len() == 32, 0 <= n <= 32, exists|i: int| 0 <= i < n && x[i] != y[i],
    ensures exists|k: int| 0 <= k < n && x[k] != y[k] && forall|j: int| 0 <= j < k ==> x[j] == y[j],
    decreases n
{
    if exists|i: int| 0 <= i < n - 1 && x[i] != y[i] {
        lemma_first_diff(x, y, n - 1);
        let k = choose|k: int| 0 <= k < n - 1 && x[k] != y[k] && forall|j: int| 0 <= j < k ==> x[j] == y[j];
        assert(0 <= k < n && x[k] != y[k] && forall|j: int| 0 <= j < k ==> x[j] == y[j]);
    } else {
        let k = n - 1;
        assert(x[k] != y[k]);
        assert(0 <= k < n && x[k] != y[k] && forall|j: int| 0 <= j < k ==> x[j] == y[j]);
    }
}
proof fn lemma_lex_transitive(x: Seq<u8>, y: Seq<u8>, z: Seq<u8>)
    requires x.len() == 32, y.len() == 32, z.len() == 32, lex_lt(x, y), lex_lt(y, z),
    ensures lex_lt(x, z),
{
    let i = choose|i: int| 0 <= i < 32 && x[i] < y[i] && forall|j: int| 0 <= j < i ==> x[j] == y[j];
    let k = choose|k: int| 0 <= k < 32 && y[k] < z[k] && forall|j: int| 0 <= j < k ==> y[j] == z[j];
    let m = if i <= k { i } else { k };
    assert(x[m] < z[m]);
    assert(forall|j: int| 0 <= j < m ==> x[j] == z[j]);
}
/// antisymmetry and transitivity of the ranking used for replies
proof fn lemma_rank_cmp_is_a_total_preorder(a: &DHTNode, b: &DHTNode, c: &DHTNode, key: Key)
    ensures
        (rank_cmp(a, b, key) == std::cmp::Ordering::Less) == (rank_cmp(b, a, key) == std::cmp::Ordering::Greater), // @C02/reply/ranking_is_antisymmetric
        (rank_cmp(a, b, key) == std::cmp::Ordering::Equal) == (rank_cmp(b, a, key) == std::cmp::Ordering::Equal),
        (rank_cmp(a, b, key) != std::cmp::Ordering::Greater && rank_cmp(b, c, key) != std::cmp::Ordering::Greater) ==> rank_cmp(a, c, key) != std::cmp::Ordering::Greater, // @C02/reply/ranking_is_transitive
{
    let (ka, kb, kc) = (DhtNetworkManager::eff_key(a), DhtNetworkManager::eff_key(b), DhtNetworkManager::eff_key(c));
    if ka.is_some() && kb.is_some() {
        lemma_lex_trichotomy(xor_seq(ka.unwrap().0, key), xor_seq(kb.unwrap().0, key));
    }
    if ka.is_some() && kb.is_some() && kc.is_some() {
        let (x, y, z) = (xor_seq(ka.unwrap().0, key), xor_seq(kb.unwrap().0, key), xor_seq(kc.unwrap().0, key));
        lemma_lex_trichotomy(x, y);
        lemma_lex_trichotomy(y, z);
        lemma_lex_trichotomy(x, z);
        if lex_lt(x, y) && lex_lt(y, z) { lemma_lex_transitive(x, y, z); }
        if lex_lt(z, x) && lex_lt(x, y) { lemma_lex_transitive(z, x, y); }
        if lex_lt(y, z) && lex_lt(z, x) { lemma_lex_transitive(y, z, x); }
    }
}

// ---------------------------------------------------------------------------------------------
// find_closest_nodes_local (await-erased): the answer over routing table + connected peers
// ---------------------------------------------------------------------------------------------
pub mod verif_mgr_local {
    use vstd::prelude::*;
    use super::{DhtKey, DHTNode, Key};
    pub struct VerifError {}
    /// Multiaddr: opaque; `to_string()` gives some text
    #[verifier::external_body] pub struct Multiaddr { _p: u8 }
    impl Multiaddr {
        #[verifier::external_body]
        pub fn to_string(&self) -> String { unimplemented!() }
    }
    pub struct DhtPeerInfo {
        pub dht_key: Key,
        pub addresses: Vec<Multiaddr>,
        pub is_connected: bool,
        pub reliability_score: f64,
    }
    /// dht::core_engine::{NodeId, NodeInfo, NodeCapacity}
    pub struct NodeId(pub DhtKey);
    impl NodeId {
        #[verifier::external_body]
        pub fn as_bytes(&self) -> (r: &[u8; 32]) ensures *r == self.0.0 { unimplemented!() }
        /// Display: lower-case hex of the 32 bytes
        #[verifier::external_body]
        pub fn to_string(&self) -> (r: String) ensures r@ == super::hex_of(*self) { unimplemented!() }
    }
    pub struct NodeCapacity { pub reliability_score: f64 }
    pub struct NodeInfo { pub id: NodeId, pub address: String, pub capacity: NodeCapacity }
    /// the engine behind `self.dht` (read guard): find_nodes returns some table entries or an error
    #[verifier::external_body] pub struct DhtCoreEngine { _p: u8 }
    impl DhtCoreEngine {
        #[verifier::external_body]
        pub fn find_nodes(&self, key: &DhtKey, count: usize) -> (r: core::result::Result<Vec<NodeInfo>, VerifError>)
            ensures (r matches Ok(v) ==> super::found_spec(self, *key, count) == Some(v@)), (r is Err ==> super::found_spec(self, *key, count) is None),
        { unimplemented!() }
    }
    /// `[u8; 32]::to_vec()`
    #[verifier::external_body]
    pub fn verif_key_to_vec(k: &Key) -> (r: Vec<u8>) ensures r@ == k@ { unimplemented!() }
    /// `v.first()`
    #[verifier::external_body]
    pub fn verif_first_addr<'a>(v: &'a Vec<Multiaddr>) -> (r: Option<&'a Multiaddr>) ensures r.is_some() == (v@.len() > 0) { unimplemented!() }
    #[verifier::external_body]
    pub broadcast proof fn axiom_key_model()
        ensures #[trigger] vstd::std_specs::hash::obeys_key_model::<Key>(),
    {}
    #[verifier::external_body]
    pub broadcast proof fn axiom_string_key_model()
        ensures #[trigger] vstd::std_specs::hash::obeys_key_model::<String>(),
    {}
}
pub use verif_mgr_local::*;
broadcast use {verif_mgr_local::axiom_key_model, verif_mgr_local::axiom_string_key_model};
use std::collections::{HashMap, HashSet};
use vstd::std_specs::iter::IteratorSpec;

impl DhtNetworkManager {
    #[verifier::external_body]
    fn is_local_peer_id(&self, peer_id: &str) -> (r: bool) ensures r == is_local(self, peer_id@) { unimplemented!() }
}
/// every listed node carries a DHT key, that key has been recorded, and no two listed nodes share one
pub open spec fn listed_once(v: Seq<DHTNode>, seen: Set<Key>) -> bool {
    &&& forall|i: int| 0 <= i < v.len() ==> (#[trigger] v[i]).cached_dht_key.is_some() && seen.contains(v[i].cached_dht_key.unwrap().0)
    // a key is recorded only for a node that is listed: nothing is filtered out as a "duplicate" of a peer that was skipped
    &&& forall|k: Key| #[trigger] seen.contains(k) ==> exists|i: int| 0 <= i < v.len() && (#[trigger] v[i]).cached_dht_key == Some(DhtKey(k))
    &&& forall|i: int, j: int| 0 <= i < j < v.len() ==> (#[trigger] v[i]).cached_dht_key.unwrap().0 != (#[trigger] v[j]).cached_dht_key.unwrap().0
}
pub open spec fn keys_distinct(v: Seq<DHTNode>) -> bool {
    forall|i: int, j: int| 0 <= i < j < v.len() ==> (#[trigger] v[i]).cached_dht_key.is_some() && (#[trigger] v[j]).cached_dht_key.is_some()
        && v[i].cached_dht_key.unwrap().0 != v[j].cached_dht_key.unwrap().0
}
pub proof fn lemma_listed_push(v: Seq<DHTNode>, seen: Set<Key>, n: DHTNode, k: Key)
    requires listed_once(v, seen), !seen.contains(k), n.cached_dht_key.is_some(), n.cached_dht_key.unwrap().0 == k,
    ensures listed_once(v.push(n), seen.insert(k)),
{
    let w = v.push(n);
    assert forall|i: int, j: int| 0 <= i < j < w.len() implies (#[trigger] w[i]).cached_dht_key.unwrap().0 != (#[trigger] w[j]).cached_dht_key.unwrap().0 by {
        if j == v.len() { assert(w[i] == v[i]); assert(seen.contains(v[i].cached_dht_key.unwrap().0)); } else { assert(w[i] == v[i] && w[j] == v[j]); }
    }
    assert forall|i: int| 0 <= i < w.len() implies (#[trigger] w[i]).cached_dht_key.is_some() && seen.insert(k).contains(w[i].cached_dht_key.unwrap().0) by {
        if i < v.len() { assert(w[i] == v[i]); }
    }
    assert forall|q: Key| #[trigger] seen.insert(k).contains(q) implies exists|i: int| 0 <= i < w.len() && (#[trigger] w[i]).cached_dht_key == Some(DhtKey(q)) by {
        if q == k { assert(w[v.len() as int] == n); assert(n.cached_dht_key.unwrap() == DhtKey(k)); }
        else { let i = choose|i: int| 0 <= i < v.len() && (#[trigger] v[i]).cached_dht_key == Some(DhtKey(q)); assert(w[i] == v[i]); }
    }
}

// ---- exactness of the local answer: nothing the node knows of that is closer is left out -------------
/// is_local_peer_id as a function of the manager and the id text
pub uninterp spec fn is_local(m: &DhtNetworkManager, s: Seq<char>) -> bool;
/// the text NodeId's Display produces (lower-case hex of the 32 bytes)
pub uninterp spec fn hex_of(id: NodeId) -> Seq<char>;
/// what the engine's find_nodes returns for (key, count): some entries, or None for an error
pub uninterp spec fn found_spec(e: &DhtCoreEngine, key: DhtKey, count: usize) -> Option<Seq<NodeInfo>>;
pub open spec fn found_or_empty(e: &DhtCoreEngine, key: DhtKey, count: usize) -> Seq<NodeInfo> {
    match found_spec(e, key, count) { Some(v) => v, None => Seq::<NodeInfo>::empty() }
}
/// the peers this answer is built from: connected peers with a known address and the table entries the engine
/// returned, the local node excluded
pub open spec fn known(m: &DhtNetworkManager, peers: Map<String, DhtPeerInfo>, found: Seq<NodeInfo>, k: Key) -> bool {
    (exists|p: String| #[trigger] peers.contains_key(p) && peers[p].is_connected && !is_local(m, p@) && peers[p].addresses@.len() > 0 && peers[p].dht_key == k)
    || (exists|j: int| 0 <= j < found.len() && !is_local(m, hex_of((#[trigger] found[j]).id)) && found[j].id.0.0 == k)
}
/// the answer names the peer with key k, or it is full and k is no closer than anything it names
pub open spec fn named_or_not_closer(r: Seq<DHTNode>, count: usize, target: Key, k: Key) -> bool {
    (exists|i: int| 0 <= i < r.len() && (#[trigger] r[i]).cached_dht_key == Some(DhtKey(k)))
    || (r.len() == count && forall|i: int| 0 <= i < r.len() ==> (#[trigger] r[i]).cached_dht_key.is_some()
            && !lex_lt(xor_seq(k, target), xor_seq(r[i].cached_dht_key.unwrap().0, target)))
}
pub open spec fn in_seq(v: Seq<DHTNode>, x: DHTNode) -> bool { exists|i: int| 0 <= i < v.len() && #[trigger] v[i] == x }
pub open spec fn ranked_after_all(r: Seq<DHTNode>, x: DHTNode, key: Key) -> bool {
    forall|i: int| 0 <= i < r.len() ==> rank_cmp(&#[trigger] r[i], &x, key) != std::cmp::Ordering::Greater
}
/// ASSUMED contract of the outlined tail `sort_by(compare_node_distance); into_iter().take(count).collect()`
/// (std: stable sort by the comparator -- a total preorder, lemma_rank_cmp_is_a_total_preorder -- then a prefix)
pub open spec fn tail_post(all: Seq<DHTNode>, count: usize, key: Key, r: Seq<DHTNode>) -> bool {
    &&& r.len() == (if count <= all.len() { count as int } else { all.len() as int })
    &&& forall|i: int| 0 <= i < r.len() ==> in_seq(all, #[trigger] r[i])
    &&& forall|i: int, j: int| 0 <= i < j < r.len() ==> exists|a: int, b: int| 0 <= a < all.len() && 0 <= b < all.len() && a != b
            && #[trigger] r[i] == all[a] && #[trigger] r[j] == all[b]
    &&& forall|i: int, j: int| 0 <= i < j < r.len() ==> rank_cmp(&#[trigger] r[i], &#[trigger] r[j], key) != std::cmp::Ordering::Greater
    &&& forall|a: int| 0 <= a < all.len() ==> in_seq(r, #[trigger] all[a]) || (r.len() == count && ranked_after_all(r, all[a], key))
}
pub proof fn lemma_local_answer(m: &DhtNetworkManager, all: Seq<DHTNode>, seen: Set<Key>, count: usize, key: Key, r: Seq<DHTNode>, k: Key)
    requires listed_once(all, seen), tail_post(all, count, key, r), seen.contains(k),
    ensures named_or_not_closer(r, count, key, k),
{
    let a = choose|a: int| 0 <= a < all.len() && (#[trigger] all[a]).cached_dht_key == Some(DhtKey(k));
    if in_seq(r, all[a]) {
        let i = choose|i: int| 0 <= i < r.len() && #[trigger] r[i] == all[a];
        assert(r[i].cached_dht_key == Some(DhtKey(k)));
    } else {
        assert(r.len() == count && ranked_after_all(r, all[a], key));
        assert forall|i: int| 0 <= i < r.len() implies (#[trigger] r[i]).cached_dht_key.is_some()
                && !lex_lt(xor_seq(k, key), xor_seq(r[i].cached_dht_key.unwrap().0, key)) by {
            assert(in_seq(all, r[i]));
            let x = choose|x: int| 0 <= x < all.len() && #[trigger] all[x] == r[i];
            assert(all[x].cached_dht_key.is_some());
            assert(rank_cmp(&r[i], &all[a], key) != std::cmp::Ordering::Greater);
            lemma_lex_trichotomy(xor_seq(r[i].cached_dht_key.unwrap().0, key), xor_seq(k, key));
        }
    }
}
