"""Verus unit recipes. Every `items` entry names a REAL function of /repo whose
text is copied verbatim on every run; `spec`, `loops`, `loop_proofs` only add
specification/ghost text. See lib/extract.py for the allowed operations."""

_ANYHOW_EARLY = (r"anyhow!\((?:[^()]|\([^()]*\))*\)", "VerifError {}", "error value: the message text of anyhow!(..) is dropped")
_BUCKET_SPEC = lambda other, tag: f"""
    ensures
        is_bucket_of(self.node_id.0.0, {other}, r as int), // @C02/bucket_index/{tag}
"""
_BUCKET_LOOP_INV = lambda other: f"""
            invariant is_xor(self.node_id.0.0, {other}, distance),
                forall|j: int| 0 <= j < i ==> !differ_at(self.node_id.0.0, {other}, j),
"""
_BUCKET_LOOP_PROOF = lambda other: f"""
            proof {{ lemma_xor_bits(self.node_id.0.0, {other}, distance, i as int); }}
"""

UNITS = {
    "bucket": {
        "property": "C02",
        "src": "src/dht/core_engine.rs",
        "spec": "verus/bucket.spec.rs",
        "shims": {
            "DhtKey": (None, {"0": "[u8; 32]"}),
            "NodeId": (None, {"0": "DhtKey"}),
            "KademliaRoutingTable": (None, {"node_id": "NodeId", "buckets": "Vec<KBucket>", "_k_value": "usize"}),
            "KBucket": (None, {"nodes": "Vec<NodeInfo>", "max_size": "usize"}),
            "NodeInfo": (None, {"id": "NodeId"}),
            "DhtCoreEngine": (None, {}),
        },
        "items": [
            {"impl": "KademliaRoutingTable", "fn": "get_bucket_index",
             "spec": _BUCKET_SPEC("node_id.0.0", "verus_node_first_differing_bit"), "loop_count": 1,
             "loops": {0: _BUCKET_LOOP_INV("node_id.0.0")},
             "loop_proofs": {0: _BUCKET_LOOP_PROOF("node_id.0.0")}},
            {"impl": "KademliaRoutingTable", "fn": "get_bucket_index_for_key",
             "spec": _BUCKET_SPEC("key.0", "verus_key_first_differing_bit"), "loop_count": 1,
             "loops": {0: _BUCKET_LOOP_INV("key.0")},
             "loop_proofs": {0: _BUCKET_LOOP_PROOF("key.0")}},
            {"impl": "KBucket", "fn": "new",
             "spec": """
    ensures
        r.nodes@.len() == 0 && r.max_size == max_size, // @C02/kbucket/new_is_empty_with_max_size
"""},
            {"impl": "KademliaRoutingTable", "fn": "new", "loop_count": 1,
             "loops": {0: """
            invariant
                buckets@.len() == i,
                forall|b: int| 0 <= b < i ==> (#[trigger] buckets@[b]).nodes@.len() == 0 && buckets@[b].max_size == k_value,
"""},
             "rewrite": [(r"for _ in 0\.\.KADEMLIA_BUCKET_COUNT", "for i in 0..KADEMLIA_BUCKET_COUNT", "loop variable named so that the invariant can mention it (binder only)"),
                         (r"let mut buckets = Vec::new\(\);", "let mut buckets: Vec<KBucket> = Vec::new();", "type annotation only (inference needs it once the invariant mentions the vector)")],
             "spec": """
    ensures
        r.wf(), // @C02/table/new_table_satisfies_invariant
        r.node_id == node_id,
        forall|q: NodeId| !r.lists(q), // @C02/table/new_table_lists_nobody
        forall|b: int| 0 <= b < 256 ==> (#[trigger] r.buckets@[b]).max_size == k_value, // @C02/table/new_buckets_have_max_size_k
"""},
            {"impl": "KBucket", "fn": "add_node",
             "closures": [{"at": r"\|n\|", "params": "|n: &NodeInfo|", "ret": "bool", "ensures": "ret == (n.id == node.id)"}],
             "rewrite": [_ANYHOW_EARLY,
                         (r"self\s*\.nodes\s*\.iter_mut\(\)\s*\.find\(", "verif_iter_mut_find(&mut self.nodes, ", "`v.iter_mut().find(p)` renamed to a shim fn standing for that chain (contract: first element satisfying p, documented std behaviour); the closure stays in place"),
                         (r"\}\)\s*\{\n\s*\*existing = node;", "}, Ghost(|n: NodeInfo| n.id == node.id)) {\n            *existing = node;", "ghost predicate argument of the shim (specification only)")],
             "spec": """
    ensures
        kb_add_post(*old(self), *final(self), node, r.is_ok()), // @C02/kbucket/known_peer_refreshed_in_place_unknown_appended_if_room_else_refused
"""},
            {"impl": "KBucket", "fn": "remove_node",
             "closures": [{"at": r"\|n\|", "params": "|n: &NodeInfo|", "ret": "bool", "ensures": "ret == (n.id != *node_id)"}],
             "rewrite": [(r"&n\.id != node_id", "n.id != *node_id", "comparison of two references written as comparison of the referents (`impl PartialEq<&B> for &A` delegates to the referents)"),
                         (r"self\s*\.nodes\s*\.retain\(", "verif_retain(&mut self.nodes, ", "`v.retain(p)` renamed to a shim fn standing for that call (contract: keeps exactly the elements satisfying p, in order)"),
                         (r"\}\);", "}, Ghost(|n: NodeInfo| n.id != *node_id));", "ghost predicate argument of the shim (specification only)")],
             "spec": """
    ensures
        kb_remove_post(*old(self), *final(self), *node_id), // @C02/kbucket/exactly_the_entries_with_another_id_remain_in_order
"""},
            {"impl": "KBucket", "fn": "get_nodes",
             "spec": """
    ensures
        r@ == self.nodes@, // @C02/kbucket/get_nodes_returns_exactly_the_entries
"""},
            {"impl": "KademliaRoutingTable", "fn": "find_closest_nodes", "desugar": ["let_chains"], "loop_count": 3,
             "rewrite": [
                 (r"\.filter\(\|b\| \*b < KADEMLIA_BUCKET_COUNT\)",
                  ".filter(|b: &usize| -> (ret: bool) ensures ret == (*b < KADEMLIA_BUCKET_COUNT) { *b < KADEMLIA_BUCKET_COUNT })",
                  "closure given parameter/return types and an `ensures` restating its body (specification only)"),
                 (r"for node in self\.buckets\[", "for node in it: self.buckets[", "ghost iterator binder `it:` so the invariant can mention the loop position (binder only)"),
             ],
             "loops": {
                 0: """
            invariant
                self.wf(), 0 <= target_bucket < 256,
                all_origin(self, key, candidates@, target_bucket as int, offset as int, 0, -1, 0),
                all_covered(self, candidates@, target_bucket as int, offset as int, 0, -1, 0),
                ids_distinct(candidates@),
""",
                 1: """
                    invariant
                        self.wf(), 0 <= target_bucket < 256, 0 <= offset < 256, bucket_above == target_bucket + offset, bucket_above < 256,
                        all_origin(self, key, candidates@, target_bucket as int, offset as int, 0, bucket_above as int, it.index@),
                        all_covered(self, candidates@, target_bucket as int, offset as int, 0, bucket_above as int, it.index@),
                        ids_distinct(candidates@),
""",
                 2: """
                    invariant
                        self.wf(), 0 <= target_bucket < 256, 0 < offset < 256, bucket_below == target_bucket - offset,
                        all_origin(self, key, candidates@, target_bucket as int, offset as int, 1, bucket_below as int, it.index@),
                        all_covered(self, candidates@, target_bucket as int, offset as int, 1, bucket_below as int, it.index@),
                        ids_distinct(candidates@),
""",
             },
             "before_loop": {
                 1: "proof { lemma_rebase(self, key, candidates@, target_bucket as int, offset as int, 0, bucket_above as int); }",
                 2: "proof { lemma_rebase(self, key, candidates@, target_bucket as int, offset as int, 1, bucket_below as int); }",
             },
             "after_loop": {
                 1: "proof { lemma_stage(self, key, candidates@, target_bucket as int, offset as int, 0, bucket_above as int, self.buckets@[bucket_above as int].nodes@.len() as int, 1, offset as int); }",
                 2: "proof { lemma_stage(self, key, candidates@, target_bucket as int, offset as int, 1, bucket_below as int, self.buckets@[bucket_below as int].nodes@.len() as int, 0, offset as int + 1); }",
             },
             "end_of_loop_body": {
                 0: "proof { if !(offset > 0 && target_bucket >= offset) { lemma_stage(self, key, candidates@, target_bucket as int, offset as int, 1, -1, 0, 0, offset as int + 1); } }",
             },
             "insert_after": [
                 (r"let distance = node\.id\.0\.distance\(key\);", 0, """proof {
                        let c = (*node, distance);
                        assert(cand_ok(self, key, c, bucket_above as int, it.index@));
                        lemma_push(self, key, candidates@, c, target_bucket as int, offset as int, 0, bucket_above as int, it.index@);
                    }"""),
                 (r"let distance = node\.id\.0\.distance\(key\);", 1, """proof {
                        let c = (*node, distance);
                        assert(cand_ok(self, key, c, bucket_below as int, it.index@));
                        lemma_push(self, key, candidates@, c, target_bucket as int, offset as int, 1, bucket_below as int, it.index@);
                    }"""),
             ],
             "insert_before": [
                 (r"if offset > 0", None, "proof { if !(target_bucket + offset < 256) { lemma_stage(self, key, candidates@, target_bucket as int, offset as int, 0, -1, 0, 1, offset as int); } }"),
             ],
             "outline_tail": {
                 "start": r"candidates\.sort_by\(",
                 "expect_sha": "7a4dcdbf715f61b4", "fn": "verif_sorted_prefix", "params": "candidates: Vec<(NodeInfo, [u8; 32])>, count: usize", "ret": "Vec<NodeInfo>",
                 "prelude": "    let mut candidates = candidates;",
                 "spec": "    ensures tail_post(candidates@, count, r@)",
                 "call": """let ghost cs = candidates@;
        let r = verif_sorted_prefix(candidates, count);
        proof { lemma_fcn_final(self, key, cs, target_bucket as int, count, r@); }
        r""",
             },
             "spec": """
    requires
        self.wf(),
    ensures
        fcn_post(self, key, count, r@), // @C02/fcn/answer_is_exactly_the_closest_min_n_size_ascending_each_once
"""},
            {"impl": "KademliaRoutingTable", "fn": "add_node",
             "spec": """
    requires
        old(self).buckets@.len() == 256,
    ensures
        table_add_step(old(self), final(self), node, r.is_ok()), // @C02/table/add_step_touches_only_the_bucket_of_the_first_differing_bit
"""},
            {"impl": "KademliaRoutingTable", "fn": "remove_node",
             "spec": """
    requires
        old(self).buckets@.len() == 256,
    ensures
        table_remove_step(old(self), final(self), *node_id), // @C02/table/remove_step_touches_only_the_bucket_of_the_first_differing_bit
"""},
            {"impl": "DhtCoreEngine", "fn": "handle_node_failure", "erase_errors": ["P2PError::"],
             "block": {"name": "verif_critical_section_node_failure", "of": "DhtCoreEngine::handle_node_failure",
                       "sig": "fn verif_critical_section_node_failure(routing: &mut KademliaRoutingTable, failed_node: NodeId) -> Result<()>",
                       "why": "the body of handle_node_failure; both awaits are lock acquisitions (routing table, then the replication manager guard, which is only held)"},
             "drop": [r"let mut routing = self\.routing_table\.write\(\)\.await;\n", r"let _replication = self\.replication_manager\.write\(\)\.await;\n"],
             "insert_after": [(r"routing\.remove_node\(&failed_node\);", None, "proof { lemma_table_remove(old(routing), routing, failed_node); }")],
             "spec": """
    requires
        old(routing).wf(),
    ensures
        final(routing).wf(),
        !final(routing).lists(failed_node), // @C16/route/a_failed_peer_is_no_longer_listed_in_the_routing_table
        forall|q: NodeId| q != failed_node ==> final(routing).lists(q) == old(routing).lists(q), // @C16/route/a_failure_removes_no_other_peer
"""},
            {"impl": "DhtCoreEngine", "fn": "evict_node", "drop_macros": ["tracing::info!", "tracing::warn!"],
             "block": {"name": "verif_critical_section_evict", "of": "DhtCoreEngine::evict_node",
                       "start": r"\{(?=\s*let mut routing = self\.routing_table\.write\(\)\.await;\s*routing\.remove_node)",
                       "sig": "fn verif_critical_section_evict(routing: &mut KademliaRoutingTable, node_id: &NodeId)",
                       "why": "step 1 of evict_node: the block under the routing-table write guard"},
             "drop": [r"let mut routing = self\.routing_table\.write\(\)\.await;\n"],
             "insert_after": [(r"routing\.remove_node\(node_id\);", None, "proof { lemma_table_remove(old(routing), routing, *node_id); }")],
             "spec": """
    requires
        old(routing).wf(),
    ensures
        final(routing).wf(),
        !final(routing).lists(*node_id), // @C16/route/an_evicted_peer_is_no_longer_listed_in_the_routing_table
        forall|q: NodeId| q != *node_id ==> final(routing).lists(q) == old(routing).lists(q), // @C16/route/eviction_removes_no_other_peer
"""},
        ],
        "consts_verbatim": ["KADEMLIA_BUCKET_COUNT"],
        "paired_kani": ["c02_bucket_index_node", "c02_bucket_index_key"],
        "search_test": "verif_search_c02",
        "trusted": [
            "verus external_body: DhtKey::distance ensures is_xor (same contract proved on the real fn by Kani c02_distance_is_xor)",
            "ASSUMED shim contracts: v.iter_mut().find(p) yields a mutable reference to the first element satisfying p; v.retain(p) keeps exactly the elements satisfying p in order (documented std behaviour). KBucket::add_node / remove_node themselves are verified here for buckets of any length; the composed contracts are additionally checked on the real functions with the real std code by Kani c02_kbucket_add_contract_* / c02_kbucket_remove_contract_* (bounded bucket length)",
            "ASSUMED std contract (outlined tail of find_closest_nodes, text moved verbatim into external_body fn verif_sorted_prefix): slice::sort_by with `a.1.cmp(&b.1)` on [u8; 32] keys yields a permutation sorted ascending in lexicographic byte order; into_iter().take(n).map(|(node, _)| node).collect() yields the first min(n, len) first components in order",
            "ASSUMED: Option::filter (assume_specification), derived Clone of NodeInfo returns an equal value, derived PartialEq of NodeId is byte equality",
            "NodeInfo shim keeps only the `id` field (address/last_seen/capacity are not read by the extracted functions)",
        ],
    },
    "live": {
        "property": "C16",
        "src": "src/dht/routing_maintenance/liveness.rs",
        "spec": "verus/live.spec.rs",
        "shims": {
            "NodeLivenessState": (None, {"consecutive_failures": "u32", "total_successes": "u64", "total_failures": "u64"}),
            "MaintenanceConfig": ("src/dht/routing_maintenance/config.rs", {"max_consecutive_failures": "u32"}),
        },
        "items": [
            {"impl": "NodeLivenessState", "fn": "new",
             "drop": [r"last_seen: Instant::now\(\),\n"],
             "spec": """
    ensures
        r.consecutive_failures == 0, // @C16/live/new_starts_at_zero
"""},
            {"impl": "NodeLivenessState", "fn": "record_failure",
             "spec": """
    requires
        old(self).consecutive_failures < u32::MAX,
        old(self).total_failures < u64::MAX,
    ensures
        final(self).consecutive_failures == old(self).consecutive_failures + 1, // @C16/live/failure_increments
        final(self).total_successes == old(self).total_successes, // @C16/live/failure_frame
"""},
            {"impl": "NodeLivenessState", "fn": "record_success",
             "drop": [r"self\.last_seen = Instant::now\(\);\n"],
             "spec": """
    requires
        old(self).total_successes < u64::MAX,
    ensures
        final(self).consecutive_failures == 0, // @C16/live/one_success_clears
        final(self).total_failures == old(self).total_failures, // @C16/live/success_frame
"""},
            {"impl": "NodeLivenessState", "fn": "should_evict",
             "spec": """
    ensures
        r == (self.consecutive_failures >= config.max_consecutive_failures), // @C16/live/evict_iff_max_consecutive_failures
"""},
        ],
        "paired_kani": ["c16_liveness_step"],
        "trusted": [
            "verus precondition: fewer than 2^32 consecutive failures / 2^64 events per peer (otherwise `+= 1` overflows and panics in debug builds)",
            "dropped statements write only NodeLivenessState.last_seen (Instant), which no contract mentions",
        ],
    },
    "seq": {
        "property": "C12",
        "src": "src/monotonic_counter.rs",
        "spec": "verus/seq.spec.rs",
        "shims": {
            "MonotonicCounterSystem": (None, {}),
            "SequenceEntry": (None, {"sequence": "u64", "timestamp": "u64", "message_hash": "[u8; 32]"}),
            "PeerCounter": (None, {"current_sequence": "u64", "last_valid_sequence": "u64",
                                   "sequence_history": "Vec<SequenceEntry>", "last_updated": "u64",
                                   "replay_attempts": "u64", "sequence_gaps": "u64"}),
        },
        "enums": ["SequenceValidationResult"],
        "consts_verbatim": ["MAX_SEQUENCE_HISTORY"],
        "consts": {"MAX_SEQUENCE_AGE": (None, r"Duration::from_secs\(([0-9_]+)\)"),
                   "MAX_SEQUENCE_HISTORY": (None, r"([0-9_]+)")},
        "items": [
            {"impl": "PeerCounter", "fn": "new",
             "spec": """
    ensures
        r.last_valid_sequence == 0, // @C12/seq/new_last_is_zero
        r.sequence_history@.len() == 0, // @C12/seq/new_history_empty
"""},
            {"impl": "MonotonicCounterSystem", "fn": "validate_sequence_internal",
             "rewrite": [(r"MAX_SEQUENCE_AGE\.as_secs\(\)", "@MAX_SEQUENCE_AGE@u64", "Duration const -> its seconds, value re-derived from the const definition")],
             "spec": """
    requires
        peer_counter.last_valid_sequence < u64::MAX,
    ensures
        (r == SequenceValidationResult::Valid) ==> (sequence == peer_counter.last_valid_sequence + 1), // @C12/seq/valid_only_for_next_in_order
        (r == SequenceValidationResult::Valid) ==> !seen(peer_counter, sequence, message_hash), // @C12/seq/valid_never_for_seen
        (sequence <= peer_counter.last_valid_sequence) ==> (r != SequenceValidationResult::Valid), // @C12/seq/old_numbers_never_accepted
        r matches SequenceValidationResult::Gap { expected, received } ==> (expected == peer_counter.last_valid_sequence + 1 && received == sequence && sequence > expected), // @C12/seq/gap_classification
        (r == SequenceValidationResult::Replay) ==> (seen(peer_counter, sequence, message_hash) || sequence <= peer_counter.last_valid_sequence), // @C12/seq/replay_classification
        (sequence == peer_counter.last_valid_sequence + 1 && !seen(peer_counter, sequence, message_hash)) ==> (r == SequenceValidationResult::Valid || r == SequenceValidationResult::FromFuture || r == SequenceValidationResult::TooOld), // @C12/seq/next_in_order_accepted_unless_time_window
"""},
            {"impl": "PeerCounter", "fn": "apply_sequence_update",
             "spec": """
    ensures
        final(self).last_valid_sequence == sequence, // @C12/seq/apply_sets_last
        final(self).current_sequence == sequence, // @C12/seq/apply_sets_current
        final(self).sequence_history@.len() <= old(self).sequence_history@.len() + 1, // @C12/seq/history_grows_by_at_most_one
        old(self).sequence_history@.len() <= @MAX_SEQUENCE_HISTORY@ ==> final(self).sequence_history@.len() <= @MAX_SEQUENCE_HISTORY@, // @C12/seq/history_bounded
        final(self).sequence_history@.last().sequence == sequence && final(self).sequence_history@.last().message_hash == message_hash, // @C12/seq/applied_entry_recorded
        final(self).replay_attempts == old(self).replay_attempts && final(self).sequence_gaps == old(self).sequence_gaps, // @C12/seq/apply_frame
"""},
            {"impl": "MonotonicCounterSystem", "fn": "validate_sequence",
         "block": {"name": "verif_critical_section_validate", "of": "MonotonicCounterSystem::validate_sequence",
                   "start": r"let validation_result = \{",
                   "sig": "fn verif_critical_section_validate(&self, counters: &mut HashMap<UserId, PeerCounter>, user_id: &UserId, sequence: u64, message_hash: [u8; 32], timestamp: u64) -> SequenceValidationResult",
                   "why": "`counters` stands for the map behind the RwLock write guard acquired at the top of the block"},
         "drop": [r"let mut counters = self\.counters\.write\(\)\.map_err\(\|_\| \{\s*P2PError::Storage\(StorageError::LockPoisoned\(\s*\"write lock failed\"\.to_string\(\)\.into\(\),\s*\)\)\s*\}\)\?;\n"],
         "rewrite": [(r"counters\s*\.entry\(user_id\.clone\(\)\)\s*\.or_insert_with\(PeerCounter::new\)", "verif_entry_or_new(counters, user_id.clone())",
                      "callee renamed to a shim fn standing for `map.entry(k).or_insert_with(PeerCounter::new)` (contract: existing value or inserted PeerCounter::new(), assumed)")],
         "spec": """
    requires
        old(counters)@.contains_key(*user_id) ==> old(counters)@[*user_id].last_valid_sequence < u64::MAX,
    ensures
        (r == SequenceValidationResult::Valid) ==> (sequence as int == last_of_peer(old(counters)@, *user_id) + 1
            && !seen_by_peer(old(counters)@, *user_id, sequence, message_hash)), // @C12/system/accepted_only_for_the_next_number_never_for_a_seen_one
        (r == SequenceValidationResult::Valid) ==> last_of_peer(final(counters)@, *user_id) == sequence, // @C12/system/acceptance_is_recorded_under_the_same_lock
        (r != SequenceValidationResult::Valid) ==> (last_of_peer(final(counters)@, *user_id) == last_of_peer(old(counters)@, *user_id)
            && (old(counters)@.contains_key(*user_id) ==> final(counters)@[*user_id] == old(counters)@[*user_id])), // @C12/system/every_other_submission_is_classified_without_changing_state
        others_untouched(old(counters)@, final(counters)@, *user_id), // @C12/system/peers_never_affect_one_another
"""},
        {"impl": "MonotonicCounterSystem", "fn": "batch_update", "loop_count": 1,
         "block": {"name": "verif_critical_section_batch", "of": "MonotonicCounterSystem::batch_update",
                   "start": r"let mut results = Vec::with_capacity\(requests\.len\(\)\);\s*(?://[^\n]*\n\s*)*\{",
                   "sig": "fn verif_critical_section_batch(&self, counters: &mut HashMap<UserId, PeerCounter>, requests: Vec<BatchUpdateRequest>, results: &mut Vec<BatchUpdateResult>)",
                   "why": "`counters` stands for the map behind the RwLock write guard; `requests` / `results` are the enclosing function's locals"},
         "drop": [r"let mut counters = self\.counters\.write\(\)\.map_err\(\|_\| \{\s*P2PError::Storage\(StorageError::LockPoisoned\(\s*\"write lock failed\"\.to_string\(\)\.into\(\),\s*\)\)\s*\}\)\?;\n"],
         "rewrite": [(r"counters\s*\.entry\(request\.user_id\.clone\(\)\)\s*\.or_insert_with\(PeerCounter::new\)", "verif_entry_or_new(counters, request.user_id.clone())",
                      "callee renamed to the entry/or_insert_with shim"),
                     (r"for request in requests", "let ghost reqs = requests@;\n            for request in it: requests", "ghost copy of the request list + ghost iterator binder (specification only)")],
         "loops": {0: """
                invariant
                    reqs == it.seq(), reqs.len() < usize::MAX, below_max(counters@, reqs.len() - it.index@),
                    batch_inv(reqs, results@, counters@, it.index@),
"""},
         "loop_proofs": {0: "let ghost m0 = counters@; let ghost idx = it.index@;"},
         "end_of_loop_body": {0: """proof {
                    let uk = reqs[idx].user_id;
                    assert forall|u: UserId| counters@.contains_key(u) implies (#[trigger] counters@[u]).last_valid_sequence + (reqs.len() - idx - 1) < u64::MAX by {
                        if u != uk { assert(m0.contains_key(u) && counters@[u] == m0[u]); }
                        else {
                            assert(counters@[uk].last_valid_sequence <= pc0.last_valid_sequence + 1);
                            assert(m0.contains_key(uk) ==> pc0 == m0[uk]);
                            assert(!m0.contains_key(uk) ==> pc0.last_valid_sequence == 0);
                        }
                    }
                }"""},
         "insert_after": [(r"let peer_counter = verif_entry_or_new\(counters, request\.user_id\.clone\(\)\);", None, "let ghost pc0 = *peer_counter;")],
         "spec": """
    requires
        old(results)@.len() == 0, below_max(old(counters)@, requests@.len() as int), requests@.len() < usize::MAX,
    ensures
        batch_inv(requests@, final(results)@, final(counters)@, requests@.len() as int),
        forall|i: int, j: int| 0 <= i < j < requests@.len() && (#[trigger] requests@[i]).user_id == (#[trigger] requests@[j]).user_id && requests@[i].sequence == requests@[j].sequence
            ==> !(final(results)@[i].applied && final(results)@[j].applied), // @C12/system/same_peer_and_number_within_one_batch_accepted_at_most_once
"""},
        {"impl": "PeerCounter", "fn": "next_expected_sequence",
             "spec": """
    requires
        self.last_valid_sequence < u64::MAX,
    ensures
        r == self.last_valid_sequence + 1, // @C12/seq/next_expected_is_last_plus_one
"""},
        ],
        "paired_kani": ["c12_validate_internal"],
    "search_test": "verif_search_c12",
        "trusted": [
            "ASSUMED shim contracts: v.iter().any(p) is true iff some element satisfies p; == on [u8; 32] is byte-wise equality; v.retain(p) keeps exactly the elements satisfying p (documented std behaviour). PeerCounter::has_seen_sequence itself is verified here for histories of any length; Kani c12_has_seen_contract re-checks it on the real std code for short histories",
            "verus external_body: current_timestamp() < 2^48 (clock; machine arithmetic on time does not overflow)",
            "verus precondition: last_valid_sequence < u64::MAX (fewer than 2^64 accepted numbers; `last + 1` would overflow)",
            "validate_sequence_internal takes &PeerCounter: that it changes no state is enforced by the Rust type system",
            "block outlining: the critical section of validate_sequence (the block holding the RwLock write guard) is verified as a function of the guarded map; that the guard serialises tasks is the contract of std::sync::RwLock (assumed); the lock-acquisition statement is dropped",
            "preconditions of the batch critical section: the request vector has fewer than usize::MAX elements (true of every Vec of non-zero-sized elements) and every tracked peer has room for batch-length more accepts before u64::MAX (fewer than 2^64 accepts per peer)",
            "ASSUMED shim contract: map.entry(k).or_insert_with(PeerCounter::new) returns the existing value or a freshly inserted PeerCounter::new(); HashMap via vstd (obeys_key_model::<UserId> assumed)",
        ],
    },
}

_ANYHOW = (r"anyhow!\((?:[^()]|\([^()]*\))*\)", "VerifError {}", "error value: the message text of anyhow!(..) is dropped")
_IPDIV_PRE_MUT = """
    requires
        old(self).cfg_ok(),
        forall|k: String| #[trigger] old(self).country_counts@.dom().contains(k) ==> old(self).country_counts@[k] < usize::MAX,
"""

UNITS["ipdiv"] = {
    "property": "C13",
    "src": "src/security.rs",
    "spec": "verus/ipdiv.spec.rs",
    "shims": {
        "IPDiversityConfig": (None, {"max_nodes_per_64": "usize", "max_nodes_per_48": "usize", "max_nodes_per_32": "usize",
                                     "max_nodes_per_ipv4_32": "usize", "max_nodes_per_ipv4_24": "usize",
                                     "max_nodes_per_ipv4_16": "usize", "max_per_ip_cap": "usize", "max_nodes_per_asn": "usize"}),
        "IPAnalysis": (None, {"subnet_64": "Ipv6Addr", "subnet_48": "Ipv6Addr", "subnet_32": "Ipv6Addr", "asn": "Option<u32>",
                              "country": "Option<String>", "is_hosting_provider": "bool", "is_vpn_provider": "bool"}),
        "IPv4Analysis": (None, {"ip_addr": "Ipv4Addr", "subnet_24": "Ipv4Addr", "subnet_16": "Ipv4Addr", "subnet_8": "Ipv4Addr",
                                "asn": "Option<u32>", "country": "Option<String>", "is_hosting_provider": "bool",
                                "is_vpn_provider": "bool"}),
        "IPDiversityEnforcer": (None, {"config": "IPDiversityConfig",
                                       "subnet_64_counts": "LruCache<Ipv6Addr, usize>", "subnet_48_counts": "LruCache<Ipv6Addr, usize>",
                                       "subnet_32_counts": "LruCache<Ipv6Addr, usize>", "ipv4_32_counts": "LruCache<Ipv4Addr, usize>",
                                       "ipv4_24_counts": "LruCache<Ipv4Addr, usize>", "ipv4_16_counts": "LruCache<Ipv4Addr, usize>",
                                       "asn_counts": "LruCache<u32, usize>", "country_counts": "LruCache<String, usize>",
                                       "network_size": "usize"}),
    },
    "enums": ["UnifiedIPAnalysis"],
    "items": [
        {"impl": "IPDiversityEnforcer", "fn": "can_accept_node", "desugar": ["let_chains", "deref_pat"],
         "spec": """
    requires
        self.cfg_ok(),
    ensures
        r == self.v6_below_caps(ip_analysis), // @C13/v6/admitted_iff_every_level_below_its_cap
"""},
        {"impl": "IPDiversityEnforcer", "fn": "add_node", "desugar": ["let_chains", "deref_pat", "ref_pat"], "rewrite": [_ANYHOW],
         "spec": _IPDIV_PRE_MUT + """
    ensures
        r.is_ok() == old(self).v6_below_caps(ip_analysis), // @C13/v6/add_succeeds_iff_every_level_below_its_cap
        r.is_ok() ==> final(self).v6_added(old(self), ip_analysis), // @C13/v6/add_counts_each_level_once_and_touches_no_other_key
        r.is_err() ==> final(self).same_counts(old(self)), // @C13/v6/failed_admission_consumes_none
        final(self).same_settings(old(self)), // @C13/v6/add_leaves_settings
"""},
        {"impl": "IPDiversityEnforcer", "fn": "remove_node", "desugar": ["let_chains", "deref_pat", "ref_pat"],
         "spec": """
    ensures
        final(self).v6_removed(old(self), ip_analysis), // @C13/v6/remove_returns_each_slot_and_touches_no_other_key
        final(self).same_settings(old(self)), // @C13/v6/remove_leaves_settings
"""},
        {"impl": "IPDiversityEnforcer", "fn": "can_accept_ipv4", "desugar": ["let_chains", "deref_pat"],
         "spec": """
    requires
        self.cfg_ok(),
    ensures
        r == self.v4_below_caps(analysis), // @C13/v4/admitted_iff_every_level_below_its_scaled_cap
"""},
        {"impl": "IPDiversityEnforcer", "fn": "add_ipv4", "desugar": ["let_chains", "deref_pat", "ref_pat"], "rewrite": [_ANYHOW],
         "spec": _IPDIV_PRE_MUT + """
    ensures
        r.is_ok() == old(self).v4_below_caps(analysis), // @C13/v4/add_succeeds_iff_every_level_below_its_scaled_cap
        r.is_ok() ==> final(self).v4_added(old(self), analysis), // @C13/v4/add_counts_each_level_once_and_touches_no_other_key
        r.is_err() ==> final(self).same_counts(old(self)), // @C13/v4/failed_admission_consumes_none
        final(self).same_settings(old(self)), // @C13/v4/add_leaves_settings
"""},
        {"impl": "IPDiversityEnforcer", "fn": "remove_ipv4", "desugar": ["let_chains", "deref_pat", "ref_pat"],
         "spec": """
    ensures
        final(self).v4_removed(old(self), analysis), // @C13/v4/remove_returns_each_slot_and_touches_no_other_key
        final(self).same_settings(old(self)), // @C13/v4/remove_leaves_settings
"""},
        {"impl": "IPDiversityEnforcer", "fn": "can_accept_unified",
         "spec": """
    requires
        self.cfg_ok(),
    ensures
        r == (match *analysis { UnifiedIPAnalysis::IPv4(a) => self.v4_below_caps(&a), UnifiedIPAnalysis::IPv6(a) => self.v6_below_caps(&a) }), // @C13/unified/dispatches_to_the_address_family
"""},
        {"impl": "IPDiversityEnforcer", "fn": "add_unified",
         "spec": _IPDIV_PRE_MUT + """
    ensures
        (match *analysis {
            UnifiedIPAnalysis::IPv4(a) => r.is_ok() == old(self).v4_below_caps(&a) && (r.is_ok() ==> final(self).v4_added(old(self), &a)),
            UnifiedIPAnalysis::IPv6(a) => r.is_ok() == old(self).v6_below_caps(&a) && (r.is_ok() ==> final(self).v6_added(old(self), &a)),
        }), // @C13/unified/add_counts_exactly
        r.is_err() ==> final(self).same_counts(old(self)), // @C13/unified/failed_admission_consumes_none
        final(self).same_settings(old(self)), // @C13/unified/add_leaves_settings
"""},
        {"impl": "IPDiversityEnforcer", "fn": "remove_unified",
         "spec": """
    ensures
        (match *analysis {
            UnifiedIPAnalysis::IPv4(a) => final(self).v4_removed(old(self), &a),
            UnifiedIPAnalysis::IPv6(a) => final(self).v6_removed(old(self), &a),
        }), // @C13/unified/remove_returns_each_slot
        final(self).same_settings(old(self)), // @C13/unified/remove_leaves_settings
"""},
        {"impl": "IPDiversityEnforcer", "fn": "set_network_size",
         "spec": """
    ensures
        final(self).network_size == size, // @C13/size/set_network_size_sets_it
        final(self).same_counts(old(self)) && final(self).config == old(self).config, // @C13/size/set_network_size_touches_no_count
"""},
    ],
    "paired_kani": ["c13_v6_can_accept_iff_below_caps", "c13_v4_can_accept_iff_below_caps"],
    "search_test": "verif_search_c13",
    "trusted": [
        "ASSUMED dependency contract: lru::LruCache peek/get/put/pop behave as a finite map below capacity (verus/ipdiv.spec.rs); the lru crate is not verified; eviction at the 50k bound is outside the property's qualifier",
        "ASSUMED: std::cmp::max/min on usize; Option<&T>::copied (assume_specification in verus/ipdiv.spec.rs)",
        "verus external_body: IPDiversityEnforcer::get_per_ip_limit == min(cap, max(1, floor(size*fraction))) with the f64 part uninterpreted (contract proved on the real fn by Kani c13_per_ip_limit_contract)",
        "precondition: configured caps >= 1, max_per_ip_cap <= 2^28 (x10 multiplier does not overflow), country counters < usize::MAX",
        "struct shims omit fields no extracted function touches (geo_provider, reputation_score, enable_geolocation_check, ...); anyhow error values are replaced by a unit error type",
    ],
}

_P2PERR = ["P2PError::"]
UNITS["peerrec"] = {
    "property": "C09",
    "src": "src/peer_record.rs",
    "spec": "verus/peerrec.spec.rs",
    "shims": {
        "UserId": (None, {"hash": "[u8; 32]"}),
        "PeerDHTRecord": (None, {"version": "u8", "user_id": "UserId", "public_key": "MlDsaPublicKey", "sequence_number": "u64",
                                 "name": "Option<String>", "endpoints": "Vec<PeerEndpoint>", "ttl": "u32", "timestamp": "u64",
                                 "signature": "MlDsaSignature"}),
        "SignatureCache": (None, {"cache": "HashMap<Hash, bool>", "max_size": "usize"}),
    },
    "consts_verbatim": ["MAX_ENDPOINTS_PER_PEER", "MAX_TTL_SECONDS"],
    "items": [
        {"impl": "PeerDHTRecord", "fn": "validate_inputs", "erase_errors": _P2PERR,
         "spec": """
    ensures
        r.is_ok() == within_bounds(name, endpoints@.len(), ttl), // @C09/bounds/construction_accepts_exactly_the_documented_bounds
"""},
        {"impl": "PeerDHTRecord", "fn": "create_signable_message", "erase_errors": _P2PERR, "desugar": ["ref_pat"],
         "rewrite": [(r"\.to_be_bytes\(\)", ".verif_to_be_bytes()", "callee renamed to a shim method whose body is the std call and whose contract (big-endian bytes, fixed length, injective) is assumed")],
         "spec": """
    ensures
        r.is_ok() == encodable(self), // @C09/signable/fails_only_when_endpoints_cannot_be_encoded
        r matches Ok(m) ==> m@ == signable(self), // @C09/signable/message_is_the_canonical_encoding_of_every_field
"""},
        {"impl": "PeerDHTRecord", "fn": "verify_signature", "erase_errors": _P2PERR,
         "spec": """
    ensures
        r.is_ok() == verdict(self), // @C09/verify/succeeds_iff_id_derived_from_key_and_signature_covers_this_record
"""},
        {"impl": "PeerDHTRecord", "fn": "content_hash",
         "rewrite": [(r"\.to_be_bytes\(\)", ".verif_to_be_bytes()", "callee renamed to the to_be_bytes shim")],
         "spec": """
    ensures
        r == blake3::hash_of(self.user_id.hash@ + be64(self.sequence_number) + be64(self.timestamp)),
"""},
        {"impl": "SignatureCache", "fn": "new",
         "spec": """
    ensures
        r.inv(), // @C09/cache/new_cache_satisfies_invariant
        r.max_size == max_size,
"""},
        {"impl": "SignatureCache", "fn": "cache_key", "erase_errors": _P2PERR,
         "spec": """
    ensures
        r.is_ok() == encodable(record),
        r matches Ok(h) ==> h == blake3::hash_of(key_material(record)), // @C09/cache/key_covers_signed_fields_and_signature
"""},
        {"impl": "SignatureCache", "fn": "verify_cached", "erase_errors": _P2PERR, "desugar": ["deref_pat"],
         "spec": """
    requires
        old(self).inv(),
    ensures
        final(self).inv(), // @C09/cache/invariant_kept_for_every_capacity_and_eviction_choice
        r.is_ok() == verdict(record), // @C09/cache/cached_verdict_equals_direct_verification
        final(self).max_size == old(self).max_size,
"""},
    ],
    "paired_kani": [],
    "search_test": "verif_search_c09",
    "trusted": [
        "ASSUMED ideal-crypto contracts (verus/peerrec.spec.rs): ml_dsa_verify is a deterministic function of (key, message, signature); BLAKE3 is injective on its input; UserId::from_public_key is a function of the key; postcard::to_stdvec is a deterministic injective encoding; to_be_bytes are fixed-length injective; String::len/as_bytes give the UTF-8 bytes",
        "shim signatures: ml_dsa_verify takes &Vec<u8> instead of &[u8] (the call site passes &Vec via deref coercion); key/signature/endpoint types are opaque",
        "error values P2PError::*(..) are replaced by a unit error (payload/message text dropped); control flow untouched",
        "std::collections::HashMap through vstd's specifications (obeys_key_model assumed for blake3::Hash)",
    ],
}

_LOGMACROS = ["tracing::warn!", "tracing::trace!", "tracing::debug!", "warn!", "debug!", "info!", "trace!"]
_CLOCK = (r"let now = (?:std::time::)?SystemTime::now\(\)\s*\.duration_since\((?:std::time::)?UNIX_EPOCH\)\s*\.map\(\|d\| d\.as_secs\(\)\)\s*\.unwrap_or\(0\);",
          "let now = verif_clock_secs();", "clock acquisition replaced by an external clock function returning an arbitrary reading below 2^62")
UNITS["inbound"] = {
    "property": "C05",
    "src": "src/network.rs",
    "spec": "verus/inbound.spec.rs",
    "shims": {
        "WireMessage": (None, {"protocol": "String", "data": "Vec<u8>", "from": "String", "timestamp": "u64"}),
        "DhtRecord": ("src/placement/dht_records.rs", {}),
        "DhtNetworkManager": ("src/dht_network_manager.rs", {}),
        "TransportHandle": ("src/transport_handle.rs", {}),
        "RequestResponseEnvelope": (None, {"message_id": "String", "is_response": "bool", "payload": "Vec<u8>"}),
    },
    "enums": ["P2PEvent"],
    "consts": {"MAX_RECORD_SIZE": ("src/placement/dht_records.rs", r"([0-9_]+)"),
               "MAX_VALUE_SIZE": ("src/dht_network_manager.rs", r"([0-9_]+)"),
               "MAX_MESSAGE_AGE_SECS": (None, r"([0-9_]+)"), "MAX_FUTURE_SECS": (None, r"([0-9_]+)")},
    "const_items": [("src/placement/dht_records.rs", "MAX_RECORD_SIZE"), ("src/dht_network_manager.rs", "MAX_VALUE_SIZE"),
                    ("src/network.rs", "MAX_MESSAGE_AGE_SECS"), ("src/network.rs", "MAX_FUTURE_SECS")],
    "items": [
        {"fn": "parse_protocol_message", "drop_macros": _LOGMACROS, "rewrite": [_CLOCK],
         "spec": """
    ensures
        r.is_some() ==> decoded::<WireMessage>(bytes@).is_some(), // @C05/frame/surfaced_only_if_it_decodes
        r.is_some() ==> in_window(decoded::<WireMessage>(bytes@).unwrap().timestamp, clock_reading()), // @C05/frame/surfaced_only_within_the_timestamp_window
        r matches Some(P2PEvent::Message { topic, source: src, data }) ==> src@ == source@, // @C05/frame/source_is_the_authenticated_connection_identity
        r matches Some(P2PEvent::Message { topic, source: src, data }) ==> topic == decoded::<WireMessage>(bytes@).unwrap().protocol && data == decoded::<WireMessage>(bytes@).unwrap().data, // @C05/frame/topic_and_payload_come_from_the_frame
        r.is_some() ==> r matches Some(P2PEvent::Message { .. }), // @C05/frame/only_message_events_are_produced
        (decoded::<WireMessage>(bytes@).is_some() && in_window(decoded::<WireMessage>(bytes@).unwrap().timestamp, clock_reading())) ==> r.is_some(), // @C05/frame/in_window_frames_are_surfaced
"""},
        {"impl": "DhtRecord", "fn": "deserialize", "src": "src/placement/dht_records.rs", "erase_errors": ["P2PError::"],
         "spec": """
    ensures
        bytes@.len() > @MAX_RECORD_SIZE@ ==> r.is_err(), // @C05/record/oversized_record_is_refused
        @MAX_RECORD_SIZE@ == 512, // @C05/record/limit_is_512_bytes
        r.is_ok() ==> decoded::<DhtRecord>(bytes@).is_some(), // @C05/record/accepted_only_if_it_decodes
"""},
        {"impl": "DhtRecord", "fn": "serialize", "src": "src/placement/dht_records.rs", "erase_errors": ["P2PError::"],
         "spec": """
    ensures
        r matches Ok(b) ==> b@.len() <= 512, // @C05/record/serialized_record_is_at_most_512_bytes
"""},
        {"impl": "TransportHandle", "fn": "parse_request_envelope", "src": "src/transport_handle.rs",
         "spec": """
    ensures
        r.is_some() == decoded::<RequestResponseEnvelope>(data@).is_some(), // @C05/envelope/yields_a_value_exactly_when_the_bytes_decode
        r matches Some(t) ==> t.0 == decoded::<RequestResponseEnvelope>(data@).unwrap().message_id
            && t.1 == decoded::<RequestResponseEnvelope>(data@).unwrap().is_response
            && t.2 == decoded::<RequestResponseEnvelope>(data@).unwrap().payload, // @C05/envelope/fields_come_from_the_decoded_envelope
"""},
        {"impl": "DhtNetworkManager", "fn": "validate_put_value_size", "src": "src/dht_network_manager.rs",
         "drop_macros": _LOGMACROS, "erase_errors": ["P2PError::"],
         "spec": """
    ensures
        r.is_ok() == (value_len <= 512), // @C05/put/stored_values_are_at_most_512_bytes
"""},
    ],
    "paired_kani": [],
    "search_test": "verif_search_c05",
    "trusted": [
        "ASSUMED dependency contract: postcard::from_bytes / to_stdvec are total functions (value-or-error); that the decoders return normally for every input is not verified (a bounded Kani check of the decoders was not tractable)",
        "the decoder shim's PRECONDITION `len <= decode_limit::<T>()` turns 'refused before decoding' into a proof obligation at the call site (limit 512 for DhtRecord; no limit demanded for WireMessage at this layer)",
        "clock acquisition (SystemTime::now().duration_since(..)) replaced by an external clock function: any reading below 2^62",
        "logging macro statements (tracing/log) dropped; error payloads dropped",
    ],
}

_CL_SHOULD_EVICT = lambda ty: {"at": r"\|s\|", "params": f"|s: {ty}|", "ret": "bool",
                               "ensures": "ret == (s.consecutive_failures >= self.config.max_consecutive_failures)"}
_ENTRY = (r"self\.liveness_states\.entry\(node_id\.clone\(\)\)\.or_default\(\)",
          "verif_entry_or_default(&mut self.liveness_states, node_id.clone())",
          "callee renamed to a shim fn whose body is the std call `m.entry(k).or_default()` and whose contract (existing value or inserted default) is assumed")
_EVICT_FRAME_LT = "final(self).trust_scores@ == old(self).trust_scores@ && final(self).marked_for_eviction@ == old(self).marked_for_eviction@ && final(self).same_config(old(self))"
UNITS["evict"] = {
    "property": "C16",
    "src": "src/dht/routing_maintenance/eviction.rs",
    "spec": "verus/evict.spec.rs",
    "shims": {
        "NodeLivenessState": ("src/dht/routing_maintenance/liveness.rs", {"consecutive_failures": "u32", "total_successes": "u64", "total_failures": "u64"}),
        "MaintenanceConfig": ("src/dht/routing_maintenance/config.rs", {"max_consecutive_failures": "u32", "min_trust_threshold": "f64"}),
        "EvictionManager": (None, {"config": "MaintenanceConfig", "liveness_states": "HashMap<DhtNodeId, NodeLivenessState>",
                                   "trust_scores": "HashMap<DhtNodeId, f64>",
                                   "marked_for_eviction": "HashMap<DhtNodeId, EvictionReason>"}),
    },
    "enums": ["EvictionReason"],
    "expect_text": [("src/dht/routing_maintenance/liveness.rs",
                     r"impl Default for NodeLivenessState \{\s*fn default\(\) -> Self \{\s*Self::new\(\)\s*\}\s*\}",
                     "or_default() inserts NodeLivenessState::new(), whose contract is verified in this unit")],
    "items": [
        {"impl": "NodeLivenessState", "fn": "new", "src": "src/dht/routing_maintenance/liveness.rs",
         "drop": [r"last_seen: Instant::now\(\),\n"],
         "spec": """
    ensures
        r.consecutive_failures == 0 && r.total_successes == 0 && r.total_failures == 0, // @C16/evict/fresh_liveness_state_counts_nothing
"""},
        {"impl": "NodeLivenessState", "fn": "record_failure", "src": "src/dht/routing_maintenance/liveness.rs",
         "spec": """
    requires
        old(self).consecutive_failures < u32::MAX,
        old(self).total_failures < u64::MAX,
    ensures
        final(self).consecutive_failures == old(self).consecutive_failures + 1, // @C16/evict/a_failure_adds_one_consecutive_failure
        final(self).total_successes == old(self).total_successes,
        final(self).total_failures == old(self).total_failures + 1,
"""},
        {"impl": "NodeLivenessState", "fn": "record_success", "src": "src/dht/routing_maintenance/liveness.rs",
         "drop": [r"self\.last_seen = Instant::now\(\);\n"],
         "spec": """
    requires
        old(self).total_successes < u64::MAX,
    ensures
        final(self).consecutive_failures == 0, // @C16/evict/a_success_resets_consecutive_failures
        final(self).total_failures == old(self).total_failures,
"""},
        {"impl": "NodeLivenessState", "fn": "should_evict", "src": "src/dht/routing_maintenance/liveness.rs",
         "spec": """
    ensures
        r == (self.consecutive_failures >= config.max_consecutive_failures), // @C16/evict/state_evictable_iff_max_consecutive_failures
"""},
        {"impl": "EvictionManager", "fn": "new",
         "spec": """
    ensures
        r.liveness_states@ == Map::<DhtNodeId, NodeLivenessState>::empty() && r.trust_scores@ == Map::<DhtNodeId, f64>::empty()
            && r.marked_for_eviction@ == Map::<DhtNodeId, EvictionReason>::empty(), // @C16/evict/new_manager_tracks_nobody
        r.config == config,
        r.reports_none(), // @C16/evict/new_manager_has_no_candidates
"""},
        {"impl": "EvictionManager", "fn": "record_failure", "rewrite": [_ENTRY],
         "spec": """
    requires
        old(self).liveness_states@.contains_key(*node_id) ==> old(self).liveness_states@[*node_id].consecutive_failures < u32::MAX
            && old(self).liveness_states@[*node_id].total_failures < u64::MAX,
    ensures
        final(self).cf_of(*node_id) == old(self).cf_of(*node_id) + 1, // @C16/evict/failure_counts_one_more_consecutive_failure
        final(self).liveness_states@.contains_key(*node_id),
        final(self).liveness_only_at(old(self), *node_id), // @C16/evict/failure_touches_no_other_peer
        """ + _EVICT_FRAME_LT + """, // @C16/evict/failure_leaves_trust_and_marks
"""},
        {"impl": "EvictionManager", "fn": "record_success", "rewrite": [_ENTRY],
         "spec": """
    requires
        old(self).liveness_states@.contains_key(*node_id) ==> old(self).liveness_states@[*node_id].total_successes < u64::MAX,
    ensures
        final(self).cf_of(*node_id) == 0, // @C16/evict/one_success_clears_consecutive_failures
        final(self).config.max_consecutive_failures >= 1 ==> !final(self).fail_cand(*node_id), // @C16/evict/one_success_clears_failure_based_candidacy
        final(self).liveness_only_at(old(self), *node_id), // @C16/evict/success_touches_no_other_peer
        """ + _EVICT_FRAME_LT + """, // @C16/evict/success_leaves_trust_and_marks
"""},
        {"impl": "EvictionManager", "fn": "record_eviction",
         "spec": """
    ensures
        final(self).marked_for_eviction@ == old(self).marked_for_eviction@.insert(*node_id, reason), // @C16/evict/explicit_rejection_is_recorded_for_that_peer_only
        final(self).candidate(*node_id), // @C16/evict/explicitly_rejected_peer_is_a_candidate
        final(self).liveness_states@ == old(self).liveness_states@ && final(self).trust_scores@ == old(self).trust_scores@ && final(self).same_config(old(self)), // @C16/evict/mark_leaves_liveness_and_trust
"""},
        {"impl": "EvictionManager", "fn": "update_trust_score",
         "spec": """
    ensures
        final(self).trust_scores@ == old(self).trust_scores@.insert(*node_id, score), // @C16/evict/trust_update_sets_that_peers_score_only
        final(self).liveness_states@ == old(self).liveness_states@ && final(self).marked_for_eviction@ == old(self).marked_for_eviction@ && final(self).same_config(old(self)), // @C16/evict/trust_update_leaves_liveness_and_marks
"""},
        {"impl": "EvictionManager", "fn": "get_trust_score",
         "spec": """
    ensures
        r == (if self.trust_scores@.contains_key(*node_id) { Some(self.trust_scores@[*node_id]) } else { None::<f64> }), // @C16/evict/trust_score_reported
"""},
        {"impl": "EvictionManager", "fn": "get_consecutive_failures",
         "closures": [{"at": r"\|s\|", "params": "|s: &NodeLivenessState|", "ret": "u32", "ensures": "ret == s.consecutive_failures"}],
         "spec": """
    ensures
        r as int == self.cf_of(*node_id), // @C16/evict/failure_count_reported
"""},
        {"impl": "EvictionManager", "fn": "should_evict", "closures": [_CL_SHOULD_EVICT("&NodeLivenessState")],
         "spec": """
    ensures
        r == self.fail_cand(*node_id), // @C16/evict/failure_candidate_iff_max_consecutive_failures
"""},
        {"impl": "EvictionManager", "fn": "should_evict_for_trust",
         "closures": [{"at": r"\|&score\|", "params": "|score_r: &f64|", "ret": "bool", "prelude": "let score = *score_r;",
                       "ensures": "ret == f64_lt(*score_r, self.config.min_trust_threshold)"}],
         "spec": """
    ensures
        r == self.trust_cand(*node_id), // @C16/evict/trust_candidate_iff_score_below_threshold
"""},
        {"impl": "EvictionManager", "fn": "get_eviction_reason", "desugar": ["deref_pat"],
         "closures": [_CL_SHOULD_EVICT("&&NodeLivenessState"),
                      {"at": r"\|&&s\|", "params": "|s_r: &&f64|", "ret": "bool", "prelude": "let s = **s_r;",
                       "ensures": "ret == f64_lt(**s_r, self.config.min_trust_threshold)"}],
         "rewrite": [(r'format!\("\{:\.4\}", score\)', "verif_format_score(score)",
                      "format! call moved into a shim fn whose body is that call (rendered text is not part of any obligation)")],
         "spec": """
    ensures
        r.is_some() == self.candidate(*node_id), // @C16/evict/candidate_exactly_when_failures_or_low_trust_or_rejected
        r matches Some(reason) ==> self.reason_ok(*node_id, reason), // @C16/evict/reason_precedence_rejection_then_failures_then_trust
"""},
        {"impl": "EvictionManager", "fn": "remove_node",
         "spec": """
    ensures
        final(self).liveness_states@ == old(self).liveness_states@.remove(*node_id)
            && final(self).trust_scores@ == old(self).trust_scores@.remove(*node_id)
            && final(self).marked_for_eviction@ == old(self).marked_for_eviction@.remove(*node_id), // @C16/evict/forget_clears_that_peer_only
        !final(self).candidate(*node_id), // @C16/evict/forgotten_peer_is_no_candidate
        final(self).same_config(old(self)),
"""},
        {"impl": "EvictionManager", "fn": "get_eviction_candidates", "loop_count": 3, "desugar": ["continue"],
         "rewrite": [
             (r"let mut candidates = Vec::new\(\);", "let mut candidates: Vec<(DhtNodeId, EvictionReason)> = Vec::new();", "type annotation only"),
             (r"for \(node_id, reason\) in &self\.marked_for_eviction", """let verif_it0 = self.marked_for_eviction.iter();
        proof {
            let s0 = verif_it0.remaining();
            let m0 = self.marked_for_eviction@;
            assert(s0.no_duplicates());
            assert(forall|i: int| 0 <= i < s0.len() ==> m0.contains_key(*(#[trigger] s0[i]).0) && m0[*s0[i].0] == *s0[i].1);
            assert(forall|k: DhtNodeId| m0.contains_key(k) ==> exists|i: int| 0 <= i < s0.len() && *(#[trigger] s0[i]).0 == k);
            assert(forall|i: int, j: int| 0 <= i < j < s0.len() ==> *(#[trigger] s0[i]).0 != *(#[trigger] s0[j]).0);
        }
        for (node_id, reason) in it: verif_it0""",
              "`for .. in &map` written as `for .. in map.iter()` (IntoIterator for &HashMap is defined as iter(); vstd specifies iter()); ghost iterator binder"),
             (r"for node_id in self\.liveness_states\.keys\(\)", "let verif_it1 = self.liveness_states.keys();\n        proof { lemma_keys_facts(self.liveness_states@, verif_it1.remaining()); }\n        for node_id in it: verif_it1",
              "iterator expression bound to a local before the loop (a for-loop evaluates it once either way) so that a proof block can name it; ghost iterator binder"),
             (r"for node_id in self\.trust_scores\.keys\(\)", "let verif_it2 = self.trust_scores.keys();\n        proof { lemma_keys_facts(self.trust_scores@, verif_it2.remaining()); }\n        for node_id in it: verif_it2",
              "iterator expression bound to a local before the loop; ghost iterator binder"),
         ],
         "loops": {
             0: """
            invariant
                cands_sound(self, candidates@),
                forall|i: int| 0 <= i < it.seq().len() ==> self.marked(*(#[trigger] it.seq()[i]).0) && self.marked_for_eviction@[*it.seq()[i].0] == *it.seq()[i].1,
                forall|i: int, j: int| 0 <= i < j < it.seq().len() ==> *(#[trigger] it.seq()[i]).0 != *(#[trigger] it.seq()[j]).0,
                forall|k: DhtNodeId| self.marked(k) ==> exists|i: int| 0 <= i < it.seq().len() && *(#[trigger] it.seq()[i]).0 == k,
                forall|x: DhtNodeId| listed(candidates@, x) <==> exists|i: int| 0 <= i < it.index@ && *(#[trigger] it.seq()[i]).0 == x,
""",
             1: """
            invariant
                cands_sound(self, candidates@),
                forall|i: int| 0 <= i < it.seq().len() ==> self.liveness_states@.contains_key(*(#[trigger] it.seq()[i])),
                forall|i: int, j: int| 0 <= i < j < it.seq().len() ==> *(#[trigger] it.seq()[i]) != *(#[trigger] it.seq()[j]),
                forall|k: DhtNodeId| self.liveness_states@.contains_key(k) ==> exists|i: int| 0 <= i < it.seq().len() && *(#[trigger] it.seq()[i]) == k,
                forall|x: DhtNodeId| listed(candidates@, x) <==> (self.candidate(x) && (pass_of(self, x) == 0
                    || (pass_of(self, x) == 1 && exists|i: int| 0 <= i < it.index@ && *(#[trigger] it.seq()[i]) == x))),
""",
             2: """
            invariant
                cands_sound(self, candidates@),
                forall|i: int| 0 <= i < it.seq().len() ==> self.trust_scores@.contains_key(*(#[trigger] it.seq()[i])),
                forall|i: int, j: int| 0 <= i < j < it.seq().len() ==> *(#[trigger] it.seq()[i]) != *(#[trigger] it.seq()[j]),
                forall|k: DhtNodeId| self.trust_scores@.contains_key(k) ==> exists|i: int| 0 <= i < it.seq().len() && *(#[trigger] it.seq()[i]) == k,
                forall|x: DhtNodeId| listed(candidates@, x) <==> (self.candidate(x) && (pass_of(self, x) <= 1
                    || (pass_of(self, x) == 2 && exists|i: int| 0 <= i < it.index@ && *(#[trigger] it.seq()[i]) == x))),
""",
         },
         "insert_before": [
             (r"candidates\.push\(", 0, """let ghost c0 = candidates@;
            proof {
                lemma_listed_push(c0, (*node_id, *reason));
                assert(!listed(c0, *node_id));
                lemma_sound_push(self, c0, (*node_id, *reason));
            }"""),
             (r"candidates\.push\(", 1, """let ghost c0 = candidates@;
                proof {
                    lemma_listed_push(c0, (*node_id, reason));
                    assert(!listed(c0, *node_id));
                    lemma_sound_push(self, c0, (*node_id, reason));
                }"""),
             (r"candidates\.push\(", 2, """let ghost c0 = candidates@;
                proof {
                    lemma_listed_push(c0, (*node_id, reason));
                    assert(!listed(c0, *node_id));
                    lemma_sound_push(self, c0, (*node_id, reason));
                }"""),
         ],
         "insert_after": [
             (r"candidates\.push\(\(node_id\.clone\(\), reason\.clone\(\)\)\);", None, """proof {
                assert(candidates@ == c0.push((*node_id, *reason)));
                assert forall|x: DhtNodeId| listed(candidates@, x) <==> exists|i: int| 0 <= i < it.index@ + 1 && *(#[trigger] it.seq()[i]).0 == x by {
                    if listed(candidates@, x) {
                        if x == *node_id { assert(*it.seq()[it.index@].0 == x); }
                        else { assert(listed(c0, x)); let i = choose|i: int| 0 <= i < it.index@ && *(#[trigger] it.seq()[i]).0 == x; assert(0 <= i < it.index@ + 1); }
                    }
                    if exists|i: int| 0 <= i < it.index@ + 1 && *(#[trigger] it.seq()[i]).0 == x {
                        let i = choose|i: int| 0 <= i < it.index@ + 1 && *(#[trigger] it.seq()[i]).0 == x;
                        if i < it.index@ { assert(listed(c0, x)); }
                    }
                }
            }"""),
         ],
         "spec": """
    ensures
        cands_exact(self, r@), // @C16/evict/candidate_list_is_exactly_the_candidates_each_once_with_the_policy_reason
"""},
    ],
    "paired_kani": [],
    "search_test": "verif_search_c16_evict",
    "trusted": [
        "ASSUMED: std::collections::HashMap through vstd's specifications (obeys_key_model::<DhtNodeId> assumed: Hash/Eq of the id newtype are consistent)",
        "ASSUMED shim contract: HashMap::entry(k).or_default() returns the existing value or a freshly inserted NodeLivenessState::default() (= new(), text checked on every run)",
        "ASSUMED: IEEE-754 `<` on f64 is a deterministic function of its operands (f64_lt); nothing else about floats is used",
        "ASSUMED: derived Clone of DhtNodeId / EvictionReason returns an equal value; Option::filter / Option::copied specifications",
        "format!(\"{:.4}\", score) moved into an external_body shim (returns some String)",
        "verus precondition: fewer than 2^32 consecutive failures / 2^64 events per peer",
        "dropped statements write only NodeLivenessState.last_seen (Instant), which no contract mentions",
    ],
}

_F64_CAST = (r"\b([A-Za-z_][\w\.]*?(?:\.len\(\))?) as f64", r"\1.verif_as_f64()",
             "integer-to-f64 cast renamed to a shim method whose body is the cast (`x as f64`); its result is the function f_of_nat of the value")
_F64_ADD_ASSIGN = (r"\b(\w+) \+= (\w+);", r"\1 = \1 + \2;", "compound assignment `a += b` written as `a = a + b` (definition of += for primitive numbers; Verus' front end panics on f64 `+=`)")
_CGV_RES_FRAME = "final(result).node_id == old(result).node_id && final(result).confirming_regions == old(result).confirming_regions && final(result).used_bft_consensus == old(result).used_bft_consensus"
UNITS["cgv"] = {
    "property": "C15",
    "src": "src/dht/routing_maintenance/close_group_validator.rs",
    "spec": "verus/cgv.spec.rs",
    "preludes": ["verus/float.spec.rs"],
    "shims": {
        "CloseGroupResponse": (None, {"confirms_membership": "bool", "peer_trust_score": "Option<f64>", "peer_region": "Option<String>",
                                      "response_latency": "Duration"}),
        "CloseGroupValidationResult": (None, {"node_id": "DhtNodeId", "is_valid": "bool", "confirmation_ratio": "f64", "weighted_confirmation": "f64",
                                              "confirming_regions": "usize", "failure_reasons": "Vec<CloseGroupFailure>",
                                              "used_bft_consensus": "bool"}),
        "CloseGroupValidatorConfig": (None, {"min_peers_to_query": "usize", "trust_weighted_threshold": "f64", "bft_threshold": "f64",
                                             "min_witness_trust": "f64", "min_regions": "usize"}),
        "CloseGroupValidator": (None, {"config": "CloseGroupValidatorConfig"}),
    },
    "enums": ["CloseGroupFailure"],
    "expect_text": [("src/dht/routing_maintenance/close_group_validator.rs",
                     r"pub fn is_attack_mode\(&self\) -> bool \{\s*self\.attack_mode\.load\(Ordering::Relaxed\)\s*\}",
                     "is_attack_mode is a plain read of the AtomicBool (modelled as a spec value)")],
    "items": [
        {"impl": "CloseGroupValidationResult", "fn": "new",
         "drop": [r"validation_duration: Duration::ZERO,\n", r"validated_at: SystemTime::now\(\),\n"],
         "spec": """
    ensures
        !r.is_valid, // @C15/result/a_fresh_result_is_not_valid
        r.failure_reasons@.len() == 0 && !r.used_bft_consensus && r.node_id == node_id,
"""},
        {"impl": "CloseGroupValidationResult", "fn": "add_failure",
         "spec": """
    ensures
        final(self).is_valid == old(self).is_valid, // @C15/result/recording_a_failure_reason_does_not_change_the_verdict
        final(self).confirmation_ratio == old(self).confirmation_ratio && final(self).weighted_confirmation == old(self).weighted_confirmation
            && final(self).confirming_regions == old(self).confirming_regions && final(self).used_bft_consensus == old(self).used_bft_consensus
            && final(self).node_id == old(self).node_id,
"""},
        {"impl": "CloseGroupValidator", "fn": "validate_trust_weighted", "loop_count": 1,
         "rewrite": [_F64_ADD_ASSIGN, _F64_CAST,
                     (r"for response in responses", "for response in it: responses", "ghost iterator binder (binder only)"),
                     (r"let mut confirmations = 0;", "let mut confirmations: usize = 0;", "integer literal given the type usize (it is only counted up and cast to f64; the inferred i32 would need an overflow precondition)")],
         "loops": {0: """
            invariant
                total_weight == total_w(responses@, it.index@),
                confirming_weight == conf_w(responses@, it.index@),
                confirmations == conf_n(responses@, it.index@),
                0 <= confirmations <= it.index@, it.seq().len() == responses@.len(), it.index@ <= it.seq().len(), responses@.len() <= usize::MAX,
"""},
         "spec": """
    requires
        responses@.len() <= usize::MAX,
    ensures
        final(result).weighted_confirmation == share(responses@), // @C15/normal/weighted_confirmation_is_the_confirming_share_of_witness_trust
        final(result).is_valid == normal_accepts(self, responses@), // @C15/normal/valid_iff_share_reaches_the_threshold
        """ + _CGV_RES_FRAME + """,
"""},
        {"impl": "CloseGroupValidator", "fn": "validate_bft",
         "closures": [
             {"at": r"\|r\|", "occ": 0, "params": "|r: &&CloseGroupResponse|", "ret": "bool", "ensures": "ret == trusted(**r, self.config.min_witness_trust)"},
             {"at": r"\|r\|", "occ": 0, "params": "|r: &&&CloseGroupResponse|", "ret": "bool", "ensures": "ret == r.confirms_membership"},
         ],
         "rewrite": [
             _F64_CAST,
             (r"(?<![\w])responses\s*\.iter\(\)\s*\.filter\(", "verif_filter_collect(responses, ", "iterator chain `xs.iter().filter(p).collect()` renamed to a shim fn whose body is that chain (contract: documented std behaviour); the closure stays in place"),
             (r"\)\s*\.collect\(\);", ", Ghost(|x: CloseGroupResponse| trusted(x, self.config.min_witness_trust)));", "end of the renamed chain + ghost predicate argument (specification only)"),
             (r"trusted_responses\s*\.iter\(\)\s*\.filter\(", "verif_filter_count(&trusted_responses, ", "iterator chain `xs.iter().filter(p).count()` renamed to a shim fn whose body is that chain"),
             (r"\)\s*\.count\(\);", ", Ghost(|x: CloseGroupResponse| x.confirms_membership));", "end of the renamed chain + ghost predicate argument (specification only)"),
         ],
         "spec": """
    requires
        !old(result).is_valid,
    ensures
        final(result).is_valid ==> trusted_of(responses@, self.config.min_witness_trust).len() >= self.config.min_peers_to_query, // @C15/bft/needs_the_minimum_number_of_sufficiently_trusted_witnesses
        final(result).is_valid ==> f_ge(bft_ratio(responses@, self.config.min_witness_trust), self.config.bft_threshold), // @C15/bft/needs_the_configured_fraction_of_trusted_confirmations
        final(result).is_valid ==> !collusion_flag(trusted_of(responses@, self.config.min_witness_trust)), // @C15/bft/collusion_flag_blocks_acceptance
        (trusted_of(responses@, self.config.min_witness_trust).len() >= self.config.min_peers_to_query
            && f_ge(bft_ratio(responses@, self.config.min_witness_trust), self.config.bft_threshold)
            && !collusion_flag(trusted_of(responses@, self.config.min_witness_trust))) ==> final(result).is_valid,
        """ + _CGV_RES_FRAME + """,
"""},
        {"impl": "CloseGroupValidator", "fn": "validate_membership",
         "drop": [r"let start = Instant::now\(\);\n"],
         "drop_all": [(r"result\.validation_duration = start\.elapsed\(\);\n", "writes only CloseGroupValidationResult.validation_duration, which no contract mentions")],
         "closures": [{"at": r"\|trust\|", "params": "|trust: f64|", "ret": "bool", "ensures": "ret == f_lt(trust, self.config.min_witness_trust)"}],
         "spec": """
    requires
        responses@.len() <= usize::MAX,
    ensures
        r.is_valid ==> gates_pass(self, responses@, node_trust_score), // @C15/gates/needs_minimum_answers_and_a_candidate_not_below_minimum_trust
        (self.attack_mode@ && r.is_valid) ==> bft_accepts(self, responses@), // @C15/bft/accepted_only_with_quorum_of_trusted_witnesses_regions_and_no_collusion
        (!self.attack_mode@ && r.is_valid) ==> normal_accepts(self, responses@), // @C15/normal/accepted_only_if_confirming_share_reaches_threshold
        gates_pass(self, responses@, node_trust_score) ==> r.used_bft_consensus == self.attack_mode@, // @C15/mode/attack_mode_uses_bft_consensus
        (self.attack_mode@ && gates_pass(self, responses@, node_trust_score) && bft_accepts(self, responses@)) ==> r.is_valid,
        (!self.attack_mode@ && gates_pass(self, responses@, node_trust_score) && normal_accepts(self, responses@)) ==> r.is_valid,
"""},
    ],
    "paired_kani": [],
    "search_test": "verif_search_c15",
    "trusted": [
        "ASSUMED float prelude (verus/float.spec.rs): IEEE-754 operators on f64 are deterministic total functions of their operands; `x as f64` a function of x",
        "ASSUMED callee contracts: count_confirming_regions == number of distinct known regions among confirming witnesses (HashSet chain, not verified); detect_collusion_indicators == collusion_flag (uninterpreted), false below 3 witnesses (proved on the real fn by Kani c15_collusion_contract_*, bounded); is_attack_mode reads the AtomicBool",
        "ASSUMED shim contracts: xs.iter().filter(p).collect() / .count() yield the elements satisfying p in order / their number (documented std behaviour); the closures themselves are verified",
        "precondition responses.len() <= usize::MAX (true of every Rust slice; Verus does not know it)",
        "struct shims omit fields no extracted function reads (peer_id, received_at, validation_duration, validated_at, ...); statements writing validation_duration dropped",
    ],
}


UNITS["mgr"] = {
    "property": "C02",
    "src": "src/dht_network_manager.rs",
    "spec": "verus/mgr.spec.rs",
    "shims": {
        "DHTNode": (None, {"peer_id": "String", "address": "String", "distance": "Option<Vec<u8>>", "reliability": "f64", "cached_dht_key": "Option<DhtKey>"}),
        "DhtNetworkManager": (None, {}),
        "DhtPeerInfo": (None, {"dht_key": "Key", "addresses": "Vec<Multiaddr>", "is_connected": "bool", "reliability_score": "f64"}),
    },
    "items": [
        {"impl": "DhtNetworkManager", "fn": "compare_node_distance",
         "rewrite": [(r"\.cmp\(&b_key\.distance", ".verif_lex_cmp(&b_key.distance", "callee renamed to a shim method whose body is `<[u8; 32] as Ord>::cmp` (contract: lexicographic byte order, assumed)")],
         "insert_before": [(r"match \(a_key_ref, b_key_ref\)", None, "")],
         "spec": """
    ensures
        r == rank_cmp(a, b, *key), // @C02/reply/nodes_are_ranked_by_ascending_xor_distance_unusable_ids_last
"""},
        {"impl": "DhtNetworkManager", "fn": "filter_response_nodes",
         "closures": [{"at": r"\|node\|", "params": "|node: &DHTNode|", "ret": "bool", "ensures": "ret == (node.peer_id@ != requester_peer_id@)"}],
         "rewrite": [
             (r"candidate_nodes\s*\.into_iter\(\)\s*\.filter\(", "verif_into_filter_collect(candidate_nodes, ", "iterator chain `v.into_iter().filter(p).collect()` renamed to a shim fn whose body is that chain (contract: documented std behaviour); the closure stays in place"),
             (r"\)\s*\.collect\(\)", ", Ghost(|n: DHTNode| n.peer_id@ != requester_peer_id@))", "end of the renamed chain + ghost predicate argument (specification only)"),
         ],
         "spec": """
    ensures
        r@ == candidate_nodes@.filter(|n: DHTNode| n.peer_id@ != requester_peer_id@), // @C02/reply/only_the_requester_is_dropped_order_kept
"""},
    ],
    "paired_kani": [],
    "trusted": [
        "verus external_body: DhtKey::distance ensures is_xor (proved on the real fn by Kani c02_distance_is_xor); DhtKey::from_bytes stores the bytes",
        "ASSUMED: <[u8; 32] as Ord>::cmp is the lexicographic byte order (shim verif_lex_cmp); parse_peer_id_to_key is a function of the peer id string; String != compares the character sequences (vstd)",
        "ASSUMED shim contract: v.into_iter().filter(p).collect() keeps exactly the elements satisfying p, in order (documented std behaviour); the closure itself is verified",
        "DHTNode shim omits address/reliability (not read by the extracted functions)",
    ],
}


UNITS["select"] = {
    "property": "C16",
    "src": "src/dht/trust_peer_selector.rs",
    "spec": "verus/select.spec.rs",
    "preludes": ["verus/float.spec.rs"],
    "shims": {
        "TrustSelectionConfig": (None, {"trust_weight": "f64", "min_trust_threshold": "f64", "exclude_untrusted": "bool"}),
        "TrustAwarePeerSelector": (None, {"config": "TrustSelectionConfig", "storage_config": "TrustSelectionConfig"}),
        "NodeInfo": ("src/dht/core_engine.rs", {"id": "NodeId"}),
    },
    "const_items": [("src/dht/trust_peer_selector.rs", "DISTANCE_DAMPENING_FACTOR")],
    "items": [
        {"impl": "TrustSelectionConfig", "fn": "for_storage",
         "spec": """
    ensures
        r.exclude_untrusted && r.min_trust_threshold == 0.2f64, // @C16/select/storage_configuration_excludes_below_the_0_2_floor
"""},
        {"impl": "TrustAwarePeerSelector", "fn": "compute_score",
         "rewrite": [_F64_CAST, (r"let alpha = config\.trust_weight;", "let alpha = verif_f64(config.trust_weight);",
                                 "f64 field read wrapped in the verified identity fn verif_f64 (trigger-matching workaround, see float prelude)")],
         "spec": """
    ensures
        r == score_of(*key, *node, trust, config),
"""},
        {"impl": "TrustAwarePeerSelector", "fn": "select_peers_with_config",
         "closures": [{"at": r"\|node\|", "occ": 0, "params": "|node: &NodeInfo|", "ret": "Option<Scored>",
                       "ensures": "ret == sel_entry(self, *key, config, *node)"}],
         "rewrite": [
             (r"candidates\s*\.iter\(\)\s*\.filter_map\(", "verif_filter_map_collect(candidates, ", "iterator chain `xs.iter().filter_map(f).collect()` renamed to a shim fn whose body is that chain (contract: documented std behaviour); the closure stays in place"),
             (r"\)\s*\.collect\(\);", ", Ghost(|n: NodeInfo| sel_entry(self, *key, config, n)));", "end of the renamed chain + ghost function argument (specification only)"),
             (r"trust < config\.min_trust_threshold", "trust < verif_f64(config.min_trust_threshold)", "f64 field read wrapped in the verified identity fn verif_f64 (trigger-matching workaround)"),
         ],
         "insert_before": [(r"let trust = trust\.clamp", None, "proof { axiom_f_literals(); axiom_f_order(0.0f64, 0.5f64, 1.0f64); }"),
                           (r"return vec!\[\];", None, "proof { lemma_empty_selection(self, config, candidates@, count, Seq::<NodeInfo>::empty()); }")],
         "outline_tail": {
             "start": r"scored\.sort_by\(",
             "expect_sha": "6775f1e275cfa676", "fn": "verif_sorted_selection", "params": "scored: Vec<Scored>, count: usize", "ret": "Vec<NodeInfo>",
             "prelude": "    let mut scored = scored;",
             "spec": "    ensures tail_post(scored@, count, r@)",
             "call": """let ghost sc = scored@;
        let r = verif_sorted_selection(scored, count);
        proof { lemma_selection(self, *key, config, candidates@, sc, count, r@); }
        r""",
         },
         "spec": """
    ensures
        selection_ok(self, config, candidates@, count, r@), // @C16/select/at_most_count_distinct_candidates_none_below_the_trust_floor
"""},
        {"impl": "TrustAwarePeerSelector", "fn": "select_peers",
         "spec": """
    ensures
        selection_ok(self, &self.config, candidates@, count, r@), // @C16/select/query_selection_uses_the_query_configuration
"""},
        {"impl": "TrustAwarePeerSelector", "fn": "select_storage_peers",
         "spec": """
    ensures
        selection_ok(self, &self.storage_config, candidates@, count, r@), // @C16/select/storage_selection_uses_the_storage_configuration
"""},
    ],
    "paired_kani": [],
    "search_test": "verif_search_c16_select",
    "trusted": [
        "ASSUMED float prelude (IEEE operators as deterministic functions; f64::clamp / is_nan / total_cmp specifications; clamp facts proved by Kani c16_float_clamp_facts)",
        "ASSUMED: the trust provider answers as a function of the node id during one selection; xor_distance is a function of (key, id); DhtKey::distance is byte-wise XOR (Kani c02_distance_is_xor); derived Clone of NodeInfo",
        "ASSUMED shim contract: xs.iter().filter_map(f).collect() yields the Some-results in order; ASSUMED contract of the outlined tail (sort_by permutes and orders by the comparator; into_iter().take(n).map().collect() keeps the first min(n, len) nodes) -- text moved verbatim, pinned by hash",
        "struct shims: TrustAwarePeerSelector's Arc<T> provider is a ghost function; NodeInfo keeps only `id`",
    ],
}

UNITS["ratelim"] = {
    "property": "C14",
    "src": "src/rate_limit.rs",
    "spec": "verus/ratelim.spec.rs",
    "preludes": ["verus/float.spec.rs"],
    "shims": {
        "EngineConfig": (None, {"window": "Duration", "max_requests": "u32", "burst_size": "u32"}),
        "Engine": (None, {"cfg": "EngineConfig"}),
    },
    "items": [
        {"impl": "Engine", "fn": "try_consume_key",
         "block": {"name": "verif_critical_section_key", "of": "Engine::try_consume_key",
                   "sig": "fn verif_critical_section_key(&self, map: &mut LruCache<K, Bucket>, key: &K) -> bool",
                   "why": "`map` stands for the LRU map behind the parking_lot RwLock write guard acquired by the first statement"},
         "drop": [r"let mut map = self\.keyed\.write\(\);\n"],
         "rewrite": [_F64_CAST],
         "spec": """
    ensures
        other_keys_untouched(old(map)@, final(map)@, *key), // @C14/engine/different_keys_never_consume_each_others_budget
        final(map)@.dom().contains(*key),
        old(map)@.dom().contains(*key) ==> bucket_step(old(map)@[*key], self.cfg, final(map)@[*key], r), // @C14/engine/a_known_key_consumes_from_its_own_bucket
        !old(map)@.dom().contains(*key) ==> exists|b0: Bucket| is_fresh(b0, f_of_nat(self.cfg.burst_size as nat)) && bucket_step(b0, self.cfg, final(map)@[*key], r), // @C14/engine/a_new_key_starts_with_the_burst_allowance
"""},
    ],
    "paired_kani": ["c14_try_consume_contract"],
    "search_test": "verif_search_c14",
    "trusted": [
        "block outlining: the critical section of Engine::try_consume_key (statements under the parking_lot RwLock write guard) is verified as a function of the guarded map; the lock-acquisition statement is dropped; that the guard serialises callers is the contract of parking_lot::RwLock (assumed)",
        "ASSUMED dependency contract: lru::LruCache get_mut / put behave as a finite map below the 100k-key capacity (eviction not modelled); Clone of the key type returns an equal value",
        "Bucket::try_consume / Bucket::new are the uninterpreted relations bucket_step / is_fresh here; their arithmetic content is proved on the real functions by Kani (c14_try_consume_contract, c14_bucket_new_contract)",
    ],
}

UNITS["seq"]["items"].append(
        {"impl": "PeerCounter", "fn": "cleanup_old_sequences",
         "closures": [{"at": r"\|entry\|", "params": "|entry: &SequenceEntry|", "ret": "bool", "ensures": "ret == (entry.timestamp >= cutoff_time)"}],
         "rewrite": [(r"self\.sequence_history\s*\.retain\(", "verif_retain(&mut self.sequence_history, ", "`v.retain(p)` renamed to a shim fn standing for that call (contract: keeps exactly the elements satisfying p, in order)"),
                     (r"\}\);", "}, Ghost(|e: SequenceEntry| e.timestamp >= cutoff_time));", "ghost predicate argument of the shim (specification only)")],
         "spec": """
    ensures
        final(self).last_valid_sequence == old(self).last_valid_sequence && final(self).current_sequence == old(self).current_sequence, // @C12/seq/cleanup_keeps_the_high_water_mark
        final(self).sequence_history@ == old(self).sequence_history@.filter(|e: SequenceEntry| e.timestamp >= cutoff_time), // @C12/seq/cleanup_drops_exactly_the_entries_older_than_the_cutoff
"""})

_LOGM2 = ["tracing::warn!", "tracing::trace!", "tracing::debug!", "tracing::info!", "warn!", "debug!", "info!", "trace!"]
UNITS["pending"] = {
    "property": "C04",
    "src": "src/dht_network_manager.rs",
    "spec": "verus/pending.spec.rs",
    "shims": {
        "DhtNetworkMessage": (None, {"message_id": "String", "source": "PeerId", "result": "Option<DhtNetworkResult>"}),
        "DhtOperationContext": (None, {"peer_id": "PeerId", "contacted_nodes": "Vec<PeerId>", "response_tx": "Option<oneshot::Sender<(PeerId, DhtNetworkResult)>>"}),
        "PendingRequest": ("src/network.rs", {"response_tx": "tokio::sync::oneshot::Sender<Vec<u8>>", "expected_peer": "String"}),
        "RequestResponseEnvelope": ("src/network.rs", {"message_id": "String", "is_response": "bool", "payload": "Vec<u8>"}),
    },
    "consts": {"MAX_ACTIVE_REQUESTS": ("src/network.rs", r"([0-9_]+)")},
    "items": [
        {"impl": "DhtNetworkManager", "fn": "handle_dht_response", "drop_macros": _LOGM2, "erase_errors": ["P2PError::"],
         "block": {"name": "verif_critical_section_dht_response", "of": "DhtNetworkManager::handle_dht_response",
                   "sig": "fn verif_critical_section_dht_response(&self, ops: &mut HashMap<String, DhtOperationContext>, message: &DhtNetworkMessage, sender: &PeerId) -> Result<()>",
                   "no_await": True,
                   "why": "`async fn` without any `.await` (checked); `ops` stands for the map behind the std Mutex guard taken by `self.active_operations.lock()`"},
         "drop": [r"let Ok\(mut ops\) = self\.active_operations\.lock\(\) else \{\s*warn!\(\"active_operations mutex poisoned\"\);\s*return Ok\(\(\)\);\s*\};\n"],
         "rewrite": [(r"ops\.get_mut\(message_id\)", "verif_get_mut(ops, message_id)", "callee renamed to a shim fn standing for HashMap::get_mut (contract: documented std behaviour)")],
         "spec": """
    ensures
        others_untouched(old(ops)@, final(ops)@, message.message_id), // @C04/dht/a_reply_never_affects_another_pending_request
        final(ops)@.contains_key(message.message_id) == old(ops)@.contains_key(message.message_id),
        old(ops)@.contains_key(message.message_id) ==> ({
            let c0 = old(ops)@[message.message_id]; let c1 = final(ops)@[message.message_id];
            &&& c1.peer_id == c0.peer_id && c1.contacted_nodes == c0.contacted_nodes
            &&& (c1.response_tx != c0.response_tx) ==> (c0.response_tx.is_some() && c1.response_tx.is_none() && message.result.is_some() && authorized(c0, *sender)) // @C04/dht/completed_only_by_a_reply_with_its_id_from_the_contacted_peer
            &&& (c0.response_tx.is_some() && message.result.is_some() && authorized(c0, *sender)) ==> c1.response_tx.is_none() // @C04/dht/a_matching_reply_consumes_the_waiting_sender_once
        }),
"""},
        {"impl": "TransportHandle", "fn": "start_message_receiving_system", "src": "src/transport_handle.rs", "drop_macros": _LOGM2,
         "block": {"name": "verif_critical_section_rr_reply", "of": "TransportHandle::start_message_receiving_system",
                   "start": r"&& envelope\.is_response\s*\{",
                   "sig": "fn verif_critical_section_rr_reply(reqs: &mut HashMap<String, PendingRequest>, envelope: RequestResponseEnvelope, transport_peer_id: String)",
                   "why": "the `/rr/` reply branch of the receive loop; `reqs` stands for the map behind `active_requests.write().await`"},
         "drop": [r"let mut reqs = active_requests\.write\(\)\.await;\n"],
         "rewrite": [(r"\bcontinue;", "return;", "every exit of the outlined block continues the enclosing receive loop: written as `return` of the outlined fn"),
                     (r"reqs\.get\(&envelope\.message_id\)", "verif_get(reqs, &envelope.message_id)", "callee renamed to the HashMap::get shim"),
                     (r"reqs\.remove\(&envelope\.message_id\)", "verif_remove(reqs, &envelope.message_id)", "callee renamed to the HashMap::remove shim")],
         "spec": """
    ensures
        others_untouched(old(reqs)@, final(reqs)@, envelope.message_id), // @C04/rr/a_reply_never_affects_another_pending_request
        final(reqs)@.contains_key(envelope.message_id) == (old(reqs)@.contains_key(envelope.message_id)
            && old(reqs)@[envelope.message_id].expected_peer@ != transport_peer_id@), // @C04/rr/completed_and_removed_exactly_when_the_id_matches_and_the_origin_is_the_expected_peer
        final(reqs)@.contains_key(envelope.message_id) ==> final(reqs)@[envelope.message_id] == old(reqs)@[envelope.message_id],
"""},
        {"impl": "TransportHandle", "fn": "send_request", "src": "src/transport_handle.rs", "erase_errors": ["P2PError::"],
         "block": {"name": "verif_critical_section_register", "of": "TransportHandle::send_request",
                   "start": r"let started_at = Instant::now\(\);\s*\{",
                   "sig": "fn verif_critical_section_register(reqs: &mut HashMap<String, PendingRequest>, message_id: String, tx: oneshot::Sender<Vec<u8>>, peer_id: &PeerId) -> Result<()>",
                   "append": "Ok(())",
                   "why": "the registration block of send_request (cap check + insert); a `return Err(..)` inside it leaves send_request, normal completion of the block is the appended `Ok(())`"},
         "drop": [r"let mut reqs = self\.active_requests\.write\(\)\.await;\n"],
         "rewrite": [(r"\bMAX_ACTIVE_REQUESTS\b", "@MAX_ACTIVE_REQUESTS@usize", "crate-private const -> its value, re-derived from the const definition on every run"),
                     (r"reqs\.len\(\)", "verif_len(reqs)", "callee renamed to the HashMap::len shim"),
                     (r"reqs\.insert\(", "verif_insert(reqs, ", "callee renamed to the HashMap::insert shim"),
                     (r"peer_id\.to_string\(\)", "verif_to_string(peer_id)", "callee renamed to a shim fn standing for <String as ToString>::to_string (contract: same character sequence)")],
         "spec": """
    ensures
        r.is_ok() == (old(reqs)@.len() < @MAX_ACTIVE_REQUESTS@), // @C04/rr/registration_is_refused_at_the_cap
        r.is_ok() ==> final(reqs)@.len() <= @MAX_ACTIVE_REQUESTS@ && final(reqs)@.contains_key(message_id)
            && final(reqs)@[message_id].expected_peer@ == peer_id@ && others_untouched(old(reqs)@, final(reqs)@, message_id), // @C04/rr/pending_requests_never_exceed_the_cap_and_expect_the_contacted_peer
        r.is_err() ==> final(reqs)@ == old(reqs)@, // @C04/rr/a_refused_request_leaves_nothing_pending
"""},
    ],
    "paired_kani": [],
    "search_test": "verif_search_c04",
    "trusted": [
        "block outlining: three critical sections (handle_dht_response body, /rr/ reply branch, send_request registration block) verified as functions of the guarded maps; lock-acquisition statements dropped; that the guards serialise callers is the contract of std::sync::Mutex / tokio::sync::RwLock (assumed)",
        "ASSUMED shim contracts: HashMap<String, V> get / get_mut / remove / insert / len behave as a finite map; [T]::contains is membership by ==; String ==, clone, to_string preserve the character sequence; oneshot::Sender::send consumes the sender (opaque)",
        "logging macro statements dropped; error payloads dropped; `continue` of the receive loop written as `return` in the outlined /rr/ block; `Ok(())` appended to the registration block",
    ],
}

_AWAIT_GUARDS = [
    (r"self\.close_group_validator\.read\(\)\.await", "validator_g", "lock acquisition `self.close_group_validator.read().await` replaced by the parameter that stands for the guarded object"),
    (r"let mut enforcer = self\.ip_diversity_enforcer\.write\(\)\.await;", "let enforcer = &mut *ip_g;", "lock acquisition replaced by a reborrow of the parameter that stands for the guarded IP diversity enforcer"),
    (r"self\s*\.ip_diversity_enforcer\s*\.write\(\)\s*\.await", "ip_g", "lock acquisition expression replaced by the parameter that stands for the guarded IP diversity enforcer"),
    (r"let mut enforcer = self\.geographic_diversity_enforcer\.write\(\)\.await;", "let enforcer = &mut *geo_g;", "lock acquisition replaced by a reborrow of the parameter that stands for the guarded geographic enforcer"),
    (r"self\s*\.geographic_diversity_enforcer\s*\.write\(\)\s*\.await", "geo_g", "lock acquisition expression replaced by the parameter for the guarded geographic enforcer"),
    (r"let mut routing = self\.routing_table\.write\(\)\.await;", "let routing = &mut *routing_g;", "lock acquisition replaced by a reborrow of the parameter that stands for the guarded routing table"),
]
UNITS["ipdiv"]["shims"]["GeographicDiversityEnforcer"] = ("src/dht/core_engine.rs", {"region_counts": "HashMap<GeographicRegion, usize>", "max_per_region": "usize"})
UNITS["ipdiv"].setdefault("enums_from", []).append(("src/dht/geographic_routing.rs", "GeographicRegion"))
UNITS["ipdiv"]["items"] += [
    {"impl": "GeographicDiversityEnforcer", "fn": "can_accept", "src": "src/dht/core_engine.rs",
     "spec": """
    ensures
        r == (geo_cnt(self.region_counts@, region) < self.max_per_region), // @C13/geo/region_admits_iff_below_its_cap
"""},
    {"impl": "GeographicDiversityEnforcer", "fn": "add", "src": "src/dht/core_engine.rs",
     "rewrite": [(r"\*self\.region_counts\.entry\(region\)\.or_insert\(0\) \+= 1;", "verif_count_inc(&mut self.region_counts, region);", "`*map.entry(k).or_insert(0) += 1` renamed to a shim fn standing for that statement (contract: the count under k grows by one, assumed)")],
     "spec": """
    requires
        geo_cnt(old(self).region_counts@, region) < usize::MAX,
    ensures
        geo_cnt(final(self).region_counts@, region) == geo_cnt(old(self).region_counts@, region) + 1,
        forall|g: GeographicRegion| g != region ==> geo_cnt(final(self).region_counts@, g) == geo_cnt(old(self).region_counts@, g),
        final(self).max_per_region == old(self).max_per_region,
"""},
    {"impl": "GeographicDiversityEnforcer", "fn": "remove", "src": "src/dht/core_engine.rs",
     "rewrite": [(r"self\.region_counts\.get_mut\(&region\)", "verif_geo_get_mut(&mut self.region_counts, &region)", "callee renamed to a shim fn standing for HashMap::get_mut")],
     "spec": """
    ensures
        geo_cnt(final(self).region_counts@, region) == (if geo_cnt(old(self).region_counts@, region) > 0 { geo_cnt(old(self).region_counts@, region) - 1 } else { 0 }),
        forall|g: GeographicRegion| g != region ==> geo_cnt(final(self).region_counts@, g) == geo_cnt(old(self).region_counts@, g),
        final(self).max_per_region == old(self).max_per_region,
"""},
    {"impl": "DhtCoreEngine", "fn": "add_node", "src": "src/dht/core_engine.rs",
     "drop_macros": ["tracing::warn!", "tracing::debug!", "tracing::error!", "tracing::info!"],
     "block": {"name": "verif_add_node_sequential", "of": "DhtCoreEngine::add_node",
               "sig": "fn verif_add_node_sequential(validator_g: &CloseGroupValidator, ip_g: &mut IPDiversityEnforcer, geo_g: &mut GeographicDiversityEnforcer, routing_g: &mut KademliaRoutingTable, node: NodeInfo) -> Result<()>",
               "why": "await erasure: every .await of add_node is a tokio RwLock acquisition; each guarded object became a parameter"},
     "rewrite": _AWAIT_GUARDS + [
         (r"crate::security::UnifiedIPAnalysis", "UnifiedIPAnalysis", "path shortened (the type is declared in this unit)"),
         (r"anyhow::anyhow!\((?:[^()]|\([^()]*\))*\)", "VerifError {}", "error value: the message text of anyhow!(..) is dropped"),
         (r"if let Ok\(socket\) = node\.address\.parse::<SocketAddr>\(\) \{\s*Some\(socket\.ip\(\)\)\s*\} else \{\s*node\.address\.parse::<IpAddr>\(\)\.ok\(\)\s*\}", "if let Some(sip) = verif_parse_socket_ip(&node.address) { Some(sip) } else { verif_parse_ip(&node.address) }", "address parsing (`parse::<SocketAddr>()` / `parse::<IpAddr>()`) renamed to opaque shim fns: some address or none"),
         (r"\.map_err\(\|e\| \{\s*VerifError \{\}\s*\}\)\?;", ".map_err(|e: VerifError| -> (ret: VerifError) { VerifError {} })?;", "closure given parameter/return types (after the logging statement inside it was dropped)"),
     ],
     "spec": """
    requires
        old(ip_g).cfg_ok(), old(ip_g).inv(), old(ip_g).country_room(),
        forall|g: GeographicRegion| geo_cnt(old(geo_g).region_counts@, g) < usize::MAX,
    ensures
        r.is_err() ==> final(ip_g).same_counts(old(ip_g)), // @C13/engine/an_admission_that_fails_part_way_returns_its_ip_diversity_slots
        r.is_err() ==> final(geo_g).same_region_counts(old(geo_g)), // @C13/engine/an_admission_that_fails_part_way_returns_its_region_slot
        final(ip_g).same_settings(old(ip_g)),
"""},
]

UNITS["ipdiv"]["trusted"] += [
    "await erasure (DhtCoreEngine::add_node): every .await in that function is the acquisition of a tokio RwLock guard; each guarded object became a parameter of the extracted sequential body; the four guards are assumed to be independent objects and to serialise callers",
    "ASSUMED opaque callees of add_node: CloseGroupValidator::validate, KademliaRoutingTable::add_node (contract in unit bucket), IPDiversityEnforcer::analyze_unified, GeographicRegion::from_ip, address parsing return some value and touch nothing else; HashMap<GeographicRegion, usize> via vstd (+ entry/or_insert and get_mut shims); std::net::IpAddr opaque",
]

UNITS["seq"]["items"].append(
        {"impl": "MonotonicCounterSystem", "fn": "cleanup_old_sequences", "erase_errors": ["P2PError::"],
         "block": {"name": "verif_critical_section_cleanup", "of": "MonotonicCounterSystem::cleanup_old_sequences",
                   "sig": "fn verif_critical_section_cleanup(&self, counters: &mut HashMap<UserId, PeerCounter>) -> Result<()>",
                   "no_await": True,
                   "why": "`async fn` without any `.await` (checked); `counters` stands for the map behind the std RwLock write guard"},
         "drop": [r"let mut counters = self\.counters\.write\(\)\.map_err\(\|_\| \{\s*P2PError::Storage\(StorageError::LockPoisoned\(\s*\"write lock failed\"\.to_string\(\)\.into\(\),\s*\)\)\s*\}\)\?;\n"],
         "rewrite": [(r"MAX_SEQUENCE_AGE\.as_secs\(\)", "@MAX_SEQUENCE_AGE@u64", "Duration const -> its seconds, value re-derived from the const definition"),
                     (r"for \(_, peer_counter\) in counters\.iter_mut\(\) \{\s*peer_counter\.cleanup_old_sequences\(cutoff_time\);\s*\}", "verif_cleanup_every_peer(counters, cutoff_time);",
                      "the `for .. in counters.iter_mut()` statement (outside the dialect) renamed to a shim fn standing for exactly that statement (ASSUMED contract: applies the verified per-peer cleanup to every value, adds / removes no entry)")],
         "spec": """
    ensures
        marks_kept(old(counters)@, final(counters)@), // @C12/system/cleanup_never_forgets_a_peer_or_its_high_water_mark
"""})

UNITS["cgv"]["pinned_fns"] = [('src/dht/routing_maintenance/close_group_validator.rs', 'CloseGroupValidator', 'count_confirming_regions', '0909b4ea326d9b66', 'distinct known regions among confirming witnesses')]
UNITS["select"]["pinned_fns"] = [('src/dht/trust_peer_selector.rs', None, 'xor_distance', 'e3a3e68252875464', 'function of (key, id); the ranking clauses that depend on its value are exercised by the search only'), ('src/dht/trust_peer_selector.rs', 'TrustAwarePeerSelector', 'get_trust_for_node', '3f136dc965ef5050', "asks the trust provider for the node's id")]
UNITS["mgr"]["pinned_fns"] = [('src/dht_network_manager.rs', 'DhtNetworkManager', 'parse_peer_id_to_key', 'b0ecd280cda1b8fa', 'a function of the peer id string')]

UNITS["seq"]["items"].insert(1,
        {"impl": "PeerCounter", "fn": "has_seen_sequence",
         "closures": [{"at": r"\|entry\|", "params": "|entry: &SequenceEntry|", "ret": "bool",
                       "ensures": "ret == (entry.sequence == sequence && message_hash == entry.message_hash)"}],
         "rewrite": [(r"entry\.message_hash == message_hash", "verif_arr_eq(&entry.message_hash, &message_hash)", "`==` on [u8; 32] renamed to a shim fn standing for <[u8; 32] as PartialEq>::eq (contract: byte-wise equality)"),
                     (r"self\.sequence_history\s*\.iter\(\)\s*\.any\(", "verif_iter_any(&self.sequence_history, ", "`v.iter().any(p)` renamed to a shim fn standing for that chain (contract: true iff some element satisfies p); the closure stays in place"),
                     (r"&message_hash\)\s*\}\s*\)", "&message_hash) }, Ghost(|e: SequenceEntry| e.sequence == sequence && e.message_hash == message_hash))", "ghost predicate argument of the shim (specification only)")],
         "spec": """
    ensures
        r == seen(self, sequence, message_hash), // @C12/seq/seen_iff_an_entry_has_the_same_number_and_hash
"""})

# --- DhtCoreEngine::handle_request (await-erased) + DataStore::{put, get}: request dispatch under contract (C02 reply shape, C05 value cap)
UNITS["bucket"].setdefault("enums_from", [])
UNITS["bucket"]["enums_from"] += [("src/dht/network_integration.rs", "DhtMessage"), ("src/dht/network_integration.rs", "DhtResponse"), ("src/dht/network_integration.rs", "ErrorCode")]
UNITS["bucket"]["consts_verbatim"] = list(UNITS["bucket"].get("consts_verbatim", [])) + ["K", "MAX_DHT_VALUE_SIZE", "MAX_FIND_NODE_COUNT"]
UNITS["bucket"]["shims"]["DhtCoreEngine"] = (None, {"node_id": "NodeId"})
UNITS["bucket"]["shims"]["DhtRequestWrapper"] = (None, {"id": "String", "message": "DhtMessage"})
UNITS["bucket"]["shims"]["DhtResponseWrapper"] = (None, {"id": "String", "response": "DhtResponse"})
UNITS["bucket"]["shims"]["DataStore"] = (None, {"data": "HashMap<DhtKey, Vec<u8>>", "metadata": "HashMap<DhtKey, DataMetadata>"})
UNITS["bucket"]["shims"]["DataMetadata"] = (None, {"_size": "usize", "_stored_at": "SystemTime", "access_count": "u64", "last_accessed": "SystemTime"})
UNITS["bucket"]["items"] += [
    {"impl": "DataStore", "fn": "put",
     "append": "proof { assert(self@ =~= old(self)@.insert(key, value@)); }",
     "spec": """
    ensures
        final(self)@ == old(self)@.insert(key, value@), // @C05/store/put_stores_exactly_the_given_bytes_under_the_given_key
"""},
    {"impl": "DataStore", "fn": "get",
     "rewrite": [(r"self\.metadata\.get_mut\(key\)", "verif_meta_get_mut(&mut self.metadata, key)", "callee renamed to a shim fn standing for HashMap::get_mut on the metadata map (bookkeeping only: no contract)"),
                 (r"self\.data\.get\(key\)\.cloned\(\)", "verif_cloned(self.data.get(key))", "`.cloned()` renamed to a shim fn standing for Option<&Vec<u8>>::cloned (contract: a copy of the bytes)")],
     "spec": """
    requires
        old(self).counters_below_max(),
    ensures
        final(self)@ == old(self)@, // @C05/store/get_never_changes_the_stored_bytes
        r.is_some() == old(self)@.contains_key(*key), r matches Some(v) ==> v@ == old(self)@[*key], // @C05/store/get_returns_exactly_the_stored_bytes
"""},
]
UNITS["bucket"]["items"].append(
    {"impl": "DhtCoreEngine", "fn": "handle_request",
     "block": {"name": "verif_handle_request_sequential", "of": "DhtCoreEngine::handle_request",
               "sig": "fn verif_handle_request_sequential(&self, data_store_g: &mut DataStore, routing_g: &KademliaRoutingTable, request_wrapper: DhtRequestWrapper) -> DhtResponseWrapper",
               "why": "await erasure: every .await of handle_request is a tokio RwLock acquisition (data store, routing table); each guarded object became a parameter"},
     "rewrite": [
         (r"self\s*\.data_store\s*\.write\(\)\s*\.await", "data_store_g", "lock acquisition expression replaced by the parameter that stands for the guarded data store"),
         (r"let routing = self\.routing_table\.read\(\)\.await;", "let routing = routing_g;", "lock acquisition replaced by the parameter that stands for the guarded routing table (read guard)", "optional"),
         (r"self\.(select_query_peers|select_storage_peers)\((\w+), (\w+)\)\.await", r"self.verif_\1_sequential(routing_g, \2, \3)", "call of the engine's own async selection helper renamed to its await-erased form verified in this unit (it takes the routing-table guard itself: the guarded table is passed on)", "optional"),
         (r"crate::dht::network_integration::ErrorCode::", "ErrorCode::", "path shortened (the enum is declared in this unit)"),
         (r"format!\(\s*\"Value too large: \{\} bytes \(max: \{\} bytes\)\",\s*value\.len\(\),\s*MAX_DHT_VALUE_SIZE\s*\)", "verif_error_text()", "error message text (format!) moved into an opaque shim: not part of any obligation"),
         (r"\"Unsupported message type\"\.to_string\(\)", "verif_error_text()", "error message text moved into an opaque shim"),
     ],
     "spec": """
    requires
        routing_g.wf(),
        old(data_store_g).counters_below_max(),
    ensures
        r.id == request_wrapper.id,
        request_wrapper.message matches DhtMessage::FindNode { target, count } ==> (r.response matches DhtResponse::FindNodeReply { nodes, distances }
            && fcn_post(routing_g, &target, (if count <= 20 { count } else { 20usize }), nodes@) && nodes@.len() <= 20), // @C02/reply/find_node_reply_is_the_closest_min_count_20_entries_never_more_than_the_cap
        request_wrapper.message matches DhtMessage::FindNode { target, count } ==> (r.response matches DhtResponse::FindNodeReply { nodes, distances } && nodes@.len() <= 20), // @C05/request/a_find_node_reply_never_names_more_than_20_nodes_whatever_count_was_asked
        request_wrapper.message matches DhtMessage::FindValue { key } ==> (r.response matches DhtResponse::FindValueReply { value, nodes }
            && (old(data_store_g)@.contains_key(key) ==> (value matches Some(v) && v@ == old(data_store_g)@[key]) && nodes@.len() == 0)
            && (!old(data_store_g)@.contains_key(key) ==> value.is_none() && fcn_post(routing_g, &key, 8usize, nodes@) && nodes@.len() <= 8)), // @C02/reply/find_value_reply_names_at_most_k_closest_entries
        request_wrapper.message matches DhtMessage::Store { key, value, ttl } ==> (
            (value@.len() > 512 ==> r.response is Error && final(data_store_g)@ == old(data_store_g)@) // @C05/request/a_stored_value_over_512_bytes_is_refused_and_never_enters_the_store
            && (value@.len() <= 512 ==> final(data_store_g)@ == old(data_store_g)@.insert(key, value@))),
        !(request_wrapper.message is Store) ==> final(data_store_g)@ == old(data_store_g)@, // @C05/request/only_a_store_request_changes_the_store
        request_wrapper.message matches DhtMessage::Retrieve { key, consistency } ==> r.response matches DhtResponse::RetrieveReply { value }
            && value.is_some() == old(data_store_g)@.contains_key(key) && (value matches Some(v) ==> v@ == old(data_store_g)@[key]), // @C05/request/retrieve_returns_exactly_the_stored_bytes_or_nothing
"""})

# --- which properties each function of the shared `bucket` unit serves = whose obligations depend on it (closed under
# calls). lib/verus_run.py extracts, per property, only the items that serve it; `tags_by_owner`: the tagged clauses of a
# top-level function on which nothing else depends are reported only by the property named in the tag.
_C05_DEPS = {"verif_handle_request_sequential", "put", "get", "find_closest_nodes", "get_bucket_index_for_key", "get_nodes"}
for _it in UNITS["bucket"]["items"]:
    _nm = (_it.get("block") or {}).get("name") or _it["fn"]
    if _nm in ("verif_critical_section_node_failure", "verif_critical_section_evict"):
        _it["serves"] = ["C16"]
    elif _nm == "verif_handle_request_sequential":
        _it["serves"] = ["C02", "C05"]
        _it["tags_by_owner"] = True
    elif _it.get("impl") == "DataStore":
        _it["serves"] = ["C02", "C05"]
        if _nm == "put":
            _it["tags_by_owner"] = True
    elif _nm == "find_closest_nodes":
        _it["serves"] = ["C02", "C05", "C16"]
    else:
        _it["serves"] = ["C02", "C16"] + (["C05"] if _nm in _C05_DEPS else [])
UNITS["bucket"]["search_tests"] = {"C02": "verif_search_c02", "C05": "verif_search_reqh_c05", "C16": "verif_search_c16_route"}  # the filters are prefixes: "verif_search_c02" also runs verif_search_c02_reply, "verif_search_c16_route" also runs verif_search_c16_route_closest

# ---------------------------------------------------------------------------------------------
# unit keystore (C18): password gating of the encrypted key store, await-erased
# ---------------------------------------------------------------------------------------------
_KS_LOCK_ERR = r"\.map_err\(\|_\| \{\s*VerifError \{\}\s*\}\)\?"
_KS_STATS_BLOCK = r"// Update statistics\s*\{(?:[^{}]|\{[^{}]*\})*\}\n"
_O = "optional"
# rewrites that apply wherever the construct occurs in one of the four functions
_KS_RW = [
    (r"self\.key_cache\.read\(\)" + _KS_LOCK_ERR, "&*key_cache_g", "lock acquisition `self.key_cache.read()` (+ poisoned-lock error) replaced by the parameter that stands for the guarded cache", _O),
    (r"self\.key_cache\.write\(\)" + _KS_LOCK_ERR, "&mut *key_cache_g", "lock acquisition `self.key_cache.write()` (+ poisoned-lock error) replaced by the parameter that stands for the guarded cache", _O),
    (r"if let Ok\(mut cache\) = self\.key_cache\.write\(\) \{", "{ let cache = &mut *key_cache_g;", "lock acquisition `if let Ok(mut cache) = self.key_cache.write()` replaced by the parameter that stands for the guarded cache (ASSUMED: the lock is not poisoned; with a poisoned lock every cache access of retrieve fails)", _O),
    (r"\bcache\.insert\(", "verif_insert(cache, ", "callee renamed to the HashMap::insert shim", _O),
    (r"\bcache\.clear\(\)", "verif_clear(cache)", "callee renamed to the HashMap::clear shim", _O),
    (r"\bcache\.get\(&(\w+)\)", r"verif_get(cache, &\1)", "callee renamed to the HashMap::get shim", _O),
    (r"\bcache\.get\((\w+)\)", r"verif_get_str(cache, \1)", "callee renamed to the HashMap::get shim (key given as &str)", _O),
    (r"(self\s*\.(?:load_and_decrypt|encrypt_and_store|get_current_salt)\()", r"\1file_g, ", "the store file the async helper reads / replaces became an explicit first argument", _O),
    (r"\.await\b", "", "await erased (every awaited expression in these functions is a call of load_and_decrypt / encrypt_and_store / get_current_salt: any other would leave an unknown callee and the unit undecided)", _O),
    (r"RngCore::fill_bytes\(&mut thread_rng\(\), &mut (\w+)\);", r"verif_fill_random(&mut \1);", "random fill renamed to an opaque shim fn (some bytes)", _O),
    (r"HashMap::new\(\)", "verif_new_map()", "HashMap::new renamed to its shim (empty map)", _O),
    (r"key_data\s*\.master_seeds\s*\.get\(seed_id\)\s*\.ok_or_else\(\|\| \{\s*VerifError \{\}\s*\}\)", "verif_ok_or(verif_get_str(&key_data.master_seeds, seed_id))", "`map.get(&str).ok_or_else(|| err)` renamed to shim fns (HashMap::get through Borrow<str>, Option::ok_or_else)", _O),
    (r"from_entropy\(seed_bytes\)", "from_entropy(seed_bytes.as_slice())", "deref coercion &Vec<u8> -> &[u8] made explicit", _O),
    (r"from_slice\(seed_bytes\)", "from_slice(seed_bytes.as_slice())", "deref coercion &Vec<u8> -> &[u8] made explicit", _O),
    (r"key_data\s*\.master_seeds\s*\.insert\(seed_id\.to_string\(\), master_seed\.seed_material\(\)\.to_vec\(\)\)", "verif_insert(&mut key_data.master_seeds, verif_str_to_string(seed_id), verif_to_vec(master_seed.seed_material()))", "HashMap::insert / str::to_string / slice::to_vec renamed to shim fns", _O),
    (r"seed_id\.to_string\(\)", "verif_str_to_string(seed_id)", "str::to_string renamed to its shim", _O),
]
_KS_DROPS = [(r"let start_time = Instant::now\(\);\n", "timing of the call (statistics)"),
             (_KS_STATS_BLOCK, "statistics bookkeeping block (counters / timing under the stats mutex): no contract mentions it")]
UNITS["keystore"] = {
    "property": "C18",
    "src": "src/encrypted_key_storage.rs",
    "spec": "verus/keystore.spec.rs",
    "shims": {
        "EncryptedKeyStorageManager": (None, {"cache_binding_key": "[u8; 32]"}),
        "KeyStorageData": (None, {"master_seeds": "HashMap<String, Vec<u8>>", "derived_keys": "HashMap<String, Vec<u8>>", "key_metadata": "HashMap<String, KeyMetadata>", "created_at": "u64", "last_accessed": "u64"}),
        "PasswordValidation": (None, {"valid": "bool"}),
    },
    "consts_verbatim": ["SALT_SIZE", "AES_NONCE_SIZE"],
    "items": [
        {"impl": "EncryptedKeyStorageManager", "fn": "retrieve_master_seed", "erase_errors": ["P2PError::"],
         "block": {"name": "verif_retrieve_sequential", "of": "EncryptedKeyStorageManager::retrieve_master_seed",
                   "sig": "fn verif_retrieve_sequential(&self, key_cache_g: &mut HashMap<String, SecureMemory>, file_g: &StoreFile, seed_id: &str, password: &SecureString) -> Result<MasterSeed>",
                   "why": "await erasure: the only .await is the call of the manager's own async helper load_and_decrypt (assumed contract); the cache behind the std RwLock and the store file became parameters"},
         "drop_all": [(r"let start_time = Instant::now\(\);\n", "timing of the call (statistics)"),
                      (r"let mut stats = self\.stats\.lock\(\)\.map_err\(\|_\| \{\s*P2PError::Storage\(StorageError::LockPoisoned\(\s*\"mutex lock failed\"\.to_string\(\)\.into\(\),\s*\)\)\s*\}\)\?;\s*stats\.cache_hits \+= 1;\n", "cache-hit counter under the stats mutex"),
                      (_KS_STATS_BLOCK, "statistics bookkeeping block: no contract mentions it")],
         "rewrite": _KS_RW,
         "spec": """
    requires
        cache_bound(old(key_cache_g)@, self.cache_binding_key, *file_g),
    ensures
        r.is_ok() ==> password@ == pw_of(*file_g), // @C18/retrieve/a_seed_is_returned_only_to_a_caller_presenting_the_current_password
        cache_bound(final(key_cache_g)@, self.cache_binding_key, *file_g), // @C18/cache/every_cached_seed_stays_bound_to_the_password_that_opens_the_store
        cache_vals(old(key_cache_g)@, self.cache_binding_key, *file_g) ==> (r matches Ok(s) ==> seeds_of(*file_g).contains_key(str_key(seed_id)) && s@ == seeds_of(*file_g)[str_key(seed_id)]), // @C18/retrieve/the_seed_returned_is_exactly_the_one_the_store_holds_under_that_id
        cache_vals(old(key_cache_g)@, self.cache_binding_key, *file_g) ==> cache_vals(final(key_cache_g)@, self.cache_binding_key, *file_g),
"""},
        {"impl": "EncryptedKeyStorageManager", "fn": "store_master_seed", "erase_errors": ["P2PError::"],
         "block": {"name": "verif_store_sequential", "of": "EncryptedKeyStorageManager::store_master_seed",
                   "sig": "fn verif_store_sequential(&self, key_cache_g: &mut HashMap<String, SecureMemory>, file_g: &mut StoreFile, seed_id: &str, master_seed: &MasterSeed, password: &SecureString) -> Result<()>",
                   "why": "await erasure: the awaits are calls of the manager's own async helpers load_and_decrypt / get_current_salt / encrypt_and_store (assumed contracts); the cache and the store file became parameters"},
         "drop_all": _KS_DROPS + [(r"// Update metadata\s*key_data\.key_metadata\.insert\(\s*seed_id\.to_string\(\),\s*KeyMetadata \{[^{}]*\},\s*\);\n", "key metadata insertion (a field no contract mentions)")],
         "rewrite": _KS_RW,
         "spec": """
    requires
        cache_bound(old(key_cache_g)@, self.cache_binding_key, *old(file_g)),
    ensures
        r.is_ok() ==> password@ == pw_of(*old(file_g)), // @C18/store/a_seed_is_stored_only_for_a_caller_presenting_the_current_password
        pw_of(*final(file_g)) == pw_of(*old(file_g)), // @C18/store/storing_a_seed_never_changes_the_password
        r.is_ok() ==> seeds_of(*final(file_g)) == seeds_of(*old(file_g)).insert(str_key(seed_id), master_seed@), // @C18/store/the_store_afterwards_holds_exactly_the_given_seed_under_that_id_and_every_other_seed_unchanged
        cache_bound(final(key_cache_g)@, self.cache_binding_key, *final(file_g)), // @C18/cache/every_cached_seed_stays_bound_to_the_password_that_opens_the_store
        (cache_vals(old(key_cache_g)@, self.cache_binding_key, *old(file_g)) && (r.is_ok() || *final(file_g) == *old(file_g)))
            ==> cache_vals(final(key_cache_g)@, self.cache_binding_key, *final(file_g)), // @C18/cache/cached_seeds_equal_the_stored_ones_after_a_store
"""},
        {"impl": "EncryptedKeyStorageManager", "fn": "change_password", "erase_errors": ["P2PError::"],
         "block": {"name": "verif_change_password_sequential", "of": "EncryptedKeyStorageManager::change_password",
                   "sig": "fn verif_change_password_sequential(&self, key_cache_g: &mut HashMap<String, SecureMemory>, file_g: &mut StoreFile, old_password: &SecureString, new_password: &SecureString) -> Result<()>",
                   "why": "await erasure: the awaits are calls of load_and_decrypt / encrypt_and_store (assumed contracts); the cache and the store file became parameters"},
         "drop_all": [(_KS_STATS_BLOCK, "statistics bookkeeping block: no contract mentions it")],
         "rewrite": _KS_RW,
         "spec": """
    requires
        cache_bound(old(key_cache_g)@, self.cache_binding_key, *old(file_g)),
    ensures
        r.is_ok() ==> old_password@ == pw_of(*old(file_g)), // @C18/change/the_password_changes_only_for_a_caller_presenting_the_current_one
        r.is_ok() ==> pw_of(*final(file_g)) == new_password@ && seeds_of(*final(file_g)) == seeds_of(*old(file_g)), // @C18/change/afterwards_the_new_password_opens_the_same_seeds
        r.is_err() ==> *final(file_g) == *old(file_g), // @C18/change/a_refused_or_failed_change_leaves_the_store_as_it_was
        cache_bound(final(key_cache_g)@, self.cache_binding_key, *final(file_g)), // @C18/cache/nothing_cached_under_the_previous_password_survives_a_password_change
        (r.is_ok() || cache_vals(old(key_cache_g)@, self.cache_binding_key, *old(file_g))) ==> cache_vals(final(key_cache_g)@, self.cache_binding_key, *final(file_g)),
"""},
        {"impl": "EncryptedKeyStorageManager", "fn": "initialize", "erase_errors": ["P2PError::"],
         "block": {"name": "verif_initialize_sequential", "of": "EncryptedKeyStorageManager::initialize",
                   "sig": "fn verif_initialize_sequential(&self, key_cache_g: &mut HashMap<String, SecureMemory>, file_g: &mut StoreFile, password: &SecureString) -> Result<()>",
                   "why": "await erasure: the only await is the call of encrypt_and_store (assumed contract); the cache and the store file became parameters"},
         "drop_all": [(_KS_STATS_BLOCK, "statistics bookkeeping block: no contract mentions it")],
         "rewrite": _KS_RW,
         "spec": """
    ensures
        r.is_ok() ==> pw_of(*final(file_g)) == password@ && seeds_of(*final(file_g)) == Map::<String, Seq<u8>>::empty(), // @C18/init/a_new_store_opens_with_the_given_password_and_holds_no_seed
        r.is_err() ==> *final(file_g) == *old(file_g),
        cache_bound(old(key_cache_g)@, self.cache_binding_key, *old(file_g)) ==> cache_bound(final(key_cache_g)@, self.cache_binding_key, *final(file_g)), // @C18/cache/nothing_cached_from_a_previous_store_survives_its_re_initialisation
        (r.is_ok() || cache_vals(old(key_cache_g)@, self.cache_binding_key, *old(file_g))) ==> cache_vals(final(key_cache_g)@, self.cache_binding_key, *final(file_g)),
"""},
        {"impl": "EncryptedKeyStorageManager", "fn": "clear_cache", "erase_errors": ["P2PError::"],
         "block": {"name": "verif_clear_cache_sequential", "of": "EncryptedKeyStorageManager::clear_cache",
                   "sig": "fn verif_clear_cache_sequential(&self, key_cache_g: &mut HashMap<String, SecureMemory>, file_g: &StoreFile) -> Result<()>",
                   "why": "the cache behind the std RwLock became a parameter (file_g is a ghost of the store file for the contract only)"},
         "rewrite": _KS_RW,
         "spec": """
    ensures
        cache_bound(final(key_cache_g)@, self.cache_binding_key, *file_g),
        cache_vals(final(key_cache_g)@, self.cache_binding_key, *file_g),
"""},
    ],
    "pinned_fns": [("src/encrypted_key_storage.rs", "EncryptedKeyStorageManager", "cache_key", "ebf0b2aa28337e7c", "keyed BLAKE3 of the password (hex) + ':' + seed id: injective in (password, id) for a fixed key -- ASSUMED")],
    "paired_kani": [],
    "search_test": "verif_search_c18",
    "trusted": [
        "await erasure (initialize, store_master_seed, retrieve_master_seed, change_password): every .await is a call of the manager's own async helper; helpers are functions with ASSUMED contracts over an abstract store file; the cache behind the std RwLock is a parameter; sequential use (no other task touches file or cache during a call), locks not poisoned",
        "ASSUMED ideal cryptography / file system: the store file opens under exactly one password (authenticated decryption under an Argon2id-derived key); encrypt_and_store replaces the file as a whole or leaves it (tmp + rename); cache_key injective in (password, id) (keyed BLAKE3; text pinned)",
        "ASSUMED shim contracts: HashMap<String, V> get / insert / clear / new as a finite map, get through Borrow<str>, Option::ok_or_else, slice::to_vec, str::to_string; SecureMemory / MasterSeed / SecureString opaque byte containers (from_slice / from_entropy copy the bytes or fail)",
        "dropped: statistics bookkeeping (stats mutex blocks, start_time), key metadata insertion in store_master_seed; error payloads",
        "cache VALUE coherence after a failed store is proved only when the file was left unchanged: a failure of SecureMemory::from_slice (memory locking) AFTER the file was rewritten would leave the previous seed cached (not reproducible here; recorded as an assumption, not a finding)",
    ],
}

# ---------------------------------------------------------------------------------------------
# unit placement (C17): diversity validation and the selection loop
# ---------------------------------------------------------------------------------------------
def _pl_tally_loop(it, m, tally):
    return f"""
            invariant
                {it}.seq().len() == selection@.len(), forall|k: int| 0 <= k < selection@.len() ==> *#[trigger] {it}.seq()[k] == selection@[k],
                selection@.len() < usize::MAX,
                {tally}({m}@, selection@, {it}.index@),
"""
def _pl_check_loop(it, g, cap, tally, kty):
    return f"""
            invariant
                forall|i: int| 0 <= i < {it}.seq().len() ==> {g}.contains_key(*(#[trigger] {it}.seq()[i]).0) && {g}[*{it}.seq()[i].0] == *{it}.seq()[i].1,
                forall|k: {kty}| {g}.contains_key(k) ==> exists|i: int| 0 <= i < {it}.seq().len() && *(#[trigger] {it}.seq()[i]).0 == k,
                forall|i: int| 0 <= i < {it}.index@ ==> *(#[trigger] {it}.seq()[i]).1 <= self.{cap},
                {tally}({g}, selection@, selection@.len() as int),
"""
def _pl_iter_facts(itv, g, kty):
    return f"""proof {{
            let s0 = {itv}.remaining();
            assert(forall|i: int| 0 <= i < s0.len() ==> {g}.contains_key(*(#[trigger] s0[i]).0) && {g}[*s0[i].0] == *s0[i].1);
            assert(forall|k: {kty}| {g}.contains_key(k) ==> exists|i: int| 0 <= i < s0.len() && *(#[trigger] s0[i]).0 == k);
        }}"""
def _pl_inc_proof(it, m, tally, cnt, kty, fld, other):
    return f"""proof {{
                let n = {it}.index@;
                lemma_take_step(selection@, n);
                assert forall|g: {kty}| ({m}@.contains_key(g) <==> {cnt}(selection@.take(n + 1), g) > 0)
                    && (#[trigger] {m}@.contains_key(g) ==> {m}@[g] == {cnt}(selection@.take(n + 1), g)) by {{
                    lemma_count_bound(selection@.take(n), {other});
                }}
            }}"""
UNITS["placement"] = {
    "property": "C17",
    "src": "src/placement/algorithms.rs",
    "spec": "verus/placement.spec.rs",
    "preludes": ["verus/float.spec.rs"],
    "enums_from": [("src/placement/types.rs", "NetworkRegion")],
    "shims": {
        "DiversityEnforcer": (None, {"min_geographic_distance": "f64", "max_nodes_per_region": "usize", "max_nodes_per_asn": "usize", "diversity_penalty": "f64"}),
    },
    "items": [
        {"impl": "DiversityEnforcer", "fn": "validate_selection", "erase_error_structs": ["PlacementError::"], "desugar": ["continue", "enumerate"], "loop_count": 6,
         "rewrite": [
             (r"self\.min_geographic_distance / 2\.0", "verif_f64(self.min_geographic_distance) / 2.0", "struct-field read wrapped in the verified identity verif_f64 (trigger matching of the float axioms)"),
             (r"for \(node_a, loc_a, _, _\) in selection\.iter\(\)", "for (node_a, loc_a, _, _) in it_a: selection.iter()", "ghost iterator binder (binder only)"),
             (r"for \(node_b, loc_b, _, _\) in selection\.iter\(\)", "for (node_b, loc_b, _, _) in it_b: selection.iter()", "ghost iterator binder (binder only)"),
             (r"for \(_, _, _, region\) in selection \{", "for (_, _, _, region) in it_r: selection.iter() {", "`for .. in &[T]` written as `for .. in slice.iter()` (IntoIterator for &[T] is iter()); ghost iterator binder"),
             (r"for \(_, _, asn, _\) in selection \{", "for (_, _, asn, _) in it_s: selection.iter() {", "`for .. in &[T]` written as `for .. in slice.iter()`; ghost iterator binder"),
             (r"\*region_counts\.entry\(\*region\)\.or_insert\(0\) \+= 1;", "verif_count_inc(&mut region_counts, *region);", "`*map.entry(k).or_insert(0) += 1` renamed to a shim fn standing for that statement (contract: the count under k grows by one, assumed)"),
             (r"\*asn_counts\.entry\(\*asn\)\.or_insert\(0\) \+= 1;", "verif_count_inc(&mut asn_counts, *asn);", "`*map.entry(k).or_insert(0) += 1` renamed to the same shim"),
             (r"for \(region, count\) in region_counts \{", "let ghost rc = region_counts@;\n let rc_it = region_counts.iter();\n " + _pl_iter_facts("rc_it", "rc", "NetworkRegion") + "\n for (region_r, count_r) in it_rc: rc_it { let region = *region_r; let count = *count_r;", "consuming iteration over a HashMap of Copy keys / values written as iteration over `.iter()` with the two bindings dereferenced (same pairs; the map is not used afterwards); ghost copy of the map, ghost iterator binder, proof block"),
             (r"for \(asn, count\) in asn_counts \{", "let ghost ac = asn_counts@;\n let ac_it = asn_counts.iter();\n " + _pl_iter_facts("ac_it", "ac", "u32") + "\n for (asn_r, count_r) in it_ac: ac_it { let asn = *asn_r; let count = *count_r;", "consuming iteration over a HashMap of Copy keys / values written as iteration over `.iter()`; ghost copy, ghost iterator binder, proof block"),
         ],
         "loops": {
             0: """
            invariant
                i == it_a.index@, selection@.len() < usize::MAX,
                it_a.seq().len() == selection@.len(), forall|k: int| 0 <= k < selection@.len() ==> *#[trigger] it_a.seq()[k] == selection@[k],
                forall|a: int, b: int| 0 <= a < it_a.index@ && 0 <= b < selection@.len() && a != b ==>
                    !f_lt(#[trigger] dist_km(selection@[a].1, selection@[b].1), f_div(self.min_geographic_distance, 2.0f64)),
""",
             1: """
            invariant
                j == it_b.index@, i < selection@.len(), selection@.len() < usize::MAX,
                it_b.seq().len() == selection@.len(), forall|k: int| 0 <= k < selection@.len() ==> *#[trigger] it_b.seq()[k] == selection@[k],
                *loc_a == selection@[i as int].1,
                forall|b: int| 0 <= b < it_b.index@ && b != i ==>
                    !f_lt(#[trigger] dist_km(selection@[i as int].1, selection@[b].1), f_div(self.min_geographic_distance, 2.0f64)),
""",
             2: _pl_tally_loop("it_r", "region_counts", "region_tally"),
             3: _pl_check_loop("it_rc", "rc", "max_nodes_per_region", "region_tally", "NetworkRegion"),
             4: _pl_tally_loop("it_s", "asn_counts", "asn_tally"),
             5: _pl_check_loop("it_ac", "ac", "max_nodes_per_asn", "asn_tally", "u32"),
         },
         "insert_before": [
             (r"verif_count_inc\(&mut region_counts, \*region\);", None, "proof { lemma_count_bound(selection@.take(it_r.index@), *region, 0u32); }"),
             (r"verif_count_inc\(&mut asn_counts, \*asn\);", None, "proof { lemma_count_bound(selection@.take(it_s.index@), NetworkRegion::Unknown, *asn); }"),
         ],
         "insert_after": [
             (r"verif_count_inc\(&mut region_counts, \*region\);", None, _pl_inc_proof("it_r", "region_counts", "region_tally", "count_region", "NetworkRegion", 3, "g, 0u32")),
             (r"verif_count_inc\(&mut asn_counts, \*asn\);", None, _pl_inc_proof("it_s", "asn_counts", "asn_tally", "count_asn", "u32", 2, "NetworkRegion::Unknown, g")),
         ],
         "after_loop": {
             2: "proof { assert(selection@.take(selection@.len() as int) =~= selection@); }",
             3: """proof {
            assert forall|g: NetworkRegion| #[trigger] count_region(selection@, g) <= self.max_nodes_per_region by {
                assert(selection@.take(selection@.len() as int) =~= selection@);
                if count_region(selection@, g) > 0 {
                    assert(rc.contains_key(g));
                }
            }
        }""",
             4: "proof { assert(selection@.take(selection@.len() as int) =~= selection@); }",
             5: """proof {
            assert forall|a: u32| #[trigger] count_asn(selection@, a) <= self.max_nodes_per_asn by {
                assert(selection@.take(selection@.len() as int) =~= selection@);
                if count_asn(selection@, a) > 0 {
                    assert(ac.contains_key(a));
                }
            }
        }""",
         },
         "spec": """
    requires
        selection@.len() < usize::MAX,
    ensures
        r.is_ok() ==> far_apart(*self, selection@), // @C17/validate/accepted_only_if_no_two_nodes_are_closer_than_half_the_configured_distance
        r.is_ok() ==> regions_capped(*self, selection@), // @C17/validate/accepted_only_if_no_region_holds_more_than_its_cap
        r.is_ok() ==> asns_capped(*self, selection@), // @C17/validate/accepted_only_if_no_autonomous_system_holds_more_than_its_cap
"""},
    ],
    "paired_kani": [],
    "search_test": "verif_search_c17",
    "trusted": [
        "ASSUMED: GeographicLocation::distance_km is a deterministic function of its arguments (uninterpreted haversine); HashMap through vstd with the key model assumed for NetworkRegion / NodeId; `*map.entry(k).or_insert(0) += 1` behind a shim; IEEE comparison / division uninterpreted (float prelude)",
        "error values PlacementError::Variant { .. } replaced by a unit error (payload dropped, including the filter/map/collect that lists the offending nodes)",
    ],
}

_PL_SORT_PROOF = """proof {
            w0.to_multiset_ensures(); weights@.to_multiset_ensures();
            assert forall|i: int| 0 <= i < weights@.len() implies candidates@.contains((#[trigger] weights@[i]).0) by {
                assert(weights@.contains(weights@[i]));
                assert(w0.to_multiset().count(weights@[i]) > 0);
                assert(w0.contains(weights@[i]));
                let j = choose|j: int| 0 <= j < w0.len() && w0[j] == weights@[i];
                assert(candidates@.contains(w0[j].0));
            }
        }"""
_PL_ERR = {"erase_errors": ["PlacementError::"], "erase_error_structs": ["PlacementError::"]}
UNITS["placement"]["shims"].update({
    "WeightedPlacementStrategy": (None, {"sampler": "WeightedSampler", "diversity_enforcer": "DiversityEnforcer", "config": "PlacementConfig"}),
    "PlacementDecision": ("src/placement/types.rs", {"selected_nodes": "Vec<NodeId>", "backup_nodes": "Vec<NodeId>", "placement_strategy": "String", "diversity_score": "f64",
                                 "estimated_reliability": "f64", "selection_time": "Duration", "metadata": "HashMap<String, String>"}),
})
UNITS["placement"]["items"] += [
    {"impl": "DiversityEnforcer", "fn": "new",
     "spec": """
    ensures
        r.max_nodes_per_region == 2 && r.max_nodes_per_asn == 3, // @C17/config/default_caps_are_two_per_region_and_three_per_autonomous_system
        r.min_geographic_distance == 100.0f64, // @C17/config/default_minimum_distance_is_100_km_so_the_accepted_floor_is_50_km
"""},
    {"impl": "WeightedPlacementStrategy", "fn": "calculate_weights", **_PL_ERR,
     "block": {"name": "verif_calculate_weights_body", "of": "WeightedPlacementStrategy::calculate_weights",
               "sig": "fn verif_calculate_weights_body(&self, candidates: &HashSet<NodeId>, _trust_system: &EigenTrustEngine, _performance_monitor: &PerformanceMonitor, node_metadata: &HashMap<NodeId, Meta>, selected_nodes: &[SelT]) -> PlacementResult<Vec<(NodeId, f64)>>",
               "no_await": True,
               "why": "`async fn` without any `.await` (checked): its body is verified as a plain function"},
     "rewrite": [
         (r"let mut weights = Vec::new\(\);", "let mut weights: Vec<(NodeId, f64)> = Vec::new();", "type annotation only"),
         (r"for node_id in candidates \{", "let cw_it = candidates.iter();\n proof { lemma_set_iter_facts(candidates@, cw_it.remaining()); }\n for node_id in it_c: cw_it {", "`for .. in &HashSet` written as `for .. in set.iter()` (IntoIterator for &HashSet is iter()); iterator bound to a local so a proof block can name it; ghost iterator binder"),
         (r"node_metadata\s*\.get\(node_id\)\s*\.ok_or_else\(\|\| VerifError \{\}\)", "verif_meta_get(node_metadata, node_id)", "`map.get(k).ok_or_else(|| err)` renamed to a shim fn (HashMap::get + Option::ok_or_else)"),
         (r"weights\.sort_by\(\|a, b\| b\.1\.partial_cmp\(&a\.1\)\.unwrap_or\(std::cmp::Ordering::Equal\)\);", "let ghost w0 = weights@;\n verif_sort_weights(&mut weights);\n " + _PL_SORT_PROOF, "`weights.sort_by(cmp)` renamed to a shim fn (contract: a permutation -- std sort_by reorders only; the order itself is not part of any obligation); ghost copy + proof block"),
     ],
     "loops": {0: """
            invariant
                forall|i: int| 0 <= i < it_c.seq().len() ==> candidates@.contains(*(#[trigger] it_c.seq()[i])),
                forall|i: int| 0 <= i < weights@.len() ==> candidates@.contains((#[trigger] weights@[i]).0),
"""},
     "spec": """
    ensures
        r matches Ok(w) ==> forall|i: int| 0 <= i < w@.len() ==> candidates@.contains((#[trigger] w@[i]).0), // @C17/weights/every_weighted_node_is_one_of_the_remaining_candidates
"""},
    {"impl": "WeightedPlacementStrategy", "fn": "select_nodes", **_PL_ERR,
     "block": {"name": "verif_select_nodes_sequential", "of": "WeightedPlacementStrategy::select_nodes",
               "sig": "fn verif_select_nodes_sequential(&mut self, candidates: &HashSet<NodeId>, replication_factor: u8, trust_system: &EigenTrustEngine, performance_monitor: &PerformanceMonitor, node_metadata: &HashMap<NodeId, Meta>) -> PlacementResult<PlacementDecision>",
               "why": "await erasure: the only .await is the call of the strategy's own async helper calculate_weights, itself await-free and verified in this unit"},
     "drop_all": [(r"let start_time = Instant::now\(\);\n", "timing of the call")],
     "rewrite": [
         (r"\.calculate_weights\(", ".verif_calculate_weights_body(", "call of the async helper renamed to its await-free body verified above"),
         (r"\.await\b", "", "await erased (the awaited expression is the call of calculate_weights)"),
         (r"let mut selected_nodes = Vec::new\(\);", "let mut selected_nodes: Vec<SelT> = Vec::new();", "type annotation only"),
         (r"candidates\.clone\(\)", "verif_clone_set(candidates)", "HashSet::clone renamed to a shim fn (same elements)"),
         (r"sample_nodes\(&weights, 1\)", "sample_nodes(weights.as_slice(), 1)", "deref coercion &Vec<T> -> &[T] made explicit"),
         (r"selected\s*\.first\(\)\s*\.ok_or\(VerifError \{\}\)", "verif_first(&selected)", "`v.first().ok_or(err)` renamed to a shim fn"),
         (r"node_metadata\s*\.get\(&selected_node\)\s*\.ok_or_else\(\|\| VerifError \{\}\)", "verif_meta_get(node_metadata, &selected_node)", "`map.get(k).ok_or_else(|| err)` renamed to a shim fn"),
         (r"\.validate_selection\(&selected_nodes\)", ".validate_selection(selected_nodes.as_slice())", "deref coercion &Vec<T> -> &[T] made explicit"),
         (r"selected_nodes\s*\.into_iter\(\)\s*\.map\(\|\(node_id, _, _, _\)\| node_id\)\s*\.collect\(\)", "verif_ids_of(selected_nodes)", "iterator chain `xs.into_iter().map(|(id, ..)| id).collect()` renamed to a shim fn (contract: the ids in order)"),
         (r"\"weighted_efraimidis_spirakis\"\.to_string\(\)", "verif_strategy_name()", "string literal -> opaque shim (text not part of any obligation)"),
         (r"metadata: HashMap::new\(\)", "metadata: verif_empty_string_map()", "HashMap::new renamed to an opaque shim (the metadata field is not part of any obligation)"),
         (r"start_time\.elapsed\(\)", "verif_elapsed()", "timing -> opaque shim"),
         (r"for round in 0\.\.k \{", "let ghost sel0 = selected_nodes@;\n for round in 0..k {", "ghost only", "optional"),
     ],
     "loops": {0: """
            invariant
                k == replication_factor as usize, k <= candidates@.len(),
                selected_nodes@.len() == round,
                distinct(ids(selected_nodes@)),
                forall|i: int| 0 <= i < selected_nodes@.len() ==> candidates@.contains((#[trigger] selected_nodes@[i]).0) && !remaining_candidates@.contains(selected_nodes@[i].0),
                forall|x: NodeId| #[trigger] remaining_candidates@.contains(x) ==> candidates@.contains(x),
                meta_of(selected_nodes@, node_metadata@),
                self.diversity_enforcer == old(self).diversity_enforcer,
"""},
     "insert_before": [
         (r"selected_nodes\.push\(\(selected_node\.clone\(\), \*location, \*asn, \*region\)\);", None, """let ghost s_prev = selected_nodes@;
            proof {
                assert(drawn_from(weights@, selected@[0]));
                let i0 = choose|i: int| 0 <= i < weights@.len() && (#[trigger] weights@[i]).0 == selected@[0];
                assert(remaining_candidates@.contains(weights@[i0].0));
                assert(remaining_candidates@.contains(selected_node));
            }"""),
         (r"Ok\(decision\)", None, """proof {
            assert(decision.selected_nodes@ =~= ids(sel));
            assert(with_meta(decision.selected_nodes@, node_metadata@) =~= sel);
        }"""),
     ],
     "insert_after": [
         (r"selected_nodes\.push\(\(selected_node\.clone\(\), \*location, \*asn, \*region\)\);", None, """proof {
                assert(selected_nodes@ == s_prev.push((selected_node, *location, *asn, *region)));
                assert forall|i: int, j: int| 0 <= i < j < ids(selected_nodes@).len() implies ids(selected_nodes@)[i] != ids(selected_nodes@)[j] by {
                    assert(ids(selected_nodes@)[i] == selected_nodes@[i].0 && ids(selected_nodes@)[j] == selected_nodes@[j].0);
                    if j < s_prev.len() { assert(ids(s_prev)[i] == s_prev[i].0 && ids(s_prev)[j] == s_prev[j].0); }
                    else { assert(!remaining_candidates@.contains(s_prev[i].0)); }
                }
            }"""),
         (r"\.validate_selection\(selected_nodes\.as_slice\(\)\)\?;", None, "let ghost sel = selected_nodes@;"),
     ],
     "spec": """
    ensures
        r matches Ok(d) ==> d.selected_nodes@.len() == replication_factor as int, // @C17/select/a_decision_names_exactly_the_requested_number_of_nodes
        r matches Ok(d) ==> distinct(d.selected_nodes@), // @C17/select/no_node_is_named_twice
        r matches Ok(d) ==> forall|i: int| 0 <= i < d.selected_nodes@.len() ==> candidates@.contains(#[trigger] d.selected_nodes@[i]), // @C17/select/every_named_node_is_one_of_the_supplied_candidates
        r matches Ok(d) ==> forall|i: int| 0 <= i < d.selected_nodes@.len() ==> node_metadata@.contains_key(#[trigger] d.selected_nodes@[i]),
        r matches Ok(d) ==> far_apart(old(self).diversity_enforcer, with_meta(d.selected_nodes@, node_metadata@)), // @C17/select/no_two_named_nodes_are_closer_than_half_the_configured_distance
        r matches Ok(d) ==> regions_capped(old(self).diversity_enforcer, with_meta(d.selected_nodes@, node_metadata@)), // @C17/select/no_region_holds_more_named_nodes_than_its_cap
        r matches Ok(d) ==> asns_capped(old(self).diversity_enforcer, with_meta(d.selected_nodes@, node_metadata@)), // @C17/select/no_autonomous_system_holds_more_named_nodes_than_its_cap
"""},
]

UNITS["mgr"]["items"].append(
    {"impl": "DhtNetworkManager", "fn": "find_closest_nodes_local", "drop_macros": ["debug!", "warn!"], "desugar": ["match_continue", "continue"],
     "block": {"name": "verif_find_closest_nodes_local_sequential", "of": "DhtNetworkManager::find_closest_nodes_local",
               "sig": "fn verif_find_closest_nodes_local_sequential(&self, peers_g: &HashMap<PeerId, DhtPeerInfo>, dht_g: &DhtCoreEngine, key: &Key, count: usize) -> Vec<DHTNode>",
               "why": "await erasure: the awaits are two tokio RwLock acquisitions (connected peers, engine) and the call of the engine's async find_nodes (some table entries or an error: no contract needed); the guarded objects became parameters"},
     "rewrite": [
         (r"let peers = self\.dht_peers\.read\(\)\.await;", "let peers = peers_g;", "lock acquisition replaced by the parameter that stands for the guarded map of connected peers"),
         (r"let dht_guard = self\.dht\.read\(\)\.await;", "let dht_guard = dht_g;", "lock acquisition replaced by the parameter that stands for the guarded engine"),
         (r"\.await\b", "", "await erased (call of the engine's find_nodes)"),
         (r"peer_info\.addresses\.first\(\)", "verif_first_addr(&peer_info.addresses)", "Vec::first renamed to a shim fn"),
         (r"peer_info\.dht_key\.to_vec\(\)", "verif_key_to_vec(&peer_info.dht_key)", "<[u8; 32]>::to_vec renamed to a shim fn"),
         (r"Err\(e\) => \{", "Err(_e) => {", "binding unused after the logging statement was dropped"),
         (r"Self::compare_node_distance", "DhtNetworkManager::compare_node_distance", "`Self::` written out (the statement is outlined into a free function)"),
         (r"reliability: node\.capacity\.reliability_score,", "reliability: verif_f64x(node.capacity.reliability_score),", "f64 field read wrapped in a verified identity function (Verus encoding quirk; the value is unchanged)"),
     ],
     "loops": {
         0: """
                invariant listed_once(all_nodes@, seen_keys@),
""",
         1: """
                        invariant listed_once(all_nodes@, seen_keys@),
""",
     },
     "insert_before": [
         (r"if !seen_keys\.insert\(peer_info\.dht_key\)", None, "let ghost v0 = all_nodes@; let ghost s0 = seen_keys@;"),
         (r"if seen_keys\.insert\(\*node\.id\.as_bytes\(\)\)", None, "let ghost v0 = all_nodes@; let ghost s0 = seen_keys@;"),
     ],
     "insert_after": [
         (r"cached_dht_key: Some\(DhtKey::from_bytes\(peer_info\.dht_key\)\),\s*\}\);", None, "proof { lemma_listed_push(v0, s0, all_nodes@.last(), peer_info.dht_key); assert(all_nodes@ == v0.push(all_nodes@.last())); }"),
         (r"cached_dht_key: Some\(DhtKey::from_bytes\(\*node\.id\.as_bytes\(\)\)\),\s*\}\);", None, "proof { lemma_listed_push(v0, s0, all_nodes@.last(), node.id.0.0); assert(all_nodes@ == v0.push(all_nodes@.last())); }"),
     ],
     "outline_tail": {
         "start": r"all_nodes\.sort_by\(",
         "fn": "verif_sort_take_tail",
         "params": "all_nodes: Vec<DHTNode>, key: &Key, count: usize",
         "ret": "Vec<DHTNode>",
         "prelude": "    let mut all_nodes = all_nodes;",
         "spec": """    ensures
        r@.len() <= count, r@.len() <= all_nodes@.len(),
        forall|i: int, j: int| 0 <= i < j < r@.len() ==> exists|a: int, b: int| 0 <= a < all_nodes@.len() && 0 <= b < all_nodes@.len() && a != b
            && #[trigger] r@[i] == all_nodes@[a] && #[trigger] r@[j] == all_nodes@[b],""",
         "call": "verif_sort_take_tail(all_nodes, key, count)",
     },
     "spec": """
    ensures
        r@.len() <= count, // @C02/local/never_more_than_count_entries
        keys_distinct(r@), // @C02/local/each_peer_is_named_once_under_a_single_identifier
"""})
UNITS["mgr"]["search_test"] = "verif_search_c02_local"
UNITS["mgr"]["trusted"] += [
    "await erasure (find_closest_nodes_local): lock acquisitions became parameters; DhtCoreEngine::find_nodes is an opaque callee (some entries or an error); is_local_peer_id opaque",
    "ASSUMED: the outlined tail `all_nodes.sort_by(compare_node_distance); into_iter().take(count).collect()` returns at most count elements taken from pairwise different positions of the list (std: stable sort is a permutation, take/collect keep a prefix); HashSet<[u8; 32]> through vstd (key model assumed); `continue` statements desugared mechanically",
]

_PL_SAMPLE_PROOF = '''proof {
            w0.to_multiset_ensures(); w1.to_multiset_ensures();
            assert forall|j: int| 0 <= j < verif_out@.len() implies drawn_from(candidates@, #[trigger] verif_out@[j]) by {
                assert(w1.contains(w1[j]));
                assert(w0.to_multiset().count(w1[j]) > 0);
                assert(w0.contains(w1[j]));
                let i = choose|i: int| 0 <= i < w0.len() && w0[i] == w1[j];
                assert(candidates@[i].0 == w0[i].1);
            }
        }'''

UNITS["placement"]["items"].insert(2,
    {"impl": "WeightedSampler", "fn": "sample_nodes", **_PL_ERR,
     "closures": [{"at": r"\|\(node_id, weight\)\|", "params": "|e: &(NodeId, f64)|", "ret": "PlacementResult<(f64, NodeId)>",
                   "prelude": "let (node_id, weight) = e;", "ensures": "ret matches Ok(p) ==> p.1 == e.0"}],
     "rewrite": [
         (r"candidates\s*\.iter\(\)\s*\.map\(", "verif_try_map_collect(candidates, ", "iterator chain `xs.iter().map(f).collect::<Result<Vec<_>, _>>()` renamed to a shim fn whose contract is the documented std behaviour, stated through the closure's own contract; the closure stays in place and is verified"),
         (r"\)\s*\.collect::<PlacementResult<Vec<_>>>\(\)\?;", ")?;", "end of the renamed chain"),
         (r"fastrand::f64\(\)", "verif_rand_f64()", "random draw renamed to an opaque shim (any value)"),
         (r"u\.powf\(1\.0 / weight\)", "verif_powf(u, 1.0 / *weight)", "f64::powf renamed to an opaque shim (any value); `f64 / &f64` written with an explicit deref"),
         (r"weighted_keys\.sort_by\(\|a, b\| b\.0\.partial_cmp\(&a\.0\)\.unwrap_or\(std::cmp::Ordering::Equal\)\);", "let ghost w0 = weighted_keys@;\n verif_sort_keys(&mut weighted_keys);\n let ghost w1 = weighted_keys@;", "`keys.sort_by(cmp)` renamed to a shim fn (contract: a permutation; which candidates end up first is not part of any obligation); ghost copies"),
         (r"Ok\(weighted_keys\s*\.into_iter\(\)\s*\.take\(k\)\s*\.map\(\|\(_, node_id\)\| node_id\)\s*\.collect\(\)\)", "let verif_out = verif_take_ids(weighted_keys, k);\n " + _PL_SAMPLE_PROOF + "\n Ok(verif_out)", "iterator chain `into_iter().take(k).map(|(_, id)| id).collect()` renamed to a shim fn (contract: ids of the first min(k, len) entries); result bound to a local so that a proof block can name it"),
     ],
     "spec": """
    ensures
        r matches Ok(v) ==> v@.len() == k, // @C17/sample/a_draw_names_exactly_k_nodes
        r matches Ok(v) ==> forall|j: int| 0 <= j < v@.len() ==> drawn_from(candidates@, #[trigger] v@[j]), // @C17/sample/every_drawn_node_is_one_of_the_candidates
        r.is_ok() ==> k <= candidates@.len(), // @C17/sample/never_more_than_available
"""})

UNITS["bucket"]["items"].append(
    {"impl": "DhtCoreEngine", "fn": "store", "serves": ["C05"], "tags_by_owner": True,
     "drop_macros": ["tracing::debug!"],
     "block": {"name": "verif_store_sequential", "of": "DhtCoreEngine::store",
               "sig": "fn verif_store_sequential(&mut self, data_store_g: &mut DataStore, load_balancer_g: &LoadBalancer, key: &DhtKey, value: Vec<u8>) -> Result<StoreReceipt>",
               "why": "await erasure: the awaits are the call of the engine's own select_storage_peers (opaque: some nodes) and two tokio RwLock acquisitions (load balancer, data store); the guarded objects became parameters"},
     "rewrite": [
         (r"anyhow::anyhow!\((?:[^()]|\([^()]*\))*\)", "VerifError {}", "error value: the message text of anyhow!(..) is dropped"),
         (r"self\.select_storage_peers\(key, K\)\.await", "self.select_storage_peers(key, K)", "await erased (call of the engine's own async helper)"),
         (r"let load_balancer = self\.load_balancer\.read\(\)\.await;", "let load_balancer = load_balancer_g;", "lock acquisition replaced by the parameter that stands for the guarded load balancer"),
         (r"select_least_loaded\(&target_nodes, K\)", "select_least_loaded(target_nodes.as_slice(), K)", "deref coercion &Vec<T> -> &[T] made explicit"),
         (r"self\s*\.data_store\s*\.write\(\)\s*\.await", "data_store_g", "lock acquisition replaced by the parameter that stands for the guarded data store"),
         (r"selected_nodes\.contains\(&self\.node_id\)", "verif_contains_id(&selected_nodes, &self.node_id)", "Vec::contains renamed to a shim fn (membership by ==)"),
     ],
     "spec": """
    requires
        old(data_store_g).counters_below_max(),
    ensures
        value@.len() > 512 ==> r.is_err() && final(data_store_g)@ == old(data_store_g)@, // @C05/store_path/the_engine_refuses_a_value_over_512_bytes_and_leaves_the_store_untouched
        final(data_store_g)@ == old(data_store_g)@ || final(data_store_g)@ == old(data_store_g)@.insert(*key, value@), // @C05/store_path/a_store_writes_at_most_the_given_key_with_exactly_the_given_bytes
        (r matches Ok(rc) && rc.stored_at@.contains(old(self).node_id)) ==> final(data_store_g)@ == old(data_store_g)@.insert(*key, value@), // @C05/store_path/a_receipt_that_lists_this_node_means_the_value_is_in_its_store
        final(self).node_id == old(self).node_id,
"""})

# --- C13: removal paths of the routing table must give the diversity slots back (RECORDED FINDING: they do not)
UNITS["ipdiv"]["items"] += [
    {"impl": "DhtCoreEngine", "fn": "evict_node", "src": "src/dht/core_engine.rs",
     "drop_macros": ["tracing::warn!", "tracing::debug!", "tracing::error!", "tracing::info!"],
     "block": {"name": "verif_evict_node_sequential", "of": "DhtCoreEngine::evict_node",
               "sig": "fn verif_evict_node_sequential(routing_g: &mut KademliaRoutingTable, ip_g: &mut IPDiversityEnforcer, geo_g: &mut GeographicDiversityEnforcer, node_id: &NodeId) -> Result<()>",
               "why": "await erasure: the awaits are a tokio RwLock acquisition (routing table) and the security-metrics call (dropped); the routing table and the two diversity enforcers are parameters; `reason` is only read by the dropped metrics statement"},
     "drop_all": [(r"let reason_str = match &reason \{[^{}]*\};\s*self\.security_metrics\.record_eviction\(reason_str\)\.await;\n", "security-metrics bookkeeping (eviction reason counter): no contract mentions it")],
     "rewrite": [(r"let mut routing = self\.routing_table\.write\(\)\.await;", "let routing = &mut *routing_g;", "lock acquisition replaced by the parameter that stands for the guarded routing table")],
     "spec": """
    ensures
        forall|an: UnifiedIPAnalysis| #[trigger] admitted_with(*old(routing_g), *node_id, an) ==> slots_returned(*final(ip_g), *old(ip_g), an), // @C13/engine/eviction_gives_back_the_ip_diversity_slots_of_the_evicted_node
        forall|g: GeographicRegion| admitted_region(*old(routing_g), *node_id) == Some(g) ==> #[trigger] region_slot_returned(*final(geo_g), *old(geo_g), g), // @C13/engine/eviction_gives_back_the_region_slot_of_the_evicted_node
"""},
    {"impl": "DhtCoreEngine", "fn": "handle_node_failure", "src": "src/dht/core_engine.rs",
     "block": {"name": "verif_node_failure_sequential", "of": "DhtCoreEngine::handle_node_failure",
               "sig": "fn verif_node_failure_sequential(routing_g: &mut KademliaRoutingTable, ip_g: &mut IPDiversityEnforcer, geo_g: &mut GeographicDiversityEnforcer, failed_node: NodeId) -> Result<()>",
               "why": "await erasure: both awaits are tokio RwLock acquisitions (routing table; the replication manager guard is only held); the routing table and the two diversity enforcers are parameters"},
     "drop_all": [(r"let _replication = self\.replication_manager\.write\(\)\.await;\n", "replication-manager guard that is only held")],
     "rewrite": [(r"let mut routing = self\.routing_table\.write\(\)\.await;", "let routing = &mut *routing_g;", "lock acquisition replaced by the parameter that stands for the guarded routing table")],
     "spec": """
    ensures
        forall|an: UnifiedIPAnalysis| #[trigger] admitted_with(*old(routing_g), failed_node, an) ==> slots_returned(*final(ip_g), *old(ip_g), an), // @C13/engine/a_failed_node_dropped_from_the_routing_table_gives_back_its_ip_diversity_slots
        forall|g: GeographicRegion| admitted_region(*old(routing_g), failed_node) == Some(g) ==> #[trigger] region_slot_returned(*final(geo_g), *old(geo_g), g), // @C13/engine/a_failed_node_dropped_from_the_routing_table_gives_back_its_region_slot
"""},
]

# --- DhtCoreEngine::select_query_peers / select_storage_peers: with trust selection off, exactly the closest (C16; C02 replies may use them)
UNITS["bucket"]["shims"]["DhtCoreEngine"] = (None, {"node_id": "NodeId", "trust_peer_selector": "Option<TrustAwarePeerSelector<EigenTrustEngine>>"})
for _fn, _mult, _sel in (("select_query_peers", 2, "select_peers"), ("select_storage_peers", 3, "select_storage_peers")):
    UNITS["bucket"]["items"].append(
        {"impl": "DhtCoreEngine", "fn": _fn, "serves": ["C16", "C02"], "tags_by_owner": True,
         "block": {"name": "verif_%s_sequential" % _fn, "of": "DhtCoreEngine::%s" % _fn,
                   "sig": "fn verif_%s_sequential(&self, routing_g: &KademliaRoutingTable, key: &DhtKey, count: usize) -> Vec<NodeInfo>" % _fn,
                   "why": "await erasure: the only .await is a tokio RwLock acquisition (routing table, read guard); the guarded table became a parameter"},
         "drop_all": [(r"drop\(routing\);\n", "explicit release of the read guard (the parameter is a plain reference)")],
         "rewrite": [
             (r"let routing = self\.routing_table\.read\(\)\.await;", "let routing = routing_g;", "lock acquisition replaced by the parameter that stands for the guarded routing table"),
             (r"candidates\.into_iter\(\)\.take\(count\)\.collect\(\)", "{ proof { lemma_prefix_of_closest(routing_g, key, (count * %d) as usize, count, candidates@); } verif_take_prefix(candidates, count) }" % _mult, "iterator chain `v.into_iter().take(n).collect()` renamed to a shim fn (contract: the first min(n, len) elements); proof block"),
             (r"selector\.%s\(key, &candidates, count\)" % _sel, "selector.%s(key, candidates.as_slice(), count)" % _sel, "deref coercion &Vec<T> -> &[T] made explicit"),
         ],
         "spec": """
    requires
        routing_g.wf(), count * %d <= usize::MAX,
    ensures
        self.trust_peer_selector.is_none() ==> fcn_post(routing_g, key, count, r@), // @C16/select/with_trust_selection_disabled_the_choice_is_exactly_the_closest_candidates_in_distance_order
""" % _mult})

# --- find_closest_nodes_local: exactness of the answer over (connected peers with an address) + (what the engine's find_nodes returned)
it = UNITS["mgr"]["items"][-1]
assert it["fn"] == "find_closest_nodes_local"
it["rewrite"] = list(it["rewrite"]) + [
    (r"for \(peer_id, peer_info\) in peers\.iter\(\)", """let peers_it = peers.iter();
            proof {
                let s0 = peers_it.remaining();
                assert(forall|i: int| 0 <= i < s0.len() ==> peers@.contains_key(*(#[trigger] s0[i]).0) && peers@[*s0[i].0] == *s0[i].1);
                assert(forall|p: String| peers@.contains_key(p) ==> exists|i: int| 0 <= i < s0.len() && *(#[trigger] s0[i]).0 == p);
            }
            for (peer_id, peer_info) in it_p: peers_it""", "iterator expression bound to a local before the loop (a for-loop evaluates it once either way) so that a proof block can name it; ghost iterator binder"),
    (r"for node in nodes", "let ghost found = nodes@;\n proof { verif_found = found; }\n for node in it_n: nodes", "ghost copy of the engine's answer + ghost iterator binder (specification only)"),
    (r"Err\(_e\) => \{", """Err(_e) => {
                    proof {
                        assert forall|k: Key| #[trigger] known(self, peers_g@, verif_found, k) implies seen_keys@.contains(k) by {
                            assert(known(self, peers_g@, Seq::<NodeInfo>::empty(), k));
                        }
                    }""", "proof block (specification only)"),
    (r"let mut seen_keys: HashSet<Key> = HashSet::new\(\);", "let mut seen_keys: HashSet<Key> = HashSet::new();\n let ghost mut verif_found: Seq<NodeInfo> = Seq::empty();", "ghost variable (specification only)"),
]
it["loops"] = {
    0: """
                invariant listed_once(all_nodes@, seen_keys@),
                    forall|i: int| 0 <= i < it_p.seq().len() ==> peers_g@.contains_key(*(#[trigger] it_p.seq()[i]).0) && peers_g@[*it_p.seq()[i].0] == *it_p.seq()[i].1,
                    forall|p: String| peers_g@.contains_key(p) ==> exists|i: int| 0 <= i < it_p.seq().len() && *(#[trigger] it_p.seq()[i]).0 == p,
                    forall|i: int| 0 <= i < it_p.index@ ==> ((#[trigger] it_p.seq()[i]).1.is_connected && !is_local(self, it_p.seq()[i].0@) && it_p.seq()[i].1.addresses@.len() > 0
                        ==> seen_keys@.contains(it_p.seq()[i].1.dht_key)),
""",
    1: """
                        invariant listed_once(all_nodes@, seen_keys@), found == it_n.seq(),
                            forall|k: Key| #[trigger] known(self, peers_g@, Seq::<NodeInfo>::empty(), k) ==> seen_keys@.contains(k),
                            forall|j: int| 0 <= j < it_n.index@ ==> (!is_local(self, hex_of((#[trigger] found[j]).id)) ==> seen_keys@.contains(found[j].id.0.0)),
""",
}
it["after_loop"] = {
    1: """proof {
                        assert forall|k: Key| #[trigger] known(self, peers_g@, verif_found, k) implies seen_keys@.contains(k) by {
                            if exists|j: int| 0 <= j < found.len() && !is_local(self, hex_of((#[trigger] found[j]).id)) && found[j].id.0.0 == k {
                            } else {
                                assert(known(self, peers_g@, Seq::<NodeInfo>::empty(), k));
                            }
                        }
                    }""",
    0: """proof {
                assert forall|k: Key| #[trigger] known(self, peers_g@, Seq::<NodeInfo>::empty(), k) implies seen_keys@.contains(k) by {
                    let p = choose|p: String| #[trigger] peers_g@.contains_key(p) && peers_g@[p].is_connected && !is_local(self, p@) && peers_g@[p].addresses@.len() > 0 && peers_g@[p].dht_key == k;
                    assert(peers_g@.contains_key(p));
                }
            }""",
}
it["outline_tail"] = dict(it["outline_tail"])
it["outline_tail"]["spec"] = "    ensures tail_post(all_nodes@, count, *key, r@),"
it["outline_tail"]["call"] = """let ghost all = all_nodes@; let ghost seen = seen_keys@;
        let r = verif_sort_take_tail(all_nodes, key, count);
        proof {
            assert(verif_found == found_or_empty(dht_g, DhtKey(*key), count));
            assert forall|k: Key| #[trigger] known(self, peers_g@, verif_found, k) implies named_or_not_closer(r@, count, *key, k) by {
                lemma_local_answer(self, all, seen, count, *key, r@, k);
            }
            assert forall|i: int, j: int| 0 <= i < j < r@.len() implies (#[trigger] r@[i]).cached_dht_key.is_some() && (#[trigger] r@[j]).cached_dht_key.is_some()
                    && r@[i].cached_dht_key.unwrap().0 != r@[j].cached_dht_key.unwrap().0 by {
                let (a, b) = choose|a: int, b: int| 0 <= a < all.len() && 0 <= b < all.len() && a != b && #[trigger] r@[i] == all[a] && #[trigger] r@[j] == all[b];
                if a < b { assert(all[a].cached_dht_key.unwrap().0 != all[b].cached_dht_key.unwrap().0); } else { assert(all[b].cached_dht_key.unwrap().0 != all[a].cached_dht_key.unwrap().0); }
            }
        }
        r"""
it["spec"] = """
    ensures
        r@.len() <= count, // @C02/local/never_more_than_count_entries
        keys_distinct(r@), // @C02/local/each_peer_is_named_once_under_a_single_identifier
        forall|k: Key| #[trigger] known(self, peers_g@, found_or_empty(dht_g, DhtKey(*key), count), k)
            ==> named_or_not_closer(r@, count, *key, k), // @C02/local/no_known_peer_that_is_closer_than_a_named_one_is_left_out
"""

UNITS["mgr"]["trusted"] += [
    "ASSUMED (tail_post): the outlined tail `sort_by(compare_node_distance); into_iter().take(count).collect()` returns the first min(count, len) elements of a reordering of the list that is ascending under the comparator (std stable sort; the comparator is a total preorder: lemma_rank_cmp_is_a_total_preorder) -- every element left out is ranked no earlier than every element kept",
    "opaque: is_local_peer_id is a function of (manager, id text); NodeId's Display text is a function of the id; DhtCoreEngine::find_nodes returns some entries or an error (its exactness is the bucket unit's find_closest_nodes contract; the async wrapper find_nodes itself is not extracted)",
]

# logging statements have no effect on any value a contract mentions: dropped wherever they occur (echoed in the evidence)
_ALL_LOG = ["tracing::warn!", "tracing::trace!", "tracing::debug!", "tracing::info!", "tracing::error!", "warn!", "debug!", "info!", "trace!", "error!"]
for _u in ("keystore", "placement"):
    for _it in UNITS[_u]["items"]:
        _it["drop_macros"] = sorted(set(list(_it.get("drop_macros", [])) + _ALL_LOG), key=len, reverse=True)
