"""Verus unit recipes. Every `items` entry names a REAL function of /repo whose
text is copied verbatim on every run; `spec`, `loops`, `loop_proofs` only add
specification/ghost text. See lib/extract.py for the allowed operations."""

_BUCKET_SPEC = lambda other, tag: f"""
    ensures
        is_bucket_of(self.node_id.0.0, {other}, r as int), // @C02/bucket_index/{tag}
"""
_BUCKET_LOOP_INV = lambda other: f"""
            invariant is_xor(self.node_id.0.0, {other}, distance),
                forall|j: int| 0 <= j < i ==> !differ_at(self.node_id.0.0, {other}, j),
"""
_BUCKET_LOOP_PROOF = lambda other: f"""
            proof {{ lemma_xor_bits(self.node_id.0.0, {other}, distance, i as int); }}
"""

UNITS = {
    "bucket": {
        "property": "C02",
        "src": "src/dht/core_engine.rs",
        "spec": "verus/bucket.spec.rs",
        "shims": {
            "DhtKey": (None, {"0": "[u8; 32]"}),
            "NodeId": (None, {"0": "DhtKey"}),
            "KademliaRoutingTable": (None, {"node_id": "NodeId"}),
        },
        "items": [
            {"impl": "KademliaRoutingTable", "fn": "get_bucket_index",
             "spec": _BUCKET_SPEC("node_id.0.0", "verus_node_first_differing_bit"), "loop_count": 1,
             "loops": {0: _BUCKET_LOOP_INV("node_id.0.0")},
             "loop_proofs": {0: _BUCKET_LOOP_PROOF("node_id.0.0")}},
            {"impl": "KademliaRoutingTable", "fn": "get_bucket_index_for_key",
             "spec": _BUCKET_SPEC("key.0", "verus_key_first_differing_bit"), "loop_count": 1,
             "loops": {0: _BUCKET_LOOP_INV("key.0")},
             "loop_proofs": {0: _BUCKET_LOOP_PROOF("key.0")}},
        ],
        "paired_kani": ["c02_bucket_index_node", "c02_bucket_index_key"],
        "trusted": [
            "verus external_body: DhtKey::distance ensures is_xor (same contract proved on the real fn by Kani c02_distance_is_xor)",
        ],
    },
}
