// Spec side of unit `placement` (C17): specification only.
//
// DiversityEnforcer::{new, validate_selection} and WeightedPlacementStrategy::select_nodes (await-erased) are
// extracted from src/placement/algorithms.rs. ASSUMED: GeographicLocation::distance_km is a deterministic
// function of its two arguments (haversine formula over f64 trigonometry: uninterpreted -- "no two closer
// than 50 km" is a statement about the distance this function measures); HashMap / HashSet through vstd
// (key model assumed for NetworkRegion, u32 via vstd, NodeId); the `*map.entry(k).or_insert(0) += 1`
// statement behind a shim; IEEE operators uninterpreted (float prelude).

pub mod verif_place_std {
    use vstd::prelude::*;
    use std::collections::HashMap;
    pub struct VerifError {}
    pub type PlacementResult<T> = core::result::Result<T, VerifError>;

    /// adaptive::NodeId: opaque identifier (derives Clone, PartialEq, Eq, Hash)
    #[verifier::external_body]
    pub struct NodeId { _p: u8 }
    impl Clone for NodeId {
        #[verifier::external_body]
        fn clone(&self) -> (r: Self) ensures r == *self { unimplemented!() }
    }
    impl PartialEq for NodeId {
        #[verifier::external_body]
        fn eq(&self, other: &NodeId) -> (r: bool) ensures r == (*self == *other) { unimplemented!() }
    }
    impl Eq for NodeId {}
    impl std::hash::Hash for NodeId {
        #[verifier::external_body]
        fn hash<H: std::hash::Hasher>(&self, state: &mut H) { unimplemented!() }
    }

    #[derive(Clone, Copy)]
    pub struct GeographicLocation {
        pub latitude: f64,
        pub longitude: f64,
    }
    /// the distance GeographicLocation::distance_km measures (haversine, km)
    pub uninterp spec fn dist_km(a: GeographicLocation, b: GeographicLocation) -> f64;
    impl GeographicLocation {
        #[verifier::external_body]
        pub fn distance_km(&self, other: &GeographicLocation) -> (r: f64)
            ensures r == dist_km(*self, *other),
        { unimplemented!() }
    }

    /// `*map.entry(k).or_insert(0) += 1;` (the extraction renames exactly that statement)
    #[verifier::external_body]
    pub fn verif_count_inc<K: std::hash::Hash + Eq>(m: &mut HashMap<K, usize>, k: K)
        requires
            vstd::std_specs::hash::obeys_key_model::<K>(),
            old(m)@.contains_key(k) ==> old(m)@[k] < usize::MAX,
        ensures
            final(m)@ == old(m)@.insert(k, if old(m)@.contains_key(k) { (old(m)@[k] + 1) as usize } else { 1usize }),
    { unimplemented!() }
}
pub use verif_place_std::*;
use std::collections::HashMap;
use std::collections::HashSet;
use vstd::std_specs::iter::IteratorSpec;

impl PartialEq for NetworkRegion {
    #[verifier::external_body]
    fn eq(&self, other: &NetworkRegion) -> (r: bool) ensures r == (*self == *other) { unimplemented!() }
}
impl Eq for NetworkRegion {}
impl Clone for NetworkRegion {
    #[verifier::external_body]
    fn clone(&self) -> (r: Self) ensures r == *self { unimplemented!() }
}
impl Copy for NetworkRegion {}
impl std::hash::Hash for NetworkRegion {
    #[verifier::external_body]
    fn hash<H: std::hash::Hasher>(&self, state: &mut H) { unimplemented!() }
}
pub mod verif_place_ax {
    use vstd::prelude::*;
    use super::NetworkRegion;
    use super::verif_place_std::NodeId;
    #[verifier::external_body]
    pub broadcast proof fn axiom_region_key_model()
        ensures #[trigger] vstd::std_specs::hash::obeys_key_model::<NetworkRegion>(),
    {}
    /// ASSUMED: the haversine distance is symmetric (the formula squares the half-angle sines and multiplies the two cosines)
    #[verifier::external_body]
    pub broadcast proof fn axiom_dist_symmetric(a: super::verif_place_std::GeographicLocation, b: super::verif_place_std::GeographicLocation)
        ensures #[trigger] super::verif_place_std::dist_km(a, b) == super::verif_place_std::dist_km(b, a),
    {}
    #[verifier::external_body]
    pub broadcast proof fn axiom_node_id_key_model()
        ensures #[trigger] vstd::std_specs::hash::obeys_key_model::<NodeId>(),
    {}
}
broadcast use {verif_float::group_float, verif_place_ax::axiom_region_key_model, verif_place_ax::axiom_node_id_key_model, verif_place_ax::axiom_dist_symmetric};

pub struct DiversityEnforcer {
    pub min_geographic_distance: f64,
    pub max_nodes_per_region: usize,
    pub max_nodes_per_asn: usize,
    pub diversity_penalty: f64,
}

pub type Sel = (NodeId, GeographicLocation, u32, NetworkRegion);

/// number of entries of `s` in region `g` / in autonomous system `a`
pub open spec fn count_region(s: Seq<Sel>, g: NetworkRegion) -> nat
    decreases s.len()
{
    if s.len() == 0 { 0 } else { count_region(s.drop_last(), g) + if s.last().3 == g { 1nat } else { 0nat } }
}
pub open spec fn count_asn(s: Seq<Sel>, a: u32) -> nat
    decreases s.len()
{
    if s.len() == 0 { 0 } else { count_asn(s.drop_last(), a) + if s.last().2 == a { 1nat } else { 0nat } }
}
/// the map built by the counting loop after the first n entries
pub open spec fn region_tally(m: Map<NetworkRegion, usize>, s: Seq<Sel>, n: int) -> bool {
    forall|g: NetworkRegion| (#[trigger] m.contains_key(g) <==> count_region(s.take(n), g) > 0)
        && (m.contains_key(g) ==> m[g] == count_region(s.take(n), g))
}
pub open spec fn asn_tally(m: Map<u32, usize>, s: Seq<Sel>, n: int) -> bool {
    forall|a: u32| (#[trigger] m.contains_key(a) <==> count_asn(s.take(n), a) > 0)
        && (m.contains_key(a) ==> m[a] == count_asn(s.take(n), a))
}
pub proof fn lemma_count_bound(s: Seq<Sel>, g: NetworkRegion, a: u32)
    ensures count_region(s, g) <= s.len(), count_asn(s, a) <= s.len(),
    decreases s.len(),
{
    if s.len() > 0 { lemma_count_bound(s.drop_last(), g, a); }
}
pub proof fn lemma_take_step(s: Seq<Sel>, n: int)
    requires 0 <= n < s.len(),
    ensures s.take(n + 1).drop_last() == s.take(n), s.take(n + 1).last() == s[n],
{
    assert(s.take(n + 1).drop_last() =~= s.take(n));
}

/// the three diversity constraints, as validate_selection measures them
pub open spec fn far_apart(e: DiversityEnforcer, s: Seq<Sel>) -> bool {
    forall|i: int, j: int| 0 <= i < s.len() && 0 <= j < s.len() && i != j ==>
        !f_lt(#[trigger] dist_km(s[i].1, s[j].1), f_div(e.min_geographic_distance, 2.0f64))
}
pub open spec fn regions_capped(e: DiversityEnforcer, s: Seq<Sel>) -> bool {
    forall|g: NetworkRegion| #[trigger] count_region(s, g) <= e.max_nodes_per_region
}
pub open spec fn asns_capped(e: DiversityEnforcer, s: Seq<Sel>) -> bool {
    forall|a: u32| #[trigger] count_asn(s, a) <= e.max_nodes_per_asn
}

// ---------------------------------------------------------------------------------------------
// the selection loop (WeightedPlacementStrategy::select_nodes, await-erased) and calculate_weights
// ---------------------------------------------------------------------------------------------
pub mod verif_place_std2 {
    use vstd::prelude::*;
    use super::verif_place_std::*;
    use super::NetworkRegion;
    use std::collections::{HashMap, HashSet};
    /// adaptive::{EigenTrustEngine, PerformanceMonitor}, std::time::Duration, PlacementConfig: opaque (never read by the extracted text
    /// except through calculate_weight's arguments)
    #[verifier::external_body] pub struct EigenTrustEngine { _p: u8 }
    #[verifier::external_body] pub struct PerformanceMonitor { _p: u8 }
    #[verifier::external_body] pub struct Duration { _p: u8 }
    pub struct OptimizationWeights { pub trust_weight: f64, pub performance_weight: f64, pub capacity_weight: f64 }
    pub struct PlacementConfig { pub optimization_weights: OptimizationWeights }

    pub type Meta = (GeographicLocation, u32, NetworkRegion);
    pub type SelT = (NodeId, GeographicLocation, u32, NetworkRegion);

    /// `map.get(k).ok_or_else(|| err)` on the metadata map
    #[verifier::external_body]
    pub fn verif_meta_get<'a>(m: &'a HashMap<NodeId, Meta>, k: &NodeId) -> (r: PlacementResult<&'a Meta>)
        ensures r.is_ok() == m@.contains_key(*k), r matches Ok(v) ==> *v == m@[*k],
    { unimplemented!() }
    /// `v.first().ok_or(err)?.clone()` is written with this shim for `first().ok_or(err)`
    #[verifier::external_body]
    pub fn verif_first<'a>(v: &'a Vec<NodeId>) -> (r: PlacementResult<&'a NodeId>)
        ensures r.is_ok() == (v@.len() > 0), r matches Ok(x) ==> *x == v@[0],
    { unimplemented!() }
    /// `xs.into_iter().map(|(node_id, _, _, _)| node_id).collect()`
    #[verifier::external_body]
    pub fn verif_ids_of(xs: Vec<SelT>) -> (r: Vec<NodeId>)
        ensures r@.len() == xs@.len(), forall|i: int| 0 <= i < xs@.len() ==> #[trigger] r@[i] == xs@[i].0,
    { unimplemented!() }
    /// `weights.sort_by(..)`: a permutation (std: sort_by reorders, adds / removes nothing)
    #[verifier::external_body]
    pub fn verif_sort_weights(w: &mut Vec<(NodeId, f64)>)
        ensures final(w)@.len() == old(w)@.len(), final(w)@.to_multiset() == old(w)@.to_multiset(),
    { unimplemented!() }
    /// `set.clone()`
    #[verifier::external_body]
    pub fn verif_clone_set(s: &HashSet<NodeId>) -> (r: HashSet<NodeId>)
        ensures r@ == s@,
    { unimplemented!() }
    /// fastrand::f64(): some value; f64::powf: some value (the key values decide only WHICH candidates are drawn)
    #[verifier::external_body]
    pub fn verif_rand_f64() -> f64 { unimplemented!() }
    #[verifier::external_body]
    pub fn verif_powf(x: f64, y: f64) -> f64 { unimplemented!() }
    /// `xs.iter().map(f).collect::<Result<Vec<_>, _>>()`: every element mapped in order, or the first error (std docs)
    #[verifier::external_body]
    pub fn verif_try_map_collect<F: Fn(&(NodeId, f64)) -> PlacementResult<(f64, NodeId)>>(xs: &[(NodeId, f64)], f: F) -> (r: PlacementResult<Vec<(f64, NodeId)>>)
        requires forall|i: int| 0 <= i < xs@.len() ==> call_requires(f, (&#[trigger] xs@[i],)),
        ensures r matches Ok(v) ==> v@.len() == xs@.len() && forall|i: int| 0 <= i < xs@.len() ==> call_ensures(f, (&xs@[i],), Ok(#[trigger] v@[i])),
    { unimplemented!() }
    /// `keys.sort_by(cmp)`: a permutation
    #[verifier::external_body]
    pub fn verif_sort_keys(w: &mut Vec<(f64, NodeId)>)
        ensures final(w)@.len() == old(w)@.len(), final(w)@.to_multiset() == old(w)@.to_multiset(),
    { unimplemented!() }
    /// `keys.into_iter().take(k).map(|(_, id)| id).collect()`: the ids of the first min(k, len) entries, in order
    #[verifier::external_body]
    pub fn verif_take_ids(w: Vec<(f64, NodeId)>, k: usize) -> (r: Vec<NodeId>)
        ensures r@.len() == (if k <= w@.len() { k as int } else { w@.len() as int }), forall|i: int| 0 <= i < r@.len() ==> #[trigger] r@[i] == w@[i].1,
    { unimplemented!() }
    #[verifier::external_body]
    pub fn verif_strategy_name() -> String { unimplemented!() }
    #[verifier::external_body]
    pub fn verif_empty_string_map() -> HashMap<String, String> { unimplemented!() }
    #[verifier::external_body]
    pub fn verif_elapsed() -> Duration { unimplemented!() }
}
pub use verif_place_std2::*;

pub struct PlacementDecision {
    pub selected_nodes: Vec<NodeId>,
    pub backup_nodes: Vec<NodeId>,
    pub placement_strategy: String,
    pub diversity_score: f64,
    pub estimated_reliability: f64,
    pub selection_time: Duration,
    pub metadata: HashMap<String, String>,
}
pub struct WeightedSampler { pub rng_state: u64 }
pub struct WeightedPlacementStrategy {
    pub sampler: WeightedSampler,
    pub diversity_enforcer: DiversityEnforcer,
    pub config: PlacementConfig,
}

impl WeightedSampler {
    /// (Kani: c17_weight_is_finite_positive_or_error, complete) some weight or an error
    #[verifier::external_body]
    pub fn calculate_weight(&self, node_id: &NodeId, trust_score: f64, stability_score: f64, capacity_factor: f64, diversity_factor: f64,
                            trust_weight: f64, performance_weight: f64, capacity_weight: f64) -> (r: PlacementResult<f64>)
    { unimplemented!() }
}
impl DiversityEnforcer {
    #[verifier::external_body]
    pub fn calculate_diversity_factor(&self, node_id: &NodeId, location: &GeographicLocation, asn: u32, region: &NetworkRegion, selected_nodes: &[SelT]) -> (r: f64)
    { unimplemented!() }
}

/// x is the id of one of the weighted candidates
pub open spec fn drawn_from(c: Seq<(NodeId, f64)>, x: NodeId) -> bool { exists|i: int| 0 <= i < c.len() && (#[trigger] c[i]).0 == x }
/// ids of a selection
pub open spec fn ids(s: Seq<SelT>) -> Seq<NodeId> { s.map_values(|e: SelT| e.0) }
pub open spec fn distinct(v: Seq<NodeId>) -> bool { forall|i: int, j: int| 0 <= i < j < v.len() ==> v[i] != v[j] }
/// every selected entry carries the metadata the caller supplied for that node
pub open spec fn meta_of(s: Seq<SelT>, m: Map<NodeId, Meta>) -> bool {
    forall|i: int| 0 <= i < s.len() ==> m.contains_key(#[trigger] s[i].0) && (s[i].1, s[i].2, s[i].3) == m[s[i].0]
}
/// the selection a decision names, with the metadata of each node
pub open spec fn with_meta(v: Seq<NodeId>, m: Map<NodeId, Meta>) -> Seq<SelT> {
    Seq::new(v.len(), |i: int| (v[i], m[v[i]].0, m[v[i]].1, m[v[i]].2))
}

/// what `set.iter()` yields (vstd: the elements, each once)
pub proof fn lemma_set_iter_facts(m: Set<NodeId>, s: Seq<&NodeId>)
    requires s.no_duplicates(), s.unref().to_set() == m,
    ensures forall|i: int| 0 <= i < s.len() ==> m.contains(*(#[trigger] s[i])),
{
    assert forall|i: int| 0 <= i < s.len() implies m.contains(*(#[trigger] s[i])) by {
        assert(s.unref()[i] == *s[i]);
        assert(s.unref().to_set().contains(s.unref()[i]));
    }
}
