// Spec side of unit `pending` (C04, reply matching): specification only.
//
// Three critical sections -- the statements that run while the pending-table lock guard is held -- are
// outlined verbatim into functions of the guarded map (block outlining, DESIGN 0.2):
//   * DhtNetworkManager::handle_dht_response (an `async fn` without any `.await`: the whole body, with the
//     `active_operations.lock()` statement replaced by the parameter `ops`);
//   * the `/rr/` reply branch of TransportHandle::start_message_receiving_system (the block under
//     `active_requests.write().await`; every exit of that block is a `continue` of the receive loop,
//     written as `return` in the outlined function);
//   * the registration block of TransportHandle::send_request (cap check + insert).
// ASSUMED: std::collections::HashMap<String, V> get / get_mut / remove / insert / len as a finite map
// (shims `verif_get`, `verif_get_mut`, `verif_remove`; insert / len through vstd); `[T]::contains` is
// membership by ==; String == / clone / to_string compare / copy the character sequence;
// tokio::sync::oneshot::Sender::send consumes the sender (opaque); that the lock guard serialises callers
// is the contract of std::sync::Mutex / tokio::sync::RwLock.

pub mod verif_pending_std {
    use vstd::prelude::*;
    use std::collections::HashMap;
    pub struct VerifError {}
    pub type PeerId = String;
    pub mod oneshot {
        use vstd::prelude::*;
        /// tokio::sync::oneshot::Sender: opaque; `send` consumes it
        #[verifier::external_body]
        #[verifier::reject_recursive_types(T)]
        pub struct Sender<T> { _p: core::marker::PhantomData<T> }
        impl<T> Sender<T> {
            #[verifier::external_body]
            pub fn send(self, t: T) -> (r: core::result::Result<(), T>) { unimplemented!() }
        }
    }
    #[verifier::external_body]
    pub struct DhtNetworkResult { _p: u8 }
    impl Clone for DhtNetworkResult {
        #[verifier::external_body]
        fn clone(&self) -> (r: Self) ensures r == *self { unimplemented!() }
    }
    pub assume_specification<T: PartialEq> [<[T]>::contains] (s: &[T], x: &T) -> (r: bool)
        ensures r == s@.contains(*x);
    /// `map.get(k)` / `map.get_mut(k)` / `map.remove(k)` on HashMap<String, V> (std docs)
    #[verifier::external_body]
    pub fn verif_get<'a, V>(m: &'a HashMap<String, V>, k: &String) -> (r: Option<&'a V>)
        ensures r.is_some() == m@.contains_key(*k), r.is_some() ==> *r.unwrap() == m@[*k],
    { unimplemented!() }
    #[verifier::external_body]
    pub fn verif_get_mut<'a, V>(m: &'a mut HashMap<String, V>, k: &String) -> (r: Option<&'a mut V>)
        ensures
            r.is_some() == old(m)@.contains_key(*k),
            r.is_some() ==> *r.unwrap() == old(m)@[*k] && final(m)@ == old(m)@.insert(*k, *final(r.unwrap())),
            r.is_none() ==> final(m)@ == old(m)@,
    { unimplemented!() }
    #[verifier::external_body]
    pub fn verif_remove<V>(m: &mut HashMap<String, V>, k: &String) -> (r: Option<V>)
        ensures r.is_some() == old(m)@.contains_key(*k), r.is_some() ==> r.unwrap() == old(m)@[*k], final(m)@ == old(m)@.remove(*k),
    { unimplemented!() }
    #[verifier::external_body]
    pub fn verif_insert<V>(m: &mut HashMap<String, V>, k: String, v: V)
        ensures final(m)@ == old(m)@.insert(k, v),
    { unimplemented!() }
    #[verifier::external_body]
    pub fn verif_to_string(s: &String) -> (r: String) ensures r@ == s@ { unimplemented!() }
    #[verifier::external_body]
    pub fn verif_len<V>(m: &HashMap<String, V>) -> (r: usize)
        ensures r == m@.len(),
    { unimplemented!() }
}
pub use verif_pending_std::*;
use std::collections::HashMap;
pub type Result<T> = core::result::Result<T, VerifError>;

pub struct DhtNetworkMessage {
    pub message_id: String,
    pub source: PeerId,
    pub result: Option<DhtNetworkResult>,
}
pub struct DhtOperationContext {
    pub peer_id: PeerId,
    pub contacted_nodes: Vec<PeerId>,
    pub response_tx: Option<oneshot::Sender<(PeerId, DhtNetworkResult)>>,
}
pub struct PendingRequest {
    pub response_tx: oneshot::Sender<Vec<u8>>,
    pub expected_peer: String,
}
pub struct RequestResponseEnvelope {
    pub message_id: String,
    pub is_response: bool,
    pub payload: Vec<u8>,
}
pub struct DhtNetworkManager {}
pub struct TransportHandle {}

/// "arrives on the authenticated connection of the peer the request was sent to"
pub open spec fn authorized(c: DhtOperationContext, sender: PeerId) -> bool {
    c.peer_id@ == sender@ || c.contacted_nodes@.contains(sender)
}
/// every pending entry other than `id` keeps its presence and its content
pub open spec fn others_untouched<V>(m0: Map<String, V>, m1: Map<String, V>, id: String) -> bool {
    forall|k: String| k != id ==> (m1.contains_key(k) == m0.contains_key(k) && (m0.contains_key(k) ==> m1[k] == m0[k]))
}
