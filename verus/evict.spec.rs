// Spec side of unit `evict` (C16, eviction policy of EvictionManager): specification only.
//
// ASSUMED (all listed in the evidence):
//   * std::collections::HashMap through vstd's specifications (obeys_key_model for DhtNodeId);
//   * `map.entry(k).or_default()` (renamed by the extraction to the shim `verif_entry_or_default`) returns a reference to the existing value, or to a freshly
//     inserted NodeLivenessState::default(); `impl Default for NodeLivenessState` is `Self::new()`
//     (the extractor checks that text on every run) and `new()` is verified in this unit;
//   * IEEE-754 `<` on f64 is a deterministic function `f64_lt` of its two operands;
//   * derived Clone of DhtNodeId / EvictionReason returns an equal value; Option::filter, Option::map;
//   * `format!("{:.4}", score)` (renamed to the shim `verif_format_score`, whose body IS the
//     format! call) returns some String -- the rendered text is not part of any obligation.

pub mod verif_evict_std {
    use vstd::prelude::*;
    use vstd::std_specs::cmp::*;

    /// IEEE-754 `<` as executed by the machine (deterministic; NaN compares false).
    pub uninterp spec fn f64_lt(a: f64, b: f64) -> bool;
    #[verifier::external_body]
    pub broadcast proof fn axiom_f64_lt(a: f64, b: f64, r: bool)
        requires #[trigger] lt_ensures::<f64>(a, b, r),
        ensures r == f64_lt(a, b),
    {}

    #[verifier::external_body]
    pub struct DhtNodeId { _p: [u8; 32] }
    impl Clone for DhtNodeId {
        #[verifier::external_body]
        fn clone(&self) -> (r: Self) ensures r == *self { unimplemented!() }
    }
    impl PartialEq for DhtNodeId {
        #[verifier::external_body]
        fn eq(&self, other: &DhtNodeId) -> (r: bool) ensures r == (*self == *other) { unimplemented!() }
    }
    impl Eq for DhtNodeId {}
    impl std::hash::Hash for DhtNodeId {
        #[verifier::external_body]
        fn hash<H: std::hash::Hasher>(&self, state: &mut H) { unimplemented!() }
    }
    #[verifier::external_body]
    pub broadcast proof fn axiom_id_key_model()
        ensures #[trigger] vstd::std_specs::hash::obeys_key_model::<DhtNodeId>(),
    {}

    pub assume_specification<T, P: FnOnce(&T) -> bool> [Option::<T>::filter] (o: Option<T>, p: P) -> (r: Option<T>)
        requires o.is_some() ==> call_requires(p, (&o.unwrap(),)),
        ensures o.is_none() ==> r.is_none(),
                o.is_some() ==> ((call_ensures(p, (&o.unwrap(),), true) && r == o) || (call_ensures(p, (&o.unwrap(),), false) && r.is_none()));

    pub assume_specification<'a, T> [std::option::Option::<&T>::copied] (_0: std::option::Option<&'a T>) -> (r: std::option::Option<T>)
        where T: std::marker::Copy,
        ensures r.is_some() == _0.is_some(), r.is_some() ==> r.unwrap() == *_0.unwrap();

    #[verifier::external_body]
    pub fn verif_format_score(score: f64) -> String { format!("{:.4}", score) }
}
use verif_evict_std::*;
broadcast use {verif_evict_std::axiom_f64_lt, verif_evict_std::axiom_id_key_model};
use std::collections::HashMap;
use vstd::std_specs::iter::IteratorSpec;

pub struct NodeLivenessState {
    pub consecutive_failures: u32,
    pub total_successes: u64,
    pub total_failures: u64,
}
pub struct MaintenanceConfig {
    pub max_consecutive_failures: u32,
    pub min_trust_threshold: f64,
}
pub struct EvictionManager {
    pub config: MaintenanceConfig,
    pub liveness_states: HashMap<DhtNodeId, NodeLivenessState>,
    pub trust_scores: HashMap<DhtNodeId, f64>,
    pub marked_for_eviction: HashMap<DhtNodeId, EvictionReason>,
}
impl Clone for EvictionReason {
    #[verifier::external_body]
    fn clone(&self) -> (r: Self) ensures r == *self { unimplemented!() }
}

/// Stands for `m.entry(k).or_default()` (the extraction renames exactly that call to this shim).
#[verifier::external_body]
pub fn verif_entry_or_default(m: &mut HashMap<DhtNodeId, NodeLivenessState>, k: DhtNodeId) -> (r: &mut NodeLivenessState)
    ensures
        old(m)@.contains_key(k) ==> *r == old(m)@[k],
        !old(m)@.contains_key(k) ==> r.consecutive_failures == 0 && r.total_successes == 0 && r.total_failures == 0,
        final(m)@ == old(m)@.insert(k, *final(r)),
{
    unimplemented!()
}

impl EvictionManager {
    /// consecutive failures recorded for `x` (0 when no liveness state is tracked)
    pub open spec fn cf_of(&self, x: DhtNodeId) -> int {
        if self.liveness_states@.contains_key(x) { self.liveness_states@[x].consecutive_failures as int } else { 0 }
    }
    /// from the statement: "accumulated the configured number of consecutive failures since its last success"
    pub open spec fn fail_cand(&self, x: DhtNodeId) -> bool {
        self.liveness_states@.contains_key(x) && self.liveness_states@[x].consecutive_failures >= self.config.max_consecutive_failures
    }
    /// "its trust score is below the configured threshold"
    pub open spec fn trust_cand(&self, x: DhtNodeId) -> bool {
        self.trust_scores@.contains_key(x) && f64_lt(self.trust_scores@[x], self.config.min_trust_threshold)
    }
    /// "it was explicitly rejected"
    pub open spec fn marked(&self, x: DhtNodeId) -> bool {
        self.marked_for_eviction@.contains_key(x)
    }
    pub open spec fn candidate(&self, x: DhtNodeId) -> bool {
        self.marked(x) || self.fail_cand(x) || self.trust_cand(x)
    }
    /// precedence of the reported reason: explicit rejection, then failures, then trust
    pub open spec fn reason_ok(&self, x: DhtNodeId, reason: EvictionReason) -> bool {
        if self.marked(x) { reason == self.marked_for_eviction@[x] }
        else if self.fail_cand(x) { reason == EvictionReason::ConsecutiveFailures(self.liveness_states@[x].consecutive_failures) }
        else { self.trust_cand(x) && reason is LowTrust }
    }
    pub open spec fn same_config(&self, o: &EvictionManager) -> bool { self.config == o.config }
    /// liveness map changed exactly at `x`
    pub open spec fn liveness_only_at(&self, o: &EvictionManager, x: DhtNodeId) -> bool {
        forall|y: DhtNodeId| y != x ==> (self.liveness_states@.contains_key(y) == o.liveness_states@.contains_key(y)
            && (o.liveness_states@.contains_key(y) ==> self.liveness_states@[y] == o.liveness_states@[y]))
    }
    pub open spec fn reports_none(&self) -> bool {
        forall|x: DhtNodeId| !self.candidate(x)
    }
}

/// candidate list: exactly the candidates, each once, each with the reason the policy gives
pub open spec fn cands_exact(m: &EvictionManager, r: Seq<(DhtNodeId, EvictionReason)>) -> bool {
    &&& forall|i: int| 0 <= i < r.len() ==> m.candidate((#[trigger] r[i]).0) && m.reason_ok(r[i].0, r[i].1)
    &&& forall|x: DhtNodeId| m.candidate(x) ==> exists|i: int| 0 <= i < r.len() && (#[trigger] r[i]).0 == x
    &&& forall|i: int, j: int| 0 <= i < j < r.len() ==> (#[trigger] r[i]).0 != (#[trigger] r[j]).0
}

/// every listed entry is a candidate with the reason the policy gives; ids pairwise distinct
pub open spec fn cands_sound(m: &EvictionManager, r: Seq<(DhtNodeId, EvictionReason)>) -> bool {
    &&& forall|i: int| 0 <= i < r.len() ==> m.candidate((#[trigger] r[i]).0) && m.reason_ok(r[i].0, r[i].1)
    &&& forall|i: int, j: int| 0 <= i < j < r.len() ==> (#[trigger] r[i]).0 != (#[trigger] r[j]).0
}
pub open spec fn listed(r: Seq<(DhtNodeId, EvictionReason)>, x: DhtNodeId) -> bool {
    exists|i: int| 0 <= i < r.len() && (#[trigger] r[i]).0 == x
}
/// which of the three passes lists a candidate: 0 = explicitly rejected, 1 = has a liveness state, 2 = trust score only
pub open spec fn pass_of(m: &EvictionManager, x: DhtNodeId) -> int {
    if m.marked(x) { 0 } else if m.liveness_states@.contains_key(x) { 1 } else { 2 }
}
proof fn lemma_listed_push(r: Seq<(DhtNodeId, EvictionReason)>, e: (DhtNodeId, EvictionReason))
    ensures listed(r.push(e), e.0),
            forall|x: DhtNodeId| listed(r, x) ==> listed(r.push(e), x),
            forall|x: DhtNodeId| listed(r.push(e), x) ==> (listed(r, x) || x == e.0),
{
    assert(r.push(e)[r.len() as int] == e);
    assert forall|x: DhtNodeId| listed(r, x) implies listed(r.push(e), x) by {
        let i = choose|i: int| 0 <= i < r.len() && (#[trigger] r[i]).0 == x;
        assert(r.push(e)[i] == r[i]);
    }
    assert forall|x: DhtNodeId| listed(r.push(e), x) implies (listed(r, x) || x == e.0) by {
        let i = choose|i: int| 0 <= i < r.push(e).len() && (#[trigger] r.push(e)[i]).0 == x;
        if i < r.len() { assert(r.push(e)[i] == r[i]); }
    }
}

proof fn lemma_sound_push(m: &EvictionManager, c: Seq<(DhtNodeId, EvictionReason)>, e: (DhtNodeId, EvictionReason))
    requires cands_sound(m, c), m.candidate(e.0), m.reason_ok(e.0, e.1), !listed(c, e.0),
    ensures cands_sound(m, c.push(e)),
{
    let r = c.push(e);
    assert forall|i: int| 0 <= i < r.len() implies m.candidate((#[trigger] r[i]).0) && m.reason_ok(r[i].0, r[i].1) by {
        if i < c.len() { assert(r[i] == c[i]); }
    }
    assert forall|i: int, j: int| 0 <= i < j < r.len() implies (#[trigger] r[i]).0 != (#[trigger] r[j]).0 by {
        assert(r[i] == c[i]);
        if j < c.len() { assert(r[j] == c[j]); } else { assert(listed(c, c[i].0)); }
    }
}

proof fn lemma_keys_facts<V>(m: Map<DhtNodeId, V>, s: Seq<&DhtNodeId>)
    requires s.no_duplicates(), s.unref().to_set() == m.dom(),
    ensures
        forall|i: int| 0 <= i < s.len() ==> m.contains_key(*(#[trigger] s[i])),
        forall|i: int, j: int| 0 <= i < j < s.len() ==> *(#[trigger] s[i]) != *(#[trigger] s[j]),
        forall|k: DhtNodeId| m.contains_key(k) ==> exists|i: int| 0 <= i < s.len() && *(#[trigger] s[i]) == k,
{
    assert forall|i: int| 0 <= i < s.len() implies m.contains_key(*(#[trigger] s[i])) by {
        assert(s.unref()[i] == *s[i]);
        assert(s.unref().to_set().contains(s.unref()[i]));
    }
    assert forall|i: int, j: int| 0 <= i < j < s.len() implies *(#[trigger] s[i]) != *(#[trigger] s[j]) by {
        assert(s[i] != s[j]);
    }
    assert forall|k: DhtNodeId| m.contains_key(k) implies exists|i: int| 0 <= i < s.len() && *(#[trigger] s[i]) == k by {
        assert(s.unref().to_set().contains(k));
        let i = choose|i: int| 0 <= i < s.unref().len() && s.unref()[i] == k;
        assert(*s[i] == k);
    }
}

// ---- history level: events on ONE peer replayed through the step contracts ---------------------
// Event: 0 = failure, 1 = success, 2 = forget (remove_node), 3 = anything else (trust update, mark:
// by their contracts they leave the liveness map unchanged).
pub open spec fn fails_since_success(h: Seq<int>) -> nat
    decreases h.len()
{
    if h.len() == 0 { 0 }
    else if h.last() == 0 { fails_since_success(h.drop_last()) + 1 }
    else if h.last() == 1 || h.last() == 2 { 0 }
    else { fails_since_success(h.drop_last()) }
}
/// cf_of(x) after replaying `h` through the contracts of record_failure (+1), record_success (:= 0),
/// remove_node (untracked => 0), others (unchanged), from EvictionManager::new() (nobody tracked => 0).
pub open spec fn cf_by_contract(h: Seq<int>) -> nat
    decreases h.len()
{
    if h.len() == 0 { 0 }
    else if h.last() == 0 { cf_by_contract(h.drop_last()) + 1 }
    else if h.last() == 1 { 0 }
    else if h.last() == 2 { 0 }
    else { cf_by_contract(h.drop_last()) }
}
proof fn lemma_evict_policy_all_histories(h: Seq<int>)
    ensures cf_by_contract(h) == fails_since_success(h),
            h.len() > 0 && h.last() == 1 ==> cf_by_contract(h) == 0,
    decreases h.len()
{
    if h.len() > 0 { lemma_evict_policy_all_histories(h.drop_last()); }
}
