// Shared prelude: IEEE-754 binary64 as executed by the machine (specification only).
//
// vstd gives the exec operators on f64 only uninterpreted RELATIONS (`add_ensures`, `lt_ensures`,
// ...). This prelude states, as ASSUMPTIONS listed in the evidence:
//   (F0) each operator is a deterministic total function of its operands (f_add, f_lt, ...), never
//        panics (its `*_req` precondition is `true`), and `x as f64` is a function of x;
//   (F1..) a small set of order facts about those functions (each one a theorem of IEEE-754
//        round-to-nearest arithmetic; each is PROVED bit-precisely on the real operators by a Kani
//        harness named in the comment next to it -- so they are obligations, not free assumptions).
pub mod verif_float {
    use vstd::prelude::*;
    use vstd::std_specs::cmp::*;
    use vstd::std_specs::ops::*;

    pub uninterp spec fn f_lt(a: f64, b: f64) -> bool;
    pub uninterp spec fn f_le(a: f64, b: f64) -> bool;
    pub uninterp spec fn f_add(a: f64, b: f64) -> f64;
    pub uninterp spec fn f_sub(a: f64, b: f64) -> f64;
    pub uninterp spec fn f_mul(a: f64, b: f64) -> f64;
    pub uninterp spec fn f_div(a: f64, b: f64) -> f64;
    pub uninterp spec fn f_of_nat(n: nat) -> f64;
    pub open spec fn f_gt(a: f64, b: f64) -> bool { f_lt(b, a) }
    pub open spec fn f_ge(a: f64, b: f64) -> bool { f_le(b, a) }

    // (F0) the exec operators are these functions (a > b is b < a, a >= b is b <= a: IEEE, NaN included)
    #[verifier::external_body]
    pub broadcast proof fn axiom_f_lt(a: f64, b: f64, r: bool)
        requires #[trigger] lt_ensures::<f64>(a, b, r), ensures r == f_lt(a, b) {}
    #[verifier::external_body]
    pub broadcast proof fn axiom_f_le(a: f64, b: f64, r: bool)
        requires #[trigger] le_ensures::<f64>(a, b, r), ensures r == f_le(a, b) {}
    #[verifier::external_body]
    pub broadcast proof fn axiom_f_gt(a: f64, b: f64, r: bool)
        requires #[trigger] gt_ensures::<f64>(a, b, r), ensures r == f_lt(b, a) {}
    #[verifier::external_body]
    pub broadcast proof fn axiom_f_ge(a: f64, b: f64, r: bool)
        requires #[trigger] ge_ensures::<f64>(a, b, r), ensures r == f_le(b, a) {}
    #[verifier::external_body]
    pub broadcast proof fn axiom_f_add(a: f64, b: f64, r: f64)
        requires #[trigger] add_ensures::<f64>(a, b, r), ensures r == f_add(a, b) {}
    #[verifier::external_body]
    pub broadcast proof fn axiom_f_sub(a: f64, b: f64, r: f64)
        requires #[trigger] sub_ensures::<f64>(a, b, r), ensures r == f_sub(a, b) {}
    #[verifier::external_body]
    pub broadcast proof fn axiom_f_mul(a: f64, b: f64, r: f64)
        requires #[trigger] mul_ensures::<f64>(a, b, r), ensures r == f_mul(a, b) {}
    #[verifier::external_body]
    pub broadcast proof fn axiom_f_div(a: f64, b: f64, r: f64)
        requires #[trigger] div_ensures::<f64>(a, b, r), ensures r == f_div(a, b) {}
    #[verifier::external_body]
    pub broadcast proof fn axiom_f_add_total(a: f64, b: f64) ensures #[trigger] a.add_req(b) {}
    #[verifier::external_body]
    pub broadcast proof fn axiom_f_sub_total(a: f64, b: f64) ensures #[trigger] a.sub_req(b) {}
    #[verifier::external_body]
    pub broadcast proof fn axiom_f_mul_total(a: f64, b: f64) ensures #[trigger] a.mul_req(b) {}
    #[verifier::external_body]
    pub broadcast proof fn axiom_f_div_total(a: f64, b: f64) ensures #[trigger] a.div_req(b) {}

    // ---- order facts (theorems of IEEE-754 round-to-nearest; each PROVED on the real f64 operators by the
    //      Kani harness named next to it, over the full f64 domain unless a bound is stated) -------------
    /// largest finite f64
    pub open spec fn f_max() -> f64 { 1.7976931348623157e308f64 }
    /// finite and non-negative (NaN and the infinities excluded)
    pub open spec fn nn_fin(x: f64) -> bool { f_le(0.0f64, x) && f_le(x, f_max()) }
    /// in [0, 1]
    pub open spec fn is_unit(w: f64) -> bool { f_le(0.0f64, w) && f_le(w, 1.0f64) }

    // Kani: float_order_laws (complete)
    #[verifier::external_body]
    pub proof fn axiom_f_order(a: f64, b: f64, c: f64)
        ensures
            f_le(a, b) && f_le(b, c) ==> f_le(a, c),
            f_lt(a, b) && f_le(b, c) ==> f_lt(a, c),
            f_le(a, b) && f_lt(b, c) ==> f_lt(a, c),
            f_lt(a, b) ==> !f_le(b, a) && f_le(a, b),
            f_le(a, b) ==> f_le(a, a) && f_le(b, b),
    {}
    // Kani: float_literal_facts (complete)
    #[verifier::external_body]
    pub proof fn axiom_f_literals()
        ensures nn_fin(0.0f64), is_unit(0.0f64), is_unit(0.5f64), is_unit(1.0f64), f_lt(0.0f64, 0.5f64), f_lt(0.5f64, 1.0f64), f_le(1.0f64, f_max()),
    {}
    // Kani: float_add_monotone (complete)
    #[verifier::external_body]
    pub proof fn axiom_f_add_monotone(a: f64, b: f64, w: f64)
        requires nn_fin(a), nn_fin(b), f_le(a, b), is_unit(w),
        ensures f_le(f_add(a, w), f_add(b, w)), f_le(a, f_add(a, w)), nn_fin(f_add(a, w)),
                f_lt(0.0f64, w) || f_lt(0.0f64, a) ==> f_lt(0.0f64, f_add(a, w)),
    {}
    // ASSUMED (theorem of correctly rounded IEEE division; the Kani harness c15_float_div_monotone exists but
    // SAT on two 64-bit dividers did not finish here, so it is not run)
    #[verifier::external_body]
    pub proof fn axiom_f_div_monotone(a: f64, b: f64, t: f64)
        requires nn_fin(a), nn_fin(b), f_le(a, b), nn_fin(t), f_lt(0.0f64, t),
        ensures f_le(f_div(a, t), f_div(b, t)),
    {}
    // ASSUMED (x / x == 1 for finite non-zero x under correctly rounded division; harness c15_float_div_self not run, same reason)
    #[verifier::external_body]
    pub proof fn axiom_f_div_self(x: f64)
        requires nn_fin(x), f_lt(0.0f64, x),
        ensures f_le(1.0f64, f_div(x, x)),
    {}
    // Kani: float_of_nat_monotone (complete over u64)
    #[verifier::external_body]
    pub proof fn axiom_f_of_nat(a: nat, b: nat)
        requires a <= b, b <= u64::MAX,
        ensures f_le(f_of_nat(a), f_of_nat(b)), nn_fin(f_of_nat(a)), a > 0 ==> f_lt(0.0f64, f_of_nat(a)),
    {}
    // Kani: float_third_below_half (complete over c, n < 2^32)
    #[verifier::external_body]
    pub proof fn axiom_f_below_third_is_below_half(c: nat, n: nat)
        requires 3 * c < n, n <= 0xffff_ffff,
        ensures f_lt(f_div(f_of_nat(c), f_of_nat(n)), 0.5f64),
    {}

    // ---- f64 methods (std): is_nan, clamp, total_cmp -------------------------------------------------
    pub open spec fn f_is_nan(x: f64) -> bool { !f_le(x, x) }
    pub uninterp spec fn f_clamp(x: f64, lo: f64, hi: f64) -> f64;
    /// IEEE-754 totalOrder as std::cmp::Ordering (f64::total_cmp)
    pub uninterp spec fn f_total_cmp(a: f64, b: f64) -> std::cmp::Ordering;
    pub assume_specification [f64::is_nan] (x: f64) -> (r: bool) ensures r == f_is_nan(x);
    // std: clamp panics if !(lo <= hi) -- a PRECONDITION here
    pub assume_specification [f64::clamp] (x: f64, lo: f64, hi: f64) -> (r: f64)
        requires f_le(lo, hi),
        ensures r == f_clamp(x, lo, hi);
    pub assume_specification [f64::total_cmp] (a: &f64, b: &f64) -> (r: std::cmp::Ordering) ensures r == f_total_cmp(*a, *b);
    // Kani: float_clamp_facts (complete)
    #[verifier::external_body]
    pub proof fn axiom_f_clamp(x: f64, lo: f64, hi: f64)
        requires f_le(lo, hi),
        ensures
            f_is_nan(x) ==> f_is_nan(f_clamp(x, lo, hi)),
            !f_is_nan(x) ==> f_le(lo, f_clamp(x, lo, hi)) && f_le(f_clamp(x, lo, hi), hi),
            f_le(lo, x) && f_le(x, hi) ==> f_clamp(x, lo, hi) == x,
            f_lt(x, lo) ==> f_clamp(x, lo, hi) == lo,
            f_lt(hi, x) ==> f_clamp(x, lo, hi) == hi,
    {}

    pub broadcast group group_float {
        axiom_f_lt, axiom_f_le, axiom_f_gt, axiom_f_ge, axiom_f_add, axiom_f_sub, axiom_f_mul, axiom_f_div, axiom_f_add_total, axiom_f_sub_total, axiom_f_mul_total, axiom_f_div_total,
    }

    /// Identity on f64 (VERIFIED, body is `x`). The extraction wraps an f64 struct-field read that feeds
    /// arithmetic in it: Verus' trigger matching for the operator preconditions does not fire on a bare
    /// field projection (measured), and does on a call result.
    pub fn verif_f64(x: f64) -> (r: f64) ensures r == x { x }

    /// `x as f64` for unsigned integers (the extraction renames the cast to this shim, whose body is the cast)
    pub trait VerifAsF64 { fn verif_as_f64(self) -> (r: f64); }
    impl VerifAsF64 for usize {
        #[verifier::external_body]
        fn verif_as_f64(self) -> (r: f64) ensures r == f_of_nat(self as nat) { self as f64 }
    }
    impl VerifAsF64 for u64 {
        #[verifier::external_body]
        fn verif_as_f64(self) -> (r: f64) ensures r == f_of_nat(self as nat) { self as f64 }
    }
    impl VerifAsF64 for u32 {
        #[verifier::external_body]
        fn verif_as_f64(self) -> (r: f64) ensures r == f_of_nat(self as nat) { self as f64 }
    }
    impl VerifAsF64 for u128 {
        #[verifier::external_body]
        fn verif_as_f64(self) -> (r: f64) ensures r == f_of_nat(self as nat) { self as f64 }
    }
    impl VerifAsF64 for i32 {
        #[verifier::external_body]
        fn verif_as_f64(self) -> (r: f64) ensures self >= 0 ==> r == f_of_nat(self as nat) { self as f64 }
    }
}
pub use verif_float::*;

// Consistency canary for the order axioms: `false` must NOT follow from them (this function MUST fail).
proof fn verif_canary_float_axioms(a: f64, b: f64, c: f64, n: nat, m: nat)
    requires 3 * n < m, m <= 1000,
{
    axiom_f_literals(); axiom_f_order(a, b, c); axiom_f_order(0.0f64, 0.5f64, 1.0f64); axiom_f_order(0.5f64, 0.0f64, 1.0f64);
    axiom_f_below_third_is_below_half(n, m); axiom_f_of_nat(n, m); axiom_f_of_nat(0, m);
    if nn_fin(a) && nn_fin(b) && f_le(a, b) && is_unit(c) { axiom_f_add_monotone(a, b, c); }
    if nn_fin(a) && nn_fin(b) && f_le(a, b) && nn_fin(c) && f_lt(0.0f64, c) { axiom_f_div_monotone(a, b, c); axiom_f_div_self(c); }
    assert(false);
}
