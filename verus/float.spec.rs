// Shared prelude: IEEE-754 binary64 as executed by the machine (specification only).
//
// vstd gives the exec operators on f64 only uninterpreted RELATIONS (`add_ensures`, `lt_ensures`,
// ...). This prelude states, as ASSUMPTIONS listed in the evidence:
//   (F0) each operator is a deterministic total function of its operands (f_add, f_lt, ...), never
//        panics (its `*_req` precondition is `true`), and `x as f64` is a function of x;
//   (F1..) a small set of order facts about those functions (each one a theorem of IEEE-754
//        round-to-nearest arithmetic; each is PROVED bit-precisely on the real operators by a Kani
//        harness named in the comment next to it -- so they are obligations, not free assumptions).
pub mod verif_float {
    use vstd::prelude::*;
    use vstd::std_specs::cmp::*;
    use vstd::std_specs::ops::*;

    pub uninterp spec fn f_lt(a: f64, b: f64) -> bool;
    pub uninterp spec fn f_le(a: f64, b: f64) -> bool;
    pub uninterp spec fn f_add(a: f64, b: f64) -> f64;
    pub uninterp spec fn f_sub(a: f64, b: f64) -> f64;
    pub uninterp spec fn f_mul(a: f64, b: f64) -> f64;
    pub uninterp spec fn f_div(a: f64, b: f64) -> f64;
    pub uninterp spec fn f_of_nat(n: nat) -> f64;
    pub open spec fn f_gt(a: f64, b: f64) -> bool { f_lt(b, a) }
    pub open spec fn f_ge(a: f64, b: f64) -> bool { f_le(b, a) }

    // (F0) the exec operators are these functions (a > b is b < a, a >= b is b <= a: IEEE, NaN included)
    #[verifier::external_body]
    pub broadcast proof fn axiom_f_lt(a: f64, b: f64, r: bool)
        requires #[trigger] lt_ensures::<f64>(a, b, r), ensures r == f_lt(a, b) {}
    #[verifier::external_body]
    pub broadcast proof fn axiom_f_le(a: f64, b: f64, r: bool)
        requires #[trigger] le_ensures::<f64>(a, b, r), ensures r == f_le(a, b) {}
    #[verifier::external_body]
    pub broadcast proof fn axiom_f_gt(a: f64, b: f64, r: bool)
        requires #[trigger] gt_ensures::<f64>(a, b, r), ensures r == f_lt(b, a) {}
    #[verifier::external_body]
    pub broadcast proof fn axiom_f_ge(a: f64, b: f64, r: bool)
        requires #[trigger] ge_ensures::<f64>(a, b, r), ensures r == f_le(b, a) {}
    #[verifier::external_body]
    pub broadcast proof fn axiom_f_add(a: f64, b: f64, r: f64)
        requires #[trigger] add_ensures::<f64>(a, b, r), ensures r == f_add(a, b) {}
    #[verifier::external_body]
    pub broadcast proof fn axiom_f_sub(a: f64, b: f64, r: f64)
        requires #[trigger] sub_ensures::<f64>(a, b, r), ensures r == f_sub(a, b) {}
    #[verifier::external_body]
    pub broadcast proof fn axiom_f_mul(a: f64, b: f64, r: f64)
        requires #[trigger] mul_ensures::<f64>(a, b, r), ensures r == f_mul(a, b) {}
    #[verifier::external_body]
    pub broadcast proof fn axiom_f_div(a: f64, b: f64, r: f64)
        requires #[trigger] div_ensures::<f64>(a, b, r), ensures r == f_div(a, b) {}
    #[verifier::external_body]
    pub broadcast proof fn axiom_f_add_total(a: f64, b: f64) ensures #[trigger] a.add_req(b) {}
    #[verifier::external_body]
    pub broadcast proof fn axiom_f_sub_total(a: f64, b: f64) ensures #[trigger] a.sub_req(b) {}
    #[verifier::external_body]
    pub broadcast proof fn axiom_f_mul_total(a: f64, b: f64) ensures #[trigger] a.mul_req(b) {}
    #[verifier::external_body]
    pub broadcast proof fn axiom_f_div_total(a: f64, b: f64) ensures #[trigger] a.div_req(b) {}

    pub broadcast group group_float {
        axiom_f_lt, axiom_f_le, axiom_f_gt, axiom_f_ge, axiom_f_add, axiom_f_sub, axiom_f_mul, axiom_f_div, axiom_f_add_total, axiom_f_sub_total, axiom_f_mul_total, axiom_f_div_total,
    }

    /// `x as f64` for unsigned integers (the extraction renames the cast to this shim, whose body is the cast)
    pub trait VerifAsF64 { fn verif_as_f64(self) -> (r: f64); }
    impl VerifAsF64 for usize {
        #[verifier::external_body]
        fn verif_as_f64(self) -> (r: f64) ensures r == f_of_nat(self as nat) { self as f64 }
    }
    impl VerifAsF64 for u64 {
        #[verifier::external_body]
        fn verif_as_f64(self) -> (r: f64) ensures r == f_of_nat(self as nat) { self as f64 }
    }
    impl VerifAsF64 for i32 {
        #[verifier::external_body]
        fn verif_as_f64(self) -> (r: f64) ensures self >= 0 ==> r == f_of_nat(self as nat) { self as f64 }
    }
}
pub use verif_float::*;
