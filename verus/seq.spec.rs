// Spec side of unit `seq` (C12): specification only. Shims list ALL fields of the real structs.

pub mod verif_seq_std {
    use vstd::prelude::*;
    /// peer identity (opaque here; Hash/Eq consistent -- assumed)
    #[verifier::external_body]
    pub struct UserId { _p: [u8; 32] }
    impl Clone for UserId {
        #[verifier::external_body]
        fn clone(&self) -> (r: Self) ensures r == *self { unimplemented!() }
    }
    impl PartialEq for UserId {
        #[verifier::external_body]
        fn eq(&self, other: &UserId) -> (r: bool) ensures r == (*self == *other) { unimplemented!() }
    }
    impl Eq for UserId {}
    impl std::hash::Hash for UserId {
        #[verifier::external_body]
        fn hash<H: std::hash::Hasher>(&self, state: &mut H) { unimplemented!() }
    }
    #[verifier::external_body]
    pub broadcast proof fn axiom_user_id_key_model()
        ensures #[trigger] vstd::std_specs::hash::obeys_key_model::<UserId>(),
    {}
}
pub use verif_seq_std::*;
/// error values: payloads dropped by the extraction
pub struct VerifError {}
pub type Result<T> = core::result::Result<T, VerifError>;
broadcast use verif_seq_std::axiom_user_id_key_model;
use std::collections::HashMap;

pub struct MonotonicCounterSystem {}
pub struct SequenceEntry {
    pub sequence: u64,
    pub timestamp: u64,
    pub message_hash: [u8; 32],
}
pub struct PeerCounter {
    pub current_sequence: u64,
    pub last_valid_sequence: u64,
    pub sequence_history: Vec<SequenceEntry>,
    pub last_updated: u64,
    pub replay_attempts: u64,
    pub sequence_gaps: u64,
}

pub open spec fn seen(pc: &PeerCounter, seq: u64, hash: [u8; 32]) -> bool {
    exists|i: int| 0 <= i < pc.sequence_history@.len()
        && (#[trigger] pc.sequence_history@[i]).sequence == seq
        && pc.sequence_history@[i].message_hash == hash
}

// PeerCounter::has_seen_sequence is VERIFIED in this unit (extracted text) behind two std shims:
// `v.iter().any(p)` and `==` on [u8; 32] (the extraction renames exactly those calls; contracts = documented
// std behaviour, ASSUMED). The Kani harness c12_has_seen_contract re-checks the composed contract on the real
// std code for short histories.
/// `v.iter().any(p)`: true iff some element satisfies p (std docs)
#[verifier::external_body]
pub fn verif_iter_any<P: Fn(&SequenceEntry) -> bool>(v: &Vec<SequenceEntry>, p: P, Ghost(f): Ghost<spec_fn(SequenceEntry) -> bool>) -> (r: bool)
    requires
        forall|x: &SequenceEntry| #[trigger] call_requires(p, (x,)),
        forall|x: &SequenceEntry, b: bool| #[trigger] call_ensures(p, (x,), b) ==> b == f(*x),
    ensures r == exists|i: int| 0 <= i < v@.len() && f(#[trigger] v@[i]),
{ unimplemented!() }
/// `a == b` on [u8; 32]: byte-wise equality
#[verifier::external_body]
pub fn verif_arr_eq(a: &[u8; 32], b: &[u8; 32]) -> (r: bool) ensures r == (*a == *b) { unimplemented!() }

// ASSUMED: the wall clock returns some second count below 2^48 (machine arithmetic on time
// does not overflow: `current_time + 60`).
#[verifier::external_body]
fn current_timestamp() -> (r: u64)
    ensures r < 0x1_0000_0000_0000
{ unimplemented!() }

/// `v.retain(p)`: keeps exactly the elements satisfying p, in order (std docs; the extraction renames the call)
#[verifier::external_body]
pub fn verif_retain<P: Fn(&SequenceEntry) -> bool>(v: &mut Vec<SequenceEntry>, p: P, Ghost(f): Ghost<spec_fn(SequenceEntry) -> bool>)
    requires
        forall|x: &SequenceEntry| #[trigger] call_requires(p, (x,)),
        forall|x: &SequenceEntry, b: bool| #[trigger] call_ensures(p, (x,), b) ==> b == f(*x),
    ensures final(v)@ == old(v)@.filter(f),
{ unimplemented!() }

// ---- history-level lemmas over the contracts -------------------------------------------
// An accept step (validate == Valid, then apply) has, by the two contracts below,
// precondition  seq == last + 1  and effect  last' == seq.  `accepted` is the sequence of
// numbers accepted for one peer since PeerCounter::new() (contract: last == 0).

pub open spec fn last_of(accepted: Seq<u64>) -> int {
    if accepted.len() == 0 { 0 } else { accepted.last() as int }
}
pub open spec fn valid_accepts(accepted: Seq<u64>) -> bool
    decreases accepted.len()
{
    accepted.len() == 0
        || (valid_accepts(accepted.drop_last()) && accepted.last() as int == last_of(accepted.drop_last()) + 1)
}

/// Accepted numbers are exactly 1, 2, 3, ... in order (hence each at most once).
proof fn lemma_accepted_are_1_2_3(accepted: Seq<u64>)
    requires valid_accepts(accepted)
    ensures forall|i: int| 0 <= i < accepted.len() ==> accepted[i] as int == i + 1,
            last_of(accepted) == accepted.len(),
    decreases accepted.len()
{
    if accepted.len() > 0 {
        lemma_accepted_are_1_2_3(accepted.drop_last());
        assert forall|i: int| 0 <= i < accepted.len() implies accepted[i] as int == i + 1 by {
            if i < accepted.len() - 1 { assert(accepted.drop_last()[i] == accepted[i]); }
        }
    }
}

/// Once `n` was accepted, no later state accepts `n` again: `last` never decreases and a
/// submission is Valid only for last + 1.
proof fn lemma_accept_at_most_once(accepted: Seq<u64>, i: int, j: int)
    requires valid_accepts(accepted), 0 <= i < j < accepted.len()
    ensures accepted[i] != accepted[j]
{
    lemma_accepted_are_1_2_3(accepted);
}

// ---- the critical section of validate_sequence (validate + apply under ONE write guard) --------------
/// Stands for `counters.entry(k).or_insert_with(PeerCounter::new)` (the extraction renames exactly that
/// call): the existing counter, or a freshly inserted PeerCounter::new() (contract verified in this unit:
/// last == 0, empty history).
#[verifier::external_body]
pub fn verif_entry_or_new(m: &mut HashMap<UserId, PeerCounter>, k: UserId) -> (r: &mut PeerCounter)
    ensures
        old(m)@.contains_key(k) ==> *r == old(m)@[k],
        !old(m)@.contains_key(k) ==> r.last_valid_sequence == 0 && r.sequence_history@.len() == 0,
        final(m)@ == old(m)@.insert(k, *final(r)),
{
    unimplemented!()
}
/// a peer's high-water mark (0 for a peer never seen: an absent entry is the same as PeerCounter::new())
pub open spec fn last_of_peer(m: Map<UserId, PeerCounter>, u: UserId) -> int {
    if m.contains_key(u) { m[u].last_valid_sequence as int } else { 0 }
}
pub open spec fn seen_by_peer(m: Map<UserId, PeerCounter>, u: UserId, seq: u64, hash: [u8; 32]) -> bool {
    m.contains_key(u) && seen(&m[u], seq, hash)
}
/// every peer other than `u` is untouched
pub open spec fn others_untouched(m0: Map<UserId, PeerCounter>, m1: Map<UserId, PeerCounter>, u: UserId) -> bool {
    forall|v: UserId| v != u ==> (m1.contains_key(v) == m0.contains_key(v) && (m0.contains_key(v) ==> m1[v] == m0[v]))
}
// ---- the critical section of batch_update ----------------------------------------------------------
pub struct BatchUpdateRequest {
    pub user_id: UserId,
    pub sequence: u64,
    pub message_hash: [u8; 32],
    pub timestamp: u64,
}
pub struct BatchUpdateResult {
    pub user_id: UserId,
    pub result: SequenceValidationResult,
    pub applied: bool,
}
/// every tracked peer has room for `room` more accepts before the end of the u64 range (fewer than 2^64
/// accepts per peer: a precondition, see the trusted base)
pub open spec fn below_max(m: Map<UserId, PeerCounter>, room: int) -> bool {
    forall|u: UserId| m.contains_key(u) ==> (#[trigger] m[u]).last_valid_sequence + room < u64::MAX
}
/// what the batch has established after processing the first n requests
pub open spec fn batch_inv(reqs: Seq<BatchUpdateRequest>, res: Seq<BatchUpdateResult>, m: Map<UserId, PeerCounter>, n: int) -> bool {
    &&& res.len() == n
    &&& forall|k: int| 0 <= k < n ==> (#[trigger] res[k]).user_id == reqs[k].user_id && res[k].applied == (res[k].result == SequenceValidationResult::Valid)
    // an applied request's number is at or below its peer's high-water mark from then on
    &&& forall|k: int| 0 <= k < n && (#[trigger] res[k]).applied ==> last_of_peer(m, reqs[k].user_id) >= reqs[k].sequence
    // the same (peer, number) was applied at most once so far
    &&& forall|i: int, j: int| 0 <= i < j < n && (#[trigger] reqs[i]).user_id == (#[trigger] reqs[j]).user_id && reqs[i].sequence == reqs[j].sequence
            ==> !(res[i].applied && res[j].applied)
}

/// every peer keeps its entry and its high-water mark
pub open spec fn marks_kept(m0: Map<UserId, PeerCounter>, m1: Map<UserId, PeerCounter>) -> bool {
    &&& forall|u: UserId| m1.contains_key(u) == m0.contains_key(u)
    &&& forall|u: UserId| m0.contains_key(u) ==> (#[trigger] m1[u]).last_valid_sequence == m0[u].last_valid_sequence
}
/// Stands for the statement `for (_, peer_counter) in counters.iter_mut() { peer_counter.cleanup_old_sequences(cutoff_time); }`
/// (HashMap::iter_mut loops are outside the Verus dialect; the extraction renames exactly that statement, pinned by
/// its text). ASSUMED contract: every value is replaced by the result of PeerCounter::cleanup_old_sequences on it --
/// whose own contract (keeps the high-water mark) is verified in this unit -- and no entry is added or removed.
#[verifier::external_body]
pub fn verif_cleanup_every_peer(counters: &mut HashMap<UserId, PeerCounter>, cutoff_time: u64)
    ensures marks_kept(old(counters)@, final(counters)@),
{ unimplemented!() }

/// Same (peer, number) twice: by the contract of the critical section, the first acceptance sets last == n,
/// and a submission is accepted only for last + 1, so the second one (in any later state, `last` never
/// decreasing) is not accepted. Stated over the contract's pre/post values.
proof fn lemma_same_number_accepted_at_most_once(last0: int, n: int, last1: int, last2: int)
    requires n == last0 + 1, last1 == n, last2 >= last1,
    ensures n != last2 + 1, // @C12/system/same_peer_and_number_accepted_at_most_once
{
}
