// Spec side of unit `seq` (C12): specification only. Shims list ALL fields of the real structs.

pub struct MonotonicCounterSystem {}
pub struct SequenceEntry {
    pub sequence: u64,
    pub timestamp: u64,
    pub message_hash: [u8; 32],
}
pub struct PeerCounter {
    pub current_sequence: u64,
    pub last_valid_sequence: u64,
    pub sequence_history: Vec<SequenceEntry>,
    pub last_updated: u64,
    pub replay_attempts: u64,
    pub sequence_gaps: u64,
}

pub open spec fn seen(pc: &PeerCounter, seq: u64, hash: [u8; 32]) -> bool {
    exists|i: int| 0 <= i < pc.sequence_history@.len()
        && (#[trigger] pc.sequence_history@[i]).sequence == seq
        && pc.sequence_history@[i].message_hash == hash
}

impl PeerCounter {
    // ASSUMED here (iter().any(closure) is outside the Verus dialect); the same contract is
    // PROVED on the real function by Kani harness c12_has_seen_contract (bounded history length).
    #[verifier::external_body]
    pub fn has_seen_sequence(&self, sequence: u64, message_hash: [u8; 32]) -> (r: bool)
        ensures r == seen(self, sequence, message_hash)
    { unimplemented!() }
}

// ASSUMED: the wall clock returns some second count below 2^48 (machine arithmetic on time
// does not overflow: `current_time + 60`).
#[verifier::external_body]
fn current_timestamp() -> (r: u64)
    ensures r < 0x1_0000_0000_0000
{ unimplemented!() }

// ---- history-level lemmas over the contracts -------------------------------------------
// An accept step (validate == Valid, then apply) has, by the two contracts below,
// precondition  seq == last + 1  and effect  last' == seq.  `accepted` is the sequence of
// numbers accepted for one peer since PeerCounter::new() (contract: last == 0).

pub open spec fn last_of(accepted: Seq<u64>) -> int {
    if accepted.len() == 0 { 0 } else { accepted.last() as int }
}
pub open spec fn valid_accepts(accepted: Seq<u64>) -> bool
    decreases accepted.len()
{
    accepted.len() == 0
        || (valid_accepts(accepted.drop_last()) && accepted.last() as int == last_of(accepted.drop_last()) + 1)
}

/// Accepted numbers are exactly 1, 2, 3, ... in order (hence each at most once).
proof fn lemma_accepted_are_1_2_3(accepted: Seq<u64>)
    requires valid_accepts(accepted)
    ensures forall|i: int| 0 <= i < accepted.len() ==> accepted[i] as int == i + 1,
            last_of(accepted) == accepted.len(),
    decreases accepted.len()
{
    if accepted.len() > 0 {
        lemma_accepted_are_1_2_3(accepted.drop_last());
        assert forall|i: int| 0 <= i < accepted.len() implies accepted[i] as int == i + 1 by {
            if i < accepted.len() - 1 { assert(accepted.drop_last()[i] == accepted[i]); }
        }
    }
}

/// Once `n` was accepted, no later state accepts `n` again: `last` never decreases and a
/// submission is Valid only for last + 1.
proof fn lemma_accept_at_most_once(accepted: Seq<u64>, i: int, j: int)
    requires valid_accepts(accepted), 0 <= i < j < accepted.len()
    ensures accepted[i] != accepted[j]
{
    lemma_accepted_are_1_2_3(accepted);
}
