// Spec side of unit `ratelim` (C14, keyed rate-limit engine): specification only.
//
// The critical section of Engine::try_consume_key (the statements that run while the parking_lot
// RwLock write guard `map` is held) is outlined verbatim into a function of the guarded LRU map
// (block outlining). ASSUMED: lru::LruCache get_mut / put behave as a finite map (below its 100k
// capacity: eviction of the oldest key at capacity is not modelled); derived / primitive Clone of the
// key type returns an equal value; Bucket::try_consume and Bucket::new are the relations `bucket_step` /
// `is_fresh` -- their arithmetic content is the per-call contract PROVED on the real functions by the
// Kani harnesses c14_try_consume_contract / c14_bucket_new_contract; that the guard serialises callers
// is the contract of parking_lot::RwLock.

pub mod verif_ratelim_std {
    use vstd::prelude::*;
    #[verifier::external_body]
    #[verifier::reject_recursive_types(K)]
    #[verifier::reject_recursive_types(V)]
    pub struct LruCache<K, V> { _k: core::marker::PhantomData<(K, V)> }
    impl<K, V> LruCache<K, V> {
        pub uninterp spec fn view(&self) -> Map<K, V>;
        #[verifier::external_body]
        pub fn get_mut<'a>(&'a mut self, k: &K) -> (r: Option<&'a mut V>)
            ensures
                r.is_some() == old(self)@.dom().contains(*k),
                r.is_some() ==> *r.unwrap() == old(self)@[*k] && final(self)@ == old(self)@.insert(*k, *final(r.unwrap())),
                r.is_none() ==> final(self)@ == old(self)@,
        { unimplemented!() }
        #[verifier::external_body]
        pub fn put(&mut self, k: K, v: V) -> (r: Option<V>)
            ensures final(self)@ == old(self)@.insert(k, v),
        { unimplemented!() }
    }
    #[verifier::external_body]
    pub struct Duration { _p: u64 }
    /// the engine's key type (Ipv6Addr / Ipv4Addr / u8 / String in the instantiations): opaque
    #[verifier::external_body]
    pub struct K { _p: u64 }
    impl Clone for K {
        #[verifier::external_body]
        fn clone(&self) -> (r: Self) ensures r == *self { unimplemented!() }
    }
}
pub use verif_ratelim_std::*;
broadcast use verif_float::group_float;

pub struct EngineConfig {
    pub window: Duration,
    pub max_requests: u32,
    pub burst_size: u32,
}
/// token bucket state: opaque here
#[verifier::external_body]
pub struct Bucket { _p: u64 }
/// one try_consume call: pre-state, configuration, post-state, verdict (the per-call contract proved by Kani)
pub uninterp spec fn bucket_step(pre: Bucket, cfg: EngineConfig, post: Bucket, granted: bool) -> bool;
/// Bucket::new(t): a bucket holding t tokens with an empty window (Kani c14_bucket_new_contract)
pub uninterp spec fn is_fresh(b: Bucket, initial_tokens: f64) -> bool;
impl Bucket {
    #[verifier::external_body]
    fn new(initial_tokens: f64) -> (r: Bucket) ensures is_fresh(r, initial_tokens) { unimplemented!() }
    #[verifier::external_body]
    fn try_consume(&mut self, cfg: &EngineConfig) -> (r: bool) ensures bucket_step(*old(self), *cfg, *final(self), r) { unimplemented!() }
}
pub struct Engine {
    pub cfg: EngineConfig,
}
/// every key other than `k` keeps its presence and its bucket
pub open spec fn other_keys_untouched(m0: Map<K, Bucket>, m1: Map<K, Bucket>, k: K) -> bool {
    forall|k2: K| k2 != k ==> (m1.dom().contains(k2) == m0.dom().contains(k2) && (m0.dom().contains(k2) ==> m1[k2] == m0[k2]))
}
