// Spec side of unit `ipdiv` (C13): specification only (no executable repo code is written here).
//
// ASSUMED dependency contract (listed in every C13 evidence file): `lru::LruCache<K, V>` below its
// capacity is a finite map: peek/get return the value stored for an equal key, put inserts or
// replaces, pop removes. This is the property's own qualifier ("below the 50k-entry tracking
// bound"); eviction at capacity is not modelled. The lru crate itself is not verified.

pub mod verif_std {
    use vstd::prelude::*;
    use std::net::{Ipv4Addr, Ipv6Addr};

    #[verifier::external_type_specification]
    #[verifier::external_body]
    pub struct ExIpv6Addr(Ipv6Addr);

    #[verifier::external_type_specification]
    #[verifier::external_body]
    pub struct ExIpv4Addr(Ipv4Addr);

    // ASSUMED: std::cmp::{max,min} on usize are max / min.
    pub uninterp spec fn spec_max<T>(a: T, b: T) -> T;
    pub uninterp spec fn spec_min<T>(a: T, b: T) -> T;
    #[verifier::allow(undeclared_external_trait)]
    pub assume_specification<T> [std::cmp::max] (_0: T, _1: T) -> (r: T)
        where T: std::cmp::Ord + std::marker::Destruct,
        ensures r == spec_max(_0, _1);
    #[verifier::allow(undeclared_external_trait)]
    pub assume_specification<T> [std::cmp::min] (_0: T, _1: T) -> (r: T)
        where T: std::cmp::Ord + std::marker::Destruct,
        ensures r == spec_min(_0, _1);
    #[verifier::external_body]
    pub broadcast proof fn axiom_max_usize(a: usize, b: usize)
        ensures #[trigger] spec_max(a, b) == (if a >= b { a } else { b }),
    {}
    #[verifier::external_body]
    pub broadcast proof fn axiom_min_usize(a: usize, b: usize)
        ensures #[trigger] spec_min(a, b) == (if a <= b { a } else { b }),
    {}
    // std integer helper a refactoring of the halving rule may reach for (exact std semantics)
    pub assume_specification [usize::div_ceil] (a: usize, b: usize) -> (r: usize)
        requires b > 0,
        ensures r as int == (a as int + b as int - 1) / (b as int);
    // ASSUMED: Option<&T>::copied copies the referent.
    pub assume_specification<'a, T> [std::option::Option::<&T>::copied] (_0: std::option::Option<&'a T>) -> (r: std::option::Option<T>)
        where T: std::marker::Copy,
        ensures r.is_some() == _0.is_some(), r.is_some() ==> r.unwrap() == *_0.unwrap();

    #[verifier::external_body]
    #[verifier::reject_recursive_types(K)]
    #[verifier::reject_recursive_types(V)]
    pub struct LruCache<K, V> { _k: core::marker::PhantomData<(K, V)> }

    impl<K, V> LruCache<K, V> {
        pub uninterp spec fn view(&self) -> Map<K, V>;

        #[verifier::external_body]
        pub fn peek<'a>(&'a self, k: &K) -> (r: Option<&'a V>)
            ensures
                r.is_some() == self@.dom().contains(*k),
                r.is_some() ==> *r.unwrap() == self@[*k],
        { unimplemented!() }

        #[verifier::external_body]
        pub fn get<'a>(&'a mut self, k: &K) -> (r: Option<&'a V>)
            ensures
                final(self)@ == old(self)@,
                r.is_some() == old(self)@.dom().contains(*k),
                r.is_some() ==> *r.unwrap() == old(self)@[*k],
        { unimplemented!() }

        #[verifier::external_body]
        pub fn put(&mut self, k: K, v: V) -> (r: Option<V>)
            ensures final(self)@ == old(self)@.insert(k, v),
        { unimplemented!() }

        #[verifier::external_body]
        pub fn pop(&mut self, k: &K) -> (r: Option<V>)
            ensures
                final(self)@ == old(self)@.remove(*k),
                r.is_some() == old(self)@.dom().contains(*k),
                r.is_some() ==> r.unwrap() == old(self)@[*k],
        { unimplemented!() }
    }

    /// Error values: the text of `anyhow!(..)` messages is dropped by the extraction.
    pub struct VerifError {}
}
pub use verif_std::*;
use std::net::{Ipv4Addr, Ipv6Addr};
broadcast use {verif_std::axiom_max_usize, verif_std::axiom_min_usize, verif_admit_std::axiom_region_key_model};
pub type Result<T> = core::result::Result<T, VerifError>;

// ---- struct shims (field names + type text checked against /repo on every run) -------------
pub struct IPDiversityConfig {
    pub max_nodes_per_64: usize,
    pub max_nodes_per_48: usize,
    pub max_nodes_per_32: usize,
    pub max_nodes_per_ipv4_32: usize,
    pub max_nodes_per_ipv4_24: usize,
    pub max_nodes_per_ipv4_16: usize,
    pub max_per_ip_cap: usize,
    pub max_nodes_per_asn: usize,
}
pub struct IPAnalysis {
    pub subnet_64: Ipv6Addr,
    pub subnet_48: Ipv6Addr,
    pub subnet_32: Ipv6Addr,
    pub asn: Option<u32>,
    pub country: Option<String>,
    pub is_hosting_provider: bool,
    pub is_vpn_provider: bool,
}
pub struct IPv4Analysis {
    pub ip_addr: Ipv4Addr,
    pub subnet_24: Ipv4Addr,
    pub subnet_16: Ipv4Addr,
    pub subnet_8: Ipv4Addr,
    pub asn: Option<u32>,
    pub country: Option<String>,
    pub is_hosting_provider: bool,
    pub is_vpn_provider: bool,
}
pub struct IPDiversityEnforcer {
    pub config: IPDiversityConfig,
    pub subnet_64_counts: LruCache<Ipv6Addr, usize>,
    pub subnet_48_counts: LruCache<Ipv6Addr, usize>,
    pub subnet_32_counts: LruCache<Ipv6Addr, usize>,
    pub ipv4_32_counts: LruCache<Ipv4Addr, usize>,
    pub ipv4_24_counts: LruCache<Ipv4Addr, usize>,
    pub ipv4_16_counts: LruCache<Ipv4Addr, usize>,
    pub asn_counts: LruCache<u32, usize>,
    pub country_counts: LruCache<String, usize>,
    pub network_size: usize,
}

// ---- the property, as spec functions written from the statement ------------------------------

/// Number of admitted nodes recorded under `k` (absent = 0).
pub open spec fn cnt<K>(m: Map<K, usize>, k: K) -> nat {
    if m.dom().contains(k) { m[k] as nat } else { 0 }
}
/// "halved, minimum one, when the candidate is a hosting or VPN address"
pub open spec fn cap_for(c: nat, hosting_or_vpn: bool) -> nat {
    if hosting_or_vpn { if c / 2 >= 1 { c / 2 } else { 1 } } else { c }
}
pub open spec fn nat_min(a: nat, b: nat) -> nat { if a <= b { a } else { b } }
/// One more admitted node under `k`.
pub open spec fn bump<K>(m: Map<K, usize>, k: K) -> Map<K, usize> {
    m.insert(k, (cnt(m, k) + 1) as usize)
}
/// One admitted node under `k` leaves (entries that reach zero are dropped; absent stays absent).
pub open spec fn unbump<K>(m: Map<K, usize>, k: K) -> Map<K, usize> {
    if cnt(m, k) <= 1 { m.remove(k) } else { m.insert(k, (m[k] - 1) as usize) }
}
pub open spec fn no_zero<K>(m: Map<K, usize>) -> bool {
    forall|k: K| #[trigger] m.dom().contains(k) ==> m[k] >= 1
}
pub open spec fn all_le<K>(m: Map<K, usize>, cap: nat) -> bool {
    forall|k: K| #[trigger] m.dom().contains(k) ==> m[k] as nat <= cap
}

/// ASSUMED in this unit, PROVED on the real function by Kani harness c13_per_ip_limit_contract:
/// floor(network_size * max_network_fraction) as computed in f64.
pub uninterp spec fn fraction_limit(e: &IPDiversityEnforcer) -> usize;

impl IPDiversityEnforcer {
    // f64 arithmetic is outside the Verus dialect: contract assumed here, proved by Kani.
    #[verifier::external_body]
    pub fn get_per_ip_limit(&self) -> (r: usize)
        ensures r == spec_min(self.config.max_per_ip_cap, spec_max(1usize, fraction_limit(self)))
    { unimplemented!() }

    /// Configured caps are at least one (default / testnet / permissive / "small caps") and the
    /// IPv4 multipliers (x3, x10) do not overflow.
    pub open spec fn cfg_ok(&self) -> bool {
        self.config.max_nodes_per_64 >= 1 && self.config.max_nodes_per_48 >= 1
        && self.config.max_nodes_per_32 >= 1 && self.config.max_nodes_per_asn >= 1
        && self.config.max_nodes_per_ipv4_32 >= 1 && self.config.max_nodes_per_ipv4_24 >= 1
        && self.config.max_nodes_per_ipv4_16 >= 1
        && 1 <= self.config.max_per_ip_cap <= 0x0fff_ffff
    }
    /// Representation invariant: no stored count is zero (remove drops entries that reach zero).
    pub open spec fn wf(&self) -> bool {
        no_zero(self.subnet_64_counts@) && no_zero(self.subnet_48_counts@) && no_zero(self.subnet_32_counts@)
        && no_zero(self.ipv4_32_counts@) && no_zero(self.ipv4_24_counts@) && no_zero(self.ipv4_16_counts@)
        && no_zero(self.asn_counts@) && no_zero(self.country_counts@)
    }

    // --- IPv6 ---
    pub open spec fn v6_below_caps(&self, a: &IPAnalysis) -> bool {
        let h = a.is_hosting_provider || a.is_vpn_provider;
        cnt(self.subnet_64_counts@, a.subnet_64) < cap_for(self.config.max_nodes_per_64 as nat, h)
        && cnt(self.subnet_48_counts@, a.subnet_48) < cap_for(self.config.max_nodes_per_48 as nat, h)
        && cnt(self.subnet_32_counts@, a.subnet_32) < cap_for(self.config.max_nodes_per_32 as nat, h)
        && (a.asn.is_some() ==> cnt(self.asn_counts@, a.asn.unwrap()) < cap_for(self.config.max_nodes_per_asn as nat, h))
    }
    pub open spec fn v6_added(&self, pre: &IPDiversityEnforcer, a: &IPAnalysis) -> bool {
        self.subnet_64_counts@ =~= bump(pre.subnet_64_counts@, a.subnet_64)
        && self.subnet_48_counts@ =~= bump(pre.subnet_48_counts@, a.subnet_48)
        && self.subnet_32_counts@ =~= bump(pre.subnet_32_counts@, a.subnet_32)
        && self.asn_counts@ =~= (if a.asn.is_some() { bump(pre.asn_counts@, a.asn.unwrap()) } else { pre.asn_counts@ })
        && self.country_counts@ =~= (if a.country.is_some() { bump(pre.country_counts@, a.country.unwrap()) } else { pre.country_counts@ })
        && self.ipv4_32_counts@ =~= pre.ipv4_32_counts@ && self.ipv4_24_counts@ =~= pre.ipv4_24_counts@
        && self.ipv4_16_counts@ =~= pre.ipv4_16_counts@
    }
    pub open spec fn v6_removed(&self, pre: &IPDiversityEnforcer, a: &IPAnalysis) -> bool {
        self.subnet_64_counts@ =~= unbump(pre.subnet_64_counts@, a.subnet_64)
        && self.subnet_48_counts@ =~= unbump(pre.subnet_48_counts@, a.subnet_48)
        && self.subnet_32_counts@ =~= unbump(pre.subnet_32_counts@, a.subnet_32)
        && self.asn_counts@ =~= (if a.asn.is_some() { unbump(pre.asn_counts@, a.asn.unwrap()) } else { pre.asn_counts@ })
        && self.country_counts@ =~= (if a.country.is_some() { unbump(pre.country_counts@, a.country.unwrap()) } else { pre.country_counts@ })
        && self.ipv4_32_counts@ =~= pre.ipv4_32_counts@ && self.ipv4_24_counts@ =~= pre.ipv4_24_counts@
        && self.ipv4_16_counts@ =~= pre.ipv4_16_counts@
    }
    pub open spec fn same_counts(&self, pre: &IPDiversityEnforcer) -> bool {
        self.subnet_64_counts@ =~= pre.subnet_64_counts@ && self.subnet_48_counts@ =~= pre.subnet_48_counts@
        && self.subnet_32_counts@ =~= pre.subnet_32_counts@ && self.asn_counts@ =~= pre.asn_counts@
        && self.country_counts@ =~= pre.country_counts@
        && self.ipv4_32_counts@ =~= pre.ipv4_32_counts@ && self.ipv4_24_counts@ =~= pre.ipv4_24_counts@
        && self.ipv4_16_counts@ =~= pre.ipv4_16_counts@
    }
    pub open spec fn same_settings(&self, pre: &IPDiversityEnforcer) -> bool {
        self.config == pre.config && self.network_size == pre.network_size
    }
    /// "the number of admitted nodes sharing a /64, /48, /32 or AS never exceeds the configured cap"
    pub open spec fn v6_caps_hold(&self) -> bool {
        all_le(self.subnet_64_counts@, self.config.max_nodes_per_64 as nat)
        && all_le(self.subnet_48_counts@, self.config.max_nodes_per_48 as nat)
        && all_le(self.subnet_32_counts@, self.config.max_nodes_per_32 as nat)
    }
    pub open spec fn asn_cap_holds(&self) -> bool {
        all_le(self.asn_counts@, self.config.max_nodes_per_asn as nat)
    }

    // --- IPv4 ---
    /// "the IPv4 caps scaled by the configured network-size rule"
    pub open spec fn per_ip(&self) -> nat {
        nat_min(self.config.max_per_ip_cap as nat, if fraction_limit(self) >= 1 { fraction_limit(self) as nat } else { 1 })
    }
    pub open spec fn v4_cap_32(&self, h: bool) -> nat { cap_for(self.per_ip(), h) }
    pub open spec fn v4_cap_24(&self, h: bool) -> nat {
        cap_for(nat_min(self.config.max_nodes_per_ipv4_24 as nat, 3 * self.per_ip()), h)
    }
    pub open spec fn v4_cap_16(&self, h: bool) -> nat {
        cap_for(nat_min(self.config.max_nodes_per_ipv4_16 as nat, 10 * self.per_ip()), h)
    }
    pub open spec fn v4_below_caps(&self, a: &IPv4Analysis) -> bool {
        let h = a.is_hosting_provider || a.is_vpn_provider;
        cnt(self.ipv4_32_counts@, a.ip_addr) < self.v4_cap_32(h)
        && cnt(self.ipv4_24_counts@, a.subnet_24) < self.v4_cap_24(h)
        && cnt(self.ipv4_16_counts@, a.subnet_16) < self.v4_cap_16(h)
        && (a.asn.is_some() ==> cnt(self.asn_counts@, a.asn.unwrap()) < cap_for(self.config.max_nodes_per_asn as nat, h))
    }
    pub open spec fn v4_added(&self, pre: &IPDiversityEnforcer, a: &IPv4Analysis) -> bool {
        self.ipv4_32_counts@ =~= bump(pre.ipv4_32_counts@, a.ip_addr)
        && self.ipv4_24_counts@ =~= bump(pre.ipv4_24_counts@, a.subnet_24)
        && self.ipv4_16_counts@ =~= bump(pre.ipv4_16_counts@, a.subnet_16)
        && self.asn_counts@ =~= (if a.asn.is_some() { bump(pre.asn_counts@, a.asn.unwrap()) } else { pre.asn_counts@ })
        && self.country_counts@ =~= (if a.country.is_some() { bump(pre.country_counts@, a.country.unwrap()) } else { pre.country_counts@ })
        && self.subnet_64_counts@ =~= pre.subnet_64_counts@ && self.subnet_48_counts@ =~= pre.subnet_48_counts@
        && self.subnet_32_counts@ =~= pre.subnet_32_counts@
    }
    pub open spec fn v4_removed(&self, pre: &IPDiversityEnforcer, a: &IPv4Analysis) -> bool {
        self.ipv4_32_counts@ =~= unbump(pre.ipv4_32_counts@, a.ip_addr)
        && self.ipv4_24_counts@ =~= unbump(pre.ipv4_24_counts@, a.subnet_24)
        && self.ipv4_16_counts@ =~= unbump(pre.ipv4_16_counts@, a.subnet_16)
        && self.asn_counts@ =~= (if a.asn.is_some() { unbump(pre.asn_counts@, a.asn.unwrap()) } else { pre.asn_counts@ })
        && self.country_counts@ =~= (if a.country.is_some() { unbump(pre.country_counts@, a.country.unwrap()) } else { pre.country_counts@ })
        && self.subnet_64_counts@ =~= pre.subnet_64_counts@ && self.subnet_48_counts@ =~= pre.subnet_48_counts@
        && self.subnet_32_counts@ =~= pre.subnet_32_counts@
    }
    /// IPv4 caps at the *configured* level (the scaled caps never exceed min(cfg, multiple of the cap)).
    pub open spec fn v4_caps_hold(&self) -> bool {
        all_le(self.ipv4_32_counts@, self.config.max_per_ip_cap as nat)
        && all_le(self.ipv4_24_counts@, self.config.max_nodes_per_ipv4_24 as nat)
        && all_le(self.ipv4_16_counts@, self.config.max_nodes_per_ipv4_16 as nat)
    }
}

// ---- history-level lemmas over the contracts --------------------------------------------------

/// Removing an admitted node gives its slot back: unbump undoes bump on a map without zero entries.
pub proof fn lemma_unbump_bump<K>(m: Map<K, usize>, k: K)
    requires no_zero(m), cnt(m, k) < usize::MAX,
    ensures unbump(bump(m, k), k) == m,
{
    let b = bump(m, k);
    assert(b.dom().contains(k));
    assert(cnt(b, k) == cnt(m, k) + 1);
    if cnt(m, k) == 0 {
        assert(!m.dom().contains(k));
        assert(unbump(b, k) =~= m);
    } else {
        assert(m.dom().contains(k));
        assert(unbump(b, k) =~= m);
    }
}
/// A bump below the cap keeps "every key <= cap" and "no zero entries".
pub proof fn lemma_bump_keeps_caps<K>(m: Map<K, usize>, k: K, cap: nat, limit: nat)
    requires all_le(m, cap), no_zero(m), cnt(m, k) < limit, limit <= cap, cap <= usize::MAX,
    ensures all_le(bump(m, k), cap), no_zero(bump(m, k)), cnt(bump(m, k), k) <= limit,
{
    assert forall|j: K| #[trigger] bump(m, k).dom().contains(j) implies bump(m, k)[j] as nat <= cap && bump(m, k)[j] >= 1 by {
        if j == k { } else { assert(m.dom().contains(j)); }
    }
}
pub proof fn lemma_unbump_keeps_caps<K>(m: Map<K, usize>, k: K, cap: nat)
    requires all_le(m, cap), no_zero(m),
    ensures all_le(unbump(m, k), cap), no_zero(unbump(m, k)), cnt(unbump(m, k), k) == (if cnt(m, k) >= 1 { cnt(m, k) - 1 } else { 0 }) as nat,
{
    assert forall|j: K| #[trigger] unbump(m, k).dom().contains(j) implies unbump(m, k)[j] as nat <= cap && unbump(m, k)[j] >= 1 by {
        if j == k { assert(m.dom().contains(k)); } else { assert(m.dom().contains(j)); }
    }
}
pub proof fn lemma_cap_for_le(c: nat, h: bool)
    requires c >= 1,
    ensures 1 <= cap_for(c, h) <= c,
{}

// Invariant of the whole counter state: caps hold at every level, no zero entries.
impl IPDiversityEnforcer {
    pub open spec fn inv(&self) -> bool {
        self.cfg_ok() && self.wf() && self.v6_caps_hold() && self.v4_caps_hold() && self.asn_cap_holds()
    }
    pub open spec fn country_room(&self) -> bool {
        forall|k: String| #[trigger] self.country_counts@.dom().contains(k) ==> self.country_counts@[k] < usize::MAX
    }
}

/// Step 1 of the induction over add/remove histories: a successful IPv6 admission keeps every
/// level at or below its cap (and the touched keys at or below the possibly halved cap).
pub proof fn lemma_v6_admission_keeps_caps(pre: &IPDiversityEnforcer, post: &IPDiversityEnforcer, a: &IPAnalysis)
    requires
        pre.inv(), pre.country_room(), pre.v6_below_caps(a), post.v6_added(pre, a), post.same_settings(pre),
    ensures
        post.inv(), // @C13/v6/caps_never_exceeded_after_admission
        cnt(post.subnet_64_counts@, a.subnet_64) <= cap_for(pre.config.max_nodes_per_64 as nat, a.is_hosting_provider || a.is_vpn_provider), // @C13/v6/hosting_or_vpn_candidate_held_to_halved_cap
{
    let h = a.is_hosting_provider || a.is_vpn_provider;
    lemma_cap_for_le(pre.config.max_nodes_per_64 as nat, h);
    lemma_cap_for_le(pre.config.max_nodes_per_48 as nat, h);
    lemma_cap_for_le(pre.config.max_nodes_per_32 as nat, h);
    lemma_cap_for_le(pre.config.max_nodes_per_asn as nat, h);
    lemma_bump_keeps_caps(pre.subnet_64_counts@, a.subnet_64, pre.config.max_nodes_per_64 as nat, cap_for(pre.config.max_nodes_per_64 as nat, h));
    lemma_bump_keeps_caps(pre.subnet_48_counts@, a.subnet_48, pre.config.max_nodes_per_48 as nat, cap_for(pre.config.max_nodes_per_48 as nat, h));
    lemma_bump_keeps_caps(pre.subnet_32_counts@, a.subnet_32, pre.config.max_nodes_per_32 as nat, cap_for(pre.config.max_nodes_per_32 as nat, h));
    if a.asn.is_some() {
        lemma_bump_keeps_caps(pre.asn_counts@, a.asn.unwrap(), pre.config.max_nodes_per_asn as nat, cap_for(pre.config.max_nodes_per_asn as nat, h));
    }
    if a.country.is_some() {
        let k = a.country.unwrap();
        assert forall|j: String| #[trigger] bump(pre.country_counts@, k).dom().contains(j) implies bump(pre.country_counts@, k)[j] >= 1 by {
            if j == k { } else { assert(pre.country_counts@.dom().contains(j)); }
        }
    }
}

pub proof fn lemma_v4_admission_keeps_caps(pre: &IPDiversityEnforcer, post: &IPDiversityEnforcer, a: &IPv4Analysis)
    requires
        pre.inv(), pre.country_room(), pre.v4_below_caps(a), post.v4_added(pre, a), post.same_settings(pre),
    ensures
        post.inv(), // @C13/v4/caps_never_exceeded_after_admission
        cnt(post.ipv4_32_counts@, a.ip_addr) <= pre.v4_cap_32(a.is_hosting_provider || a.is_vpn_provider), // @C13/v4/address_held_to_scaled_cap
{
    let h = a.is_hosting_provider || a.is_vpn_provider;
    let p = pre.per_ip();
    assert(1 <= p <= pre.config.max_per_ip_cap);
    lemma_cap_for_le(p, h);
    lemma_cap_for_le(nat_min(pre.config.max_nodes_per_ipv4_24 as nat, 3 * p), h);
    lemma_cap_for_le(nat_min(pre.config.max_nodes_per_ipv4_16 as nat, 10 * p), h);
    lemma_cap_for_le(pre.config.max_nodes_per_asn as nat, h);
    lemma_bump_keeps_caps(pre.ipv4_32_counts@, a.ip_addr, pre.config.max_per_ip_cap as nat, pre.v4_cap_32(h));
    lemma_bump_keeps_caps(pre.ipv4_24_counts@, a.subnet_24, pre.config.max_nodes_per_ipv4_24 as nat, pre.v4_cap_24(h));
    lemma_bump_keeps_caps(pre.ipv4_16_counts@, a.subnet_16, pre.config.max_nodes_per_ipv4_16 as nat, pre.v4_cap_16(h));
    if a.asn.is_some() {
        lemma_bump_keeps_caps(pre.asn_counts@, a.asn.unwrap(), pre.config.max_nodes_per_asn as nat, cap_for(pre.config.max_nodes_per_asn as nat, h));
    }
    if a.country.is_some() {
        let k = a.country.unwrap();
        assert forall|j: String| #[trigger] bump(pre.country_counts@, k).dom().contains(j) implies bump(pre.country_counts@, k)[j] >= 1 by {
            if j == k { } else { assert(pre.country_counts@.dom().contains(j)); }
        }
    }
}

/// Step 2: removals keep the invariant.
pub proof fn lemma_v6_removal_keeps_caps(pre: &IPDiversityEnforcer, post: &IPDiversityEnforcer, a: &IPAnalysis)
    requires pre.inv(), post.v6_removed(pre, a), post.same_settings(pre),
    ensures post.inv(), // @C13/v6/caps_hold_after_removal
{
    lemma_unbump_keeps_caps(pre.subnet_64_counts@, a.subnet_64, pre.config.max_nodes_per_64 as nat);
    lemma_unbump_keeps_caps(pre.subnet_48_counts@, a.subnet_48, pre.config.max_nodes_per_48 as nat);
    lemma_unbump_keeps_caps(pre.subnet_32_counts@, a.subnet_32, pre.config.max_nodes_per_32 as nat);
    if a.asn.is_some() { lemma_unbump_keeps_caps(pre.asn_counts@, a.asn.unwrap(), pre.config.max_nodes_per_asn as nat); }
    if a.country.is_some() { lemma_unbump_keeps_caps(pre.country_counts@, a.country.unwrap(), usize::MAX as nat); }
}
pub proof fn lemma_v4_removal_keeps_caps(pre: &IPDiversityEnforcer, post: &IPDiversityEnforcer, a: &IPv4Analysis)
    requires pre.inv(), post.v4_removed(pre, a), post.same_settings(pre),
    ensures post.inv(), // @C13/v4/caps_hold_after_removal
{
    lemma_unbump_keeps_caps(pre.ipv4_32_counts@, a.ip_addr, pre.config.max_per_ip_cap as nat);
    lemma_unbump_keeps_caps(pre.ipv4_24_counts@, a.subnet_24, pre.config.max_nodes_per_ipv4_24 as nat);
    lemma_unbump_keeps_caps(pre.ipv4_16_counts@, a.subnet_16, pre.config.max_nodes_per_ipv4_16 as nat);
    if a.asn.is_some() { lemma_unbump_keeps_caps(pre.asn_counts@, a.asn.unwrap(), pre.config.max_nodes_per_asn as nat); }
    if a.country.is_some() { lemma_unbump_keeps_caps(pre.country_counts@, a.country.unwrap(), usize::MAX as nat); }
}

/// "Removing an admitted node gives its slots back": remove after add restores every counter.
pub proof fn lemma_v6_remove_undoes_add(pre: &IPDiversityEnforcer, mid: &IPDiversityEnforcer, post: &IPDiversityEnforcer, a: &IPAnalysis)
    requires pre.inv(), pre.country_room(), pre.v6_below_caps(a), mid.v6_added(pre, a), post.v6_removed(mid, a),
    ensures post.same_counts(pre), // @C13/v6/removing_an_admitted_node_gives_its_slots_back
{
    lemma_unbump_bump(pre.subnet_64_counts@, a.subnet_64);
    lemma_unbump_bump(pre.subnet_48_counts@, a.subnet_48);
    lemma_unbump_bump(pre.subnet_32_counts@, a.subnet_32);
    if a.asn.is_some() { lemma_unbump_bump(pre.asn_counts@, a.asn.unwrap()); }
    if a.country.is_some() { lemma_unbump_bump(pre.country_counts@, a.country.unwrap()); }
}
pub proof fn lemma_v4_remove_undoes_add(pre: &IPDiversityEnforcer, mid: &IPDiversityEnforcer, post: &IPDiversityEnforcer, a: &IPv4Analysis)
    requires pre.inv(), pre.country_room(), pre.v4_below_caps(a), mid.v4_added(pre, a), post.v4_removed(mid, a),
    ensures post.same_counts(pre), // @C13/v4/removing_an_admitted_node_gives_its_slots_back
{
    lemma_unbump_bump(pre.ipv4_32_counts@, a.ip_addr);
    lemma_unbump_bump(pre.ipv4_24_counts@, a.subnet_24);
    lemma_unbump_bump(pre.ipv4_16_counts@, a.subnet_16);
    if a.asn.is_some() { lemma_unbump_bump(pre.asn_counts@, a.asn.unwrap()); }
    if a.country.is_some() { lemma_unbump_bump(pre.country_counts@, a.country.unwrap()); }
}

// =================================================================================================
// Admission pipeline of the routing table: DhtCoreEngine::add_node (C13 clause "an admission that fails
// part-way consumes none"). The function is `async`, but every `.await` in it is the acquisition of a
// tokio RwLock guard; the extraction replaces each acquisition by a parameter that stands for the guarded
// object (await erasure, DESIGN 0.2) and verifies the sequential body. ASSUMED: the four guards are
// independent objects (they are four different Arc<RwLock<..>> fields), the callees outside this unit
// (CloseGroupValidator::validate, KademliaRoutingTable::add_node, IPDiversityEnforcer::analyze_unified,
// GeographicRegion::from_ip, address parsing) return *some* value and touch nothing else.
// =================================================================================================
pub mod verif_admit_std {
    use vstd::prelude::*;
    use super::*;
    /// std::net::IpAddr: opaque here (Verus has no specification for it); Copy like the real type
    #[verifier::external_body]
    pub struct IpAddr { _p: u8 }
    impl Clone for IpAddr {
        #[verifier::external_body]
        fn clone(&self) -> (r: Self) ensures r == *self { unimplemented!() }
    }
    impl Copy for IpAddr {}
    #[verifier::external_body]
    pub struct NodeId { _p: [u8; 32] }
    pub struct NodeInfo { pub id: NodeId, pub address: String }
    #[verifier::external_body]
    pub struct CloseGroupValidator { _p: u8 }
    impl CloseGroupValidator {
        #[verifier::external_body]
        pub fn validate(&self, node_id: &NodeId) -> (r: bool) { unimplemented!() }
    }
    #[verifier::external_body]
    pub struct KademliaRoutingTable { _p: u8 }
    impl KademliaRoutingTable {
        // contract verified in unit `bucket`; here only its verdict matters
        #[verifier::external_body]
        pub fn add_node(&mut self, node: NodeInfo) -> (r: Result<()>) { unimplemented!() }
    }
    /// `s.parse::<SocketAddr>()` then `.ip()`, else `s.parse::<IpAddr>().ok()` -- string parsing is opaque here
    #[verifier::external_body]
    pub fn verif_parse_socket_ip(s: &String) -> (r: Option<IpAddr>) { unimplemented!() }
    #[verifier::external_body]
    pub fn verif_parse_ip(s: &String) -> (r: Option<IpAddr>) { unimplemented!() }
    #[verifier::external_body]
    pub broadcast proof fn axiom_region_key_model()
        ensures #[trigger] vstd::std_specs::hash::obeys_key_model::<GeographicRegion>(),
    {}
    /// `*map.entry(k).or_insert(0) += 1` (the extraction renames exactly that statement)
    #[verifier::external_body]
    pub fn verif_count_inc(m: &mut std::collections::HashMap<GeographicRegion, usize>, k: GeographicRegion)
        requires geo_cnt(old(m)@, k) < usize::MAX,
        ensures final(m)@ == old(m)@.insert(k, (geo_cnt(old(m)@, k) + 1) as usize),
    { unimplemented!() }
    /// `map.get_mut(&k)`
    #[verifier::external_body]
    pub fn verif_geo_get_mut<'a>(m: &'a mut std::collections::HashMap<GeographicRegion, usize>, k: &GeographicRegion) -> (r: Option<&'a mut usize>)
        ensures
            r.is_some() == old(m)@.contains_key(*k),
            r.is_some() ==> *r.unwrap() == old(m)@[*k] && final(m)@ == old(m)@.insert(*k, *final(r.unwrap())),
            r.is_none() ==> final(m)@ == old(m)@,
    { unimplemented!() }
    pub open spec fn geo_cnt(m: Map<GeographicRegion, usize>, k: GeographicRegion) -> nat {
        if m.contains_key(k) { m[k] as nat } else { 0 }
    }
}
pub use verif_admit_std::*;
impl GeographicRegion {
    #[verifier::external_body]
    pub fn from_ip(ip: IpAddr) -> (r: GeographicRegion) { unimplemented!() }
}
impl Clone for GeographicRegion {
    #[verifier::external_body]
    fn clone(&self) -> (r: Self) ensures r == *self { unimplemented!() }
}
impl Copy for GeographicRegion {}
impl PartialEq for GeographicRegion {
    #[verifier::external_body]
    fn eq(&self, other: &GeographicRegion) -> (r: bool) ensures r == (*self == *other) { unimplemented!() }
}
impl Eq for GeographicRegion {}
impl std::hash::Hash for GeographicRegion {
    #[verifier::external_body]
    fn hash<H: std::hash::Hasher>(&self, state: &mut H) { unimplemented!() }
}
pub struct GeographicDiversityEnforcer {
    pub region_counts: std::collections::HashMap<GeographicRegion, usize>,
    pub max_per_region: usize,
}
pub struct DhtCoreEngine {}
impl IPDiversityEnforcer {
    // outside this unit (GeoIP lookups, prefix extraction: Kani c13_analysis_keys_are_prefixes): some analysis or an error
    #[verifier::external_body]
    pub fn analyze_unified(&self, addr: IpAddr) -> (r: Result<UnifiedIPAnalysis>) { unimplemented!() }
}
impl GeographicDiversityEnforcer {
    /// every region's admitted-node count is the same in both (an entry holding 0 counts like no entry)
    pub open spec fn same_region_counts(&self, o: &GeographicDiversityEnforcer) -> bool {
        forall|g: GeographicRegion| geo_cnt(self.region_counts@, g) == geo_cnt(o.region_counts@, g)
    }
}

// =================================================================================================
// Removal paths of the routing table: DhtCoreEngine::evict_node / handle_node_failure (C13 clause "removing an
// admitted node -- from the routing table by failure or eviction -- gives its slots back"). Await-erased like
// add_node: the routing table and the two enforcers are parameters. What the node was admitted with is an
// uninterpreted fact about its table entry (its address parses to an IP whose analysis is `an` / whose region is
// `g`): a repair would establish it by looking the entry up before removing it.
// =================================================================================================
pub uninterp spec fn admitted_with(table: KademliaRoutingTable, id: NodeId, an: UnifiedIPAnalysis) -> bool;
pub uninterp spec fn admitted_region(table: KademliaRoutingTable, id: NodeId) -> Option<GeographicRegion>;
impl KademliaRoutingTable {
    // contract verified in unit `bucket` (the peer is no longer listed, nobody else is touched)
    #[verifier::external_body]
    pub fn remove_node(&mut self, node_id: &NodeId) { unimplemented!() }
}
pub open spec fn slots_returned(post: IPDiversityEnforcer, pre: IPDiversityEnforcer, an: UnifiedIPAnalysis) -> bool {
    match an {
        UnifiedIPAnalysis::IPv4(a) => post.v4_removed(&pre, &a),
        UnifiedIPAnalysis::IPv6(a) => post.v6_removed(&pre, &a),
    }
}
pub open spec fn region_slot_returned(post: GeographicDiversityEnforcer, pre: GeographicDiversityEnforcer, g: GeographicRegion) -> bool {
    geo_cnt(post.region_counts@, g) == (if geo_cnt(pre.region_counts@, g) > 0 { (geo_cnt(pre.region_counts@, g) - 1) as nat } else { 0nat })
}
