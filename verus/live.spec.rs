// Spec side of unit `live` (C16, liveness policy): specification only.
// Struct shims are field subsets checked against /repo on every run
// (NodeLivenessState.last_seen: Instant is omitted; the statement that writes it is dropped and echoed).

pub struct NodeLivenessState {
    pub consecutive_failures: u32,
    pub total_successes: u64,
    pub total_failures: u64,
}
pub struct MaintenanceConfig {
    pub max_consecutive_failures: u32,
}

/// Property-level view of a history of events for one peer: `true` = failure, `false` = success.
/// Number of consecutive failures since the last success.
pub open spec fn fails_since_success(h: Seq<bool>) -> nat
    decreases h.len()
{
    if h.len() == 0 { 0 }
    else if h.last() { fails_since_success(h.drop_last()) + 1 }
    else { 0 }
}

/// Value of the `consecutive_failures` field after replaying `h` through the CONTRACTS of
/// record_failure (+1) and record_success (:= 0), starting from new() (= 0).
pub open spec fn cf_by_contract(h: Seq<bool>) -> nat
    decreases h.len()
{
    if h.len() == 0 { 0 }
    else if h.last() { cf_by_contract(h.drop_last()) + 1 }
    else { 0 }
}

/// For every history: the counter the code maintains (by its contracts) is exactly the number of
/// consecutive failures since the last success; so `should_evict` (contract below) holds exactly
/// when that number has reached the configured maximum, and one success clears it.
proof fn lemma_policy_all_histories(h: Seq<bool>)
    ensures cf_by_contract(h) == fails_since_success(h),
            h.len() > 0 && !h.last() ==> cf_by_contract(h) == 0,
    decreases h.len()
{
    if h.len() > 0 { lemma_policy_all_histories(h.drop_last()); }
}
