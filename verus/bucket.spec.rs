// Spec side of unit `bucket` (C02): hand-written SPECIFICATION only -- struct
// shims (field subsets, checked against /repo on every run), spec functions
// taken from the property statement, and lemmas. The executable functions are
// spliced in below this text by the extractor, verbatim from /repo.

pub struct DhtKey(pub [u8; 32]);
pub struct NodeId(pub DhtKey);
pub struct KademliaRoutingTable { pub node_id: NodeId }

/// Bit `i` (0 = most significant bit of byte 0) of a 256-bit identifier.
pub open spec fn bit_at(k: [u8; 32], i: int) -> bool {
    (k[i / 8] >> ((7 - (i % 8)) as u8)) & 1 == 1
}
/// The two identifiers differ in bit `i`.
pub open spec fn differ_at(a: [u8; 32], b: [u8; 32], i: int) -> bool {
    bit_at(a, i) != bit_at(b, i)
}
pub open spec fn is_xor(a: [u8; 32], b: [u8; 32], r: [u8; 32]) -> bool {
    forall|i: int| 0 <= i < 32 ==> r[i] == a[i] ^ b[i]
}
/// Property-level spec: `r` is the Kademlia bucket of `b` seen from `a`:
/// the index of the first (most significant) differing bit, 255 for equal ids.
pub open spec fn is_bucket_of(a: [u8; 32], b: [u8; 32], r: int) -> bool {
    &&& 0 <= r < 256
    &&& (exists|i: int| 0 <= i < 256 && differ_at(a, b, i)) ==>
            (differ_at(a, b, r) && forall|j: int| 0 <= j < r ==> !differ_at(a, b, j))
    &&& (forall|i: int| 0 <= i < 256 ==> !differ_at(a, b, i)) ==> r == 255
}

impl DhtKey {
    // ASSUMED here, PROVED on the real function by Kani harness
    // `c02_distance_is_xor` (complete, all 2^512 inputs).
    #[verifier::external_body]
    pub fn distance(&self, other: &DhtKey) -> (r: [u8; 32])
        ensures is_xor(self.0, other.0, r)
    { unimplemented!() }
}

proof fn lemma_xor_bit(x: u8, y: u8, k: u8)
    requires k < 8
    ensures (((x ^ y) >> k) & 1 == 1) <==> (((x >> k) & 1 == 1) != ((y >> k) & 1 == 1))
{
    assert((((x ^ y) >> k) & 1 == 1) <==> (((x >> k) & 1 == 1) != ((y >> k) & 1 == 1))) by (bit_vector)
        requires k < 8;
}

proof fn lemma_xor_bits(a: [u8; 32], b: [u8; 32], d: [u8; 32], i: int)
    requires is_xor(a, b, d), 0 <= i < 256
    ensures bit_at(d, i) <==> differ_at(a, b, i)
{
    let k = (7 - (i % 8)) as u8;
    lemma_xor_bit(a[i / 8], b[i / 8], k);
}
