// Spec side of unit `bucket` (C02): hand-written SPECIFICATION only -- struct
// shims (field subsets, checked against /repo on every run), spec functions
// taken from the property statement, and lemmas. The executable functions are
// spliced in below this text by the extractor, verbatim from /repo.

pub struct DhtKey(pub [u8; 32]);
pub struct NodeId(pub DhtKey);
pub struct NodeInfo { pub id: NodeId }
pub struct KBucket { pub nodes: Vec<NodeInfo>, pub max_size: usize }
pub struct KademliaRoutingTable { pub buckets: Vec<KBucket>, pub node_id: NodeId, pub _k_value: usize }
/// Error values: the text of `anyhow!(..)` messages is dropped by the extraction.
pub struct VerifError {}
/// the engine that owns the routing table behind a tokio RwLock (only its critical sections are extracted)
pub struct DhtCoreEngine { pub node_id: NodeId, pub trust_peer_selector: Option<TrustAwarePeerSelector<EigenTrustEngine>> }
pub type Result<T> = core::result::Result<T, VerifError>;

// ASSUMED: the derived `PartialEq` of NodeId/DhtKey (newtypes over [u8; 32]) is equality of the bytes.
impl PartialEq for NodeId {
    #[verifier::external_body]
    fn eq(&self, other: &NodeId) -> (r: bool) ensures r == (*self == *other) { unimplemented!() }
    #[verifier::external_body]
    fn ne(&self, other: &NodeId) -> (r: bool) ensures r == (*self != *other) { unimplemented!() }
}

/// Bit `i` (0 = most significant bit of byte 0) of a 256-bit identifier.
pub open spec fn bit_at(k: [u8; 32], i: int) -> bool {
    (k[i / 8] >> ((7 - (i % 8)) as u8)) & 1 == 1
}
/// The two identifiers differ in bit `i`.
pub open spec fn differ_at(a: [u8; 32], b: [u8; 32], i: int) -> bool {
    bit_at(a, i) != bit_at(b, i)
}
pub open spec fn is_xor(a: [u8; 32], b: [u8; 32], r: [u8; 32]) -> bool {
    forall|i: int| 0 <= i < 32 ==> r[i] == a[i] ^ b[i]
}
/// Property-level spec: `r` is the Kademlia bucket of `b` seen from `a`:
/// the index of the first (most significant) differing bit, 255 for equal ids.
pub open spec fn is_bucket_of(a: [u8; 32], b: [u8; 32], r: int) -> bool {
    &&& 0 <= r < 256
    &&& (exists|i: int| 0 <= i < 256 && differ_at(a, b, i)) ==>
            (differ_at(a, b, r) && forall|j: int| 0 <= j < r ==> !differ_at(a, b, j))
    &&& (forall|i: int| 0 <= i < 256 ==> !differ_at(a, b, i)) ==> r == 255
}

impl DhtKey {
    // ASSUMED here, PROVED on the real function by Kani harness
    // `c02_distance_is_xor` (complete, all 2^512 inputs).
    #[verifier::external_body]
    pub fn distance(&self, other: &DhtKey) -> (r: [u8; 32])
        ensures is_xor(self.0, other.0, r)
    { unimplemented!() }
}

proof fn lemma_xor_bit(x: u8, y: u8, k: u8)
    requires k < 8
    ensures (((x ^ y) >> k) & 1 == 1) <==> (((x >> k) & 1 == 1) != ((y >> k) & 1 == 1))
{
    assert((((x ^ y) >> k) & 1 == 1) <==> (((x >> k) & 1 == 1) != ((y >> k) & 1 == 1))) by (bit_vector)
        requires k < 8;
}

proof fn lemma_xor_bits(a: [u8; 32], b: [u8; 32], d: [u8; 32], i: int)
    requires is_xor(a, b, d), 0 <= i < 256
    ensures bit_at(d, i) <==> differ_at(a, b, i)
{
    let k = (7 - (i % 8)) as u8;
    lemma_xor_bit(a[i / 8], b[i / 8], k);
}


// ---------------------------------------------------------------------------------------------
// Routing-table view and invariant (C02: "the table itself lists each peer at most once and
// never the local node", for every history of add/remove operations).
// ---------------------------------------------------------------------------------------------
pub open spec fn seq_has(s: Seq<NodeInfo>, id: NodeId) -> bool {
    exists|j: int| 0 <= j < s.len() && (#[trigger] s[j]).id == id
}
pub open spec fn seq_distinct(s: Seq<NodeInfo>) -> bool {
    forall|i: int, j: int| 0 <= i < s.len() && 0 <= j < s.len() && i != j ==> (#[trigger] s[i]).id != (#[trigger] s[j]).id
}

/// Contract of KBucket::add_node: a known peer is refreshed in place (same position, same id),
/// an unknown peer is appended when there is room, otherwise the bucket is unchanged and Err.
pub open spec fn kb_add_post(pre: KBucket, post: KBucket, node: NodeInfo, ok: bool) -> bool {
    &&& post.max_size == pre.max_size
    &&& seq_has(pre.nodes@, node.id) ==> ok && post.nodes@.len() == pre.nodes@.len()
            && (forall|j: int| 0 <= j < pre.nodes@.len() ==> (#[trigger] post.nodes@[j]).id == pre.nodes@[j].id)
    &&& !seq_has(pre.nodes@, node.id) && pre.nodes@.len() < pre.max_size ==> ok && post.nodes@ == pre.nodes@.push(node)
    &&& !seq_has(pre.nodes@, node.id) && pre.nodes@.len() >= pre.max_size ==> !ok && post.nodes@ == pre.nodes@
}
pub open spec fn filt(s: Seq<NodeInfo>, id: NodeId) -> Seq<NodeInfo> {
    s.filter(|n: NodeInfo| n.id != id)
}
/// Contract of KBucket::remove_node: exactly the entries with another id remain, in order.
pub open spec fn kb_remove_post(pre: KBucket, post: KBucket, id: NodeId) -> bool {
    &&& post.max_size == pre.max_size
    &&& post.nodes@ == filt(pre.nodes@, id)
}

// KBucket::add_node / remove_node are VERIFIED in this unit (extracted text) behind two std shims:
// `v.iter_mut().find(p)` and `v.retain(p)` (the extraction renames exactly those calls; contract =
// documented std behaviour, ASSUMED). The same composed contracts are additionally checked on the real
// functions WITH the real std code by the Kani harnesses c02_kbucket_add_contract_* /
// c02_kbucket_remove_contract_* for small bucket lengths, which also exercises the shim assumption.
pub open spec fn first_match(s: Seq<NodeInfo>, f: spec_fn(NodeInfo) -> bool, i: int) -> bool {
    0 <= i < s.len() && f(s[i]) && forall|j: int| 0 <= j < i ==> !f(#[trigger] s[j])
}
/// `v.iter_mut().find(p)`: a mutable reference to the first element satisfying p, or None (std docs).
#[verifier::external_body]
pub fn verif_iter_mut_find<'a, P: Fn(&NodeInfo) -> bool>(v: &'a mut Vec<NodeInfo>, p: P, Ghost(f): Ghost<spec_fn(NodeInfo) -> bool>) -> (r: Option<&'a mut NodeInfo>)
    requires
        forall|x: &NodeInfo| #[trigger] call_requires(p, (x,)),
        forall|x: &NodeInfo, b: bool| #[trigger] call_ensures(p, (x,), b) ==> b == f(*x),
    ensures
        r.is_none() ==> (forall|j: int| 0 <= j < old(v)@.len() ==> !f(#[trigger] old(v)@[j])) && final(v)@ == old(v)@,
        r.is_some() ==> exists|i: int| first_match(old(v)@, f, i) && *r.unwrap() == old(v)@[i] && final(v)@ == old(v)@.update(i, *final(r.unwrap())),
{
    unimplemented!()
}
/// `v.retain(p)`: keeps exactly the elements satisfying p, in order (std docs).
#[verifier::external_body]
pub fn verif_retain<P: Fn(&NodeInfo) -> bool>(v: &mut Vec<NodeInfo>, p: P, Ghost(f): Ghost<spec_fn(NodeInfo) -> bool>)
    requires
        forall|x: &NodeInfo| #[trigger] call_requires(p, (x,)),
        forall|x: &NodeInfo, b: bool| #[trigger] call_ensures(p, (x,), b) ==> b == f(*x),
    ensures final(v)@ == old(v)@.filter(f),
{
    unimplemented!()
}

/// One add_node step on the table: the local id is never inserted; otherwise only the bucket of
/// the first differing bit changes, and it changes as KBucket::add_node's contract says.
pub open spec fn table_add_step(pre: &KademliaRoutingTable, post: &KademliaRoutingTable, node: NodeInfo, ok: bool) -> bool {
    &&& post.node_id == pre.node_id
    &&& post.buckets@.len() == pre.buckets@.len()
    &&& node.id == pre.node_id ==> ok && post.buckets@ == pre.buckets@
    &&& node.id != pre.node_id ==> exists|bi: int| 0 <= bi < 256 && #[trigger] is_bucket_of(pre.node_id.0.0, node.id.0.0, bi)
            && kb_add_post(pre.buckets@[bi], post.buckets@[bi], node, ok)
            && (forall|b: int| 0 <= b < 256 && b != bi ==> #[trigger] post.buckets@[b] == pre.buckets@[b])
}
pub open spec fn table_remove_step(pre: &KademliaRoutingTable, post: &KademliaRoutingTable, id: NodeId) -> bool {
    &&& post.node_id == pre.node_id
    &&& post.buckets@.len() == pre.buckets@.len()
    &&& exists|bi: int| 0 <= bi < 256 && #[trigger] is_bucket_of(pre.node_id.0.0, id.0.0, bi)
            && kb_remove_post(pre.buckets@[bi], post.buckets@[bi], id)
            && (forall|b: int| 0 <= b < 256 && b != bi ==> #[trigger] post.buckets@[b] == pre.buckets@[b])
}

impl KademliaRoutingTable {
    /// `id` is listed somewhere in the table.
    pub open spec fn lists(&self, id: NodeId) -> bool {
        exists|b: int| 0 <= b < self.buckets@.len() && seq_has((#[trigger] self.buckets@[b]).nodes@, id)
    }
    /// Representation invariant: 256 buckets; every entry sits in the bucket of its first
    /// differing bit and is not the local id; ids are distinct within a bucket; bucket <= max_size.
    pub open spec fn wf(&self) -> bool {
        &&& self.buckets@.len() == 256
        &&& forall|b: int| 0 <= b < 256 ==> seq_distinct((#[trigger] self.buckets@[b]).nodes@)
        &&& forall|b: int| 0 <= b < 256 ==> (#[trigger] self.buckets@[b]).nodes@.len() <= self.buckets@[b].max_size
        &&& forall|b: int, j: int| 0 <= b < 256 && 0 <= j < self.buckets@[b].nodes@.len() ==>
                is_bucket_of(self.node_id.0.0, (#[trigger] self.buckets@[b].nodes@[j]).id.0.0, b)
                && self.buckets@[b].nodes@[j].id != self.node_id
    }
    /// "lists each peer at most once": two entries with the same id are the same entry.
    pub open spec fn each_peer_once(&self) -> bool {
        forall|b1: int, j1: int, b2: int, j2: int|
            0 <= b1 < self.buckets@.len() && 0 <= j1 < self.buckets@[b1].nodes@.len()
            && 0 <= b2 < self.buckets@.len() && 0 <= j2 < self.buckets@[b2].nodes@.len()
            && (#[trigger] self.buckets@[b1].nodes@[j1]).id == (#[trigger] self.buckets@[b2].nodes@[j2]).id
            ==> b1 == b2 && j1 == j2
    }
}

/// The bucket of an id is a function of the two ids.
pub proof fn lemma_bucket_unique(a: [u8; 32], b: [u8; 32], r1: int, r2: int)
    requires is_bucket_of(a, b, r1), is_bucket_of(a, b, r2),
    ensures r1 == r2,
{
    if exists|i: int| 0 <= i < 256 && differ_at(a, b, i) {
        if r1 < r2 { assert(!differ_at(a, b, r1)); } else if r2 < r1 { assert(!differ_at(a, b, r2)); }
    } else {
        assert(forall|i: int| 0 <= i < 256 ==> !differ_at(a, b, i));
    }
}

/// wf ==> each peer at most once, never the local node (the table-level clause of C02).
pub proof fn lemma_wf_each_peer_once(t: &KademliaRoutingTable)
    requires t.wf(),
    ensures
        t.each_peer_once(), // @C02/table/each_peer_at_most_once
        !t.lists(t.node_id), // @C02/table/never_lists_local_node
{
    assert forall|b1: int, j1: int, b2: int, j2: int|
        0 <= b1 < t.buckets@.len() && 0 <= j1 < t.buckets@[b1].nodes@.len()
        && 0 <= b2 < t.buckets@.len() && 0 <= j2 < t.buckets@[b2].nodes@.len()
        && (#[trigger] t.buckets@[b1].nodes@[j1]).id == (#[trigger] t.buckets@[b2].nodes@[j2]).id
        implies b1 == b2 && j1 == j2 by {
        lemma_bucket_unique(t.node_id.0.0, t.buckets@[b1].nodes@[j1].id.0.0, b1, b2);
    }
}


/// Induction step for add: the invariant is kept and the listed-ids view changes exactly by the
/// added id (whole view, not just the touched bucket).
pub proof fn lemma_table_add(pre: &KademliaRoutingTable, post: &KademliaRoutingTable, node: NodeInfo, ok: bool)
    requires pre.wf(), table_add_step(pre, post, node, ok),
    ensures
        post.wf(), // @C02/table/add_keeps_each_peer_once_and_never_local
        forall|q: NodeId| post.lists(q) == (pre.lists(q) || (q == node.id && node.id != pre.node_id && ok)), // @C02/table/add_view_exact
        (node.id != pre.node_id && !pre.lists(node.id) && !ok) ==> exists|b: int| 0 <= b < 256 && (#[trigger] pre.buckets@[b]).nodes@.len() >= pre.buckets@[b].max_size, // @C02/table/add_refused_only_when_bucket_full
{
    if node.id == pre.node_id {
        assert(post.buckets@ == pre.buckets@);
        assert forall|q: NodeId| post.lists(q) == pre.lists(q) by {}
    } else {
        let bi = choose|bi: int| 0 <= bi < 256 && #[trigger] is_bucket_of(pre.node_id.0.0, node.id.0.0, bi)
            && kb_add_post(pre.buckets@[bi], post.buckets@[bi], node, ok)
            && (forall|b: int| 0 <= b < 256 && b != bi ==> #[trigger] post.buckets@[b] == pre.buckets@[b]);
        let pb = pre.buckets@[bi];
        let qb = post.buckets@[bi];
        // anything listing node.id in pre sits in bucket bi
        assert forall|b: int| 0 <= b < 256 && seq_has(pre.buckets@[b].nodes@, node.id) implies b == bi by {
            let j = choose|j: int| 0 <= j < pre.buckets@[b].nodes@.len() && (#[trigger] pre.buckets@[b].nodes@[j]).id == node.id;
            lemma_bucket_unique(pre.node_id.0.0, node.id.0.0, b, bi);
        }
        // wf of the touched bucket
        if seq_has(pb.nodes@, node.id) {
            assert forall|j: int| 0 <= j < qb.nodes@.len() implies
                is_bucket_of(post.node_id.0.0, (#[trigger] qb.nodes@[j]).id.0.0, bi) && qb.nodes@[j].id != post.node_id by {
                assert(qb.nodes@[j].id == pb.nodes@[j].id);
            }
            assert(seq_distinct(qb.nodes@)) by {
                assert forall|i: int, j: int| 0 <= i < qb.nodes@.len() && 0 <= j < qb.nodes@.len() && i != j implies (#[trigger] qb.nodes@[i]).id != (#[trigger] qb.nodes@[j]).id by {
                    assert(qb.nodes@[i].id == pb.nodes@[i].id && qb.nodes@[j].id == pb.nodes@[j].id);
                }
            }
        } else if pb.nodes@.len() < pb.max_size {
            assert(qb.nodes@ == pb.nodes@.push(node));
            assert forall|j: int| 0 <= j < qb.nodes@.len() implies
                is_bucket_of(post.node_id.0.0, (#[trigger] qb.nodes@[j]).id.0.0, bi) && qb.nodes@[j].id != post.node_id by {
                if j < pb.nodes@.len() { assert(qb.nodes@[j] == pb.nodes@[j]); } else { assert(qb.nodes@[j] == node); }
            }
            assert(seq_distinct(qb.nodes@)) by {
                assert forall|i: int, j: int| 0 <= i < qb.nodes@.len() && 0 <= j < qb.nodes@.len() && i != j implies (#[trigger] qb.nodes@[i]).id != (#[trigger] qb.nodes@[j]).id by {
                    if i < pb.nodes@.len() && j < pb.nodes@.len() {
                        assert(qb.nodes@[i] == pb.nodes@[i] && qb.nodes@[j] == pb.nodes@[j]);
                    } else if i < pb.nodes@.len() {
                        assert(qb.nodes@[i] == pb.nodes@[i]); assert(qb.nodes@[j] == node);
                    } else {
                        assert(qb.nodes@[j] == pb.nodes@[j]); assert(qb.nodes@[i] == node);
                    }
                }
            }
        } else {
            assert(qb.nodes@ == pb.nodes@);
        }
        assert(post.wf()) by {
            assert forall|b: int| 0 <= b < 256 implies seq_distinct((#[trigger] post.buckets@[b]).nodes@) by {
                if b != bi { assert(post.buckets@[b] == pre.buckets@[b]); }
            }
            assert forall|b: int| 0 <= b < 256 implies (#[trigger] post.buckets@[b]).nodes@.len() <= post.buckets@[b].max_size by {
                if b != bi { assert(post.buckets@[b] == pre.buckets@[b]); }
            }
            assert forall|b: int, j: int| 0 <= b < 256 && 0 <= j < post.buckets@[b].nodes@.len() implies
                is_bucket_of(post.node_id.0.0, (#[trigger] post.buckets@[b].nodes@[j]).id.0.0, b)
                && post.buckets@[b].nodes@[j].id != post.node_id by {
                if b != bi { assert(post.buckets@[b] == pre.buckets@[b]); }
            }
        }
        // the view
        assert forall|q: NodeId| post.lists(q) == (pre.lists(q) || (q == node.id && ok)) by {
            // per-bucket membership
            assert forall|b: int| 0 <= b < 256 implies
                seq_has((#[trigger] post.buckets@[b]).nodes@, q) == (seq_has(pre.buckets@[b].nodes@, q) || (b == bi && q == node.id && ok)) by {
                if b != bi {
                    assert(post.buckets@[b] == pre.buckets@[b]);
                } else {
                    lemma_kb_add_membership(pb, qb, node, ok, q);
                }
            }
            if post.lists(q) {
                let b = choose|b: int| 0 <= b < post.buckets@.len() && seq_has((#[trigger] post.buckets@[b]).nodes@, q);
                assert(seq_has(pre.buckets@[b].nodes@, q) || (b == bi && q == node.id && ok));
            }
            if pre.lists(q) {
                let b = choose|b: int| 0 <= b < pre.buckets@.len() && seq_has((#[trigger] pre.buckets@[b]).nodes@, q);
                assert(seq_has(post.buckets@[b].nodes@, q));
            }
            if q == node.id && ok {
                assert(seq_has(post.buckets@[bi].nodes@, q));
            }
        }
        if !pre.lists(node.id) && !ok {
            assert(!seq_has(pb.nodes@, node.id));
            assert(pb.nodes@.len() >= pb.max_size);
        }
    }
}

pub proof fn lemma_kb_add_membership(pb: KBucket, qb: KBucket, node: NodeInfo, ok: bool, q: NodeId)
    requires kb_add_post(pb, qb, node, ok),
    ensures seq_has(qb.nodes@, q) == (seq_has(pb.nodes@, q) || (q == node.id && ok)),
{
    if seq_has(pb.nodes@, node.id) {
        if seq_has(qb.nodes@, q) {
            let j = choose|j: int| 0 <= j < qb.nodes@.len() && (#[trigger] qb.nodes@[j]).id == q;
            assert(pb.nodes@[j].id == q);
        }
        if seq_has(pb.nodes@, q) {
            let j = choose|j: int| 0 <= j < pb.nodes@.len() && (#[trigger] pb.nodes@[j]).id == q;
            assert(qb.nodes@[j].id == q);
        }
    } else if pb.nodes@.len() < pb.max_size {
        assert(qb.nodes@ == pb.nodes@.push(node));
        if seq_has(qb.nodes@, q) {
            let j = choose|j: int| 0 <= j < qb.nodes@.len() && (#[trigger] qb.nodes@[j]).id == q;
            if j < pb.nodes@.len() { assert(pb.nodes@[j].id == q); }
        }
        if seq_has(pb.nodes@, q) {
            let j = choose|j: int| 0 <= j < pb.nodes@.len() && (#[trigger] pb.nodes@[j]).id == q;
            assert(qb.nodes@[j].id == q);
        }
        assert(qb.nodes@[pb.nodes@.len() as int].id == node.id);
    } else {
    }
}

pub proof fn lemma_filter_props(s: Seq<NodeInfo>, id: NodeId)
    ensures
        forall|q: NodeId| seq_has(filt(s, id), q) == (seq_has(s, q) && q != id),
        seq_distinct(s) ==> seq_distinct(filt(s, id)),
        filt(s, id).len() <= s.len(),
        forall|j: int| 0 <= j < filt(s, id).len() ==> seq_has(s, (#[trigger] filt(s, id)[j]).id),
    decreases s.len(),
{
    reveal_with_fuel(Seq::filter, 1);
    let pred = |n: NodeInfo| n.id != id;
    let f = filt(s, id);
    if s.len() == 0 {
        assert(f.len() == 0);
    } else {
        let t = s.drop_last();
        lemma_filter_props(t, id);
        let ft = filt(t, id);
        let last = s.last();
        assert(f == if pred(last) { ft.push(last) } else { ft });
        assert forall|q: NodeId| seq_has(f, q) == (seq_has(s, q) && q != id) by {
            if seq_has(f, q) {
                let j = choose|j: int| 0 <= j < f.len() && (#[trigger] f[j]).id == q;
                if j < ft.len() {
                    assert(ft[j].id == q); assert(seq_has(ft, q));
                    let k = choose|k: int| 0 <= k < t.len() && (#[trigger] t[k]).id == q;
                    assert(s[k].id == q);
                } else {
                    assert(f[j] == last); assert(s[s.len() - 1].id == q);
                }
            }
            if seq_has(s, q) && q != id {
                let k = choose|k: int| 0 <= k < s.len() && (#[trigger] s[k]).id == q;
                if k < t.len() {
                    assert(t[k].id == q); assert(seq_has(t, q)); assert(seq_has(ft, q));
                    let j = choose|j: int| 0 <= j < ft.len() && (#[trigger] ft[j]).id == q;
                    assert(f[j].id == q);
                } else {
                    assert(pred(last)); assert(f[ft.len() as int].id == q);
                }
            }
        }
        if seq_distinct(s) {
            assert(seq_distinct(t)) by {
                assert forall|i: int, j: int| 0 <= i < t.len() && 0 <= j < t.len() && i != j implies (#[trigger] t[i]).id != (#[trigger] t[j]).id by {
                    assert(s[i].id != s[j].id);
                }
            }
            assert(seq_distinct(f)) by {
                assert forall|i: int, j: int| 0 <= i < f.len() && 0 <= j < f.len() && i != j implies (#[trigger] f[i]).id != (#[trigger] f[j]).id by {
                    if i < ft.len() && j < ft.len() {
                        assert(ft[i].id != ft[j].id);
                    } else {
                        // one of them is `last`, the other comes from t; last.id is not in t
                        let o = if i < ft.len() { i } else { j };
                        assert(seq_has(t, ft[o].id));
                        let k = choose|k: int| 0 <= k < t.len() && (#[trigger] t[k]).id == ft[o].id;
                        assert(s[k].id != s[s.len() - 1].id);
                    }
                }
            }
        }
        assert forall|j: int| 0 <= j < f.len() implies seq_has(s, (#[trigger] f[j]).id) by {
            if j < ft.len() {
                assert(seq_has(t, ft[j].id));
                let k = choose|k: int| 0 <= k < t.len() && (#[trigger] t[k]).id == ft[j].id;
                assert(s[k].id == f[j].id);
            } else {
                assert(s[s.len() - 1].id == f[j].id);
            }
        }
    }
}

/// Induction step for remove.
pub proof fn lemma_table_remove(pre: &KademliaRoutingTable, post: &KademliaRoutingTable, id: NodeId)
    requires pre.wf(), table_remove_step(pre, post, id),
    ensures
        post.wf(), // @C02/table/remove_keeps_each_peer_once_and_never_local
        forall|q: NodeId| post.lists(q) == (pre.lists(q) && q != id), // @C02/table/remove_view_exact
{
    let bi = choose|bi: int| 0 <= bi < 256 && #[trigger] is_bucket_of(pre.node_id.0.0, id.0.0, bi)
        && kb_remove_post(pre.buckets@[bi], post.buckets@[bi], id)
        && (forall|b: int| 0 <= b < 256 && b != bi ==> #[trigger] post.buckets@[b] == pre.buckets@[b]);
    let pb = pre.buckets@[bi];
    let qb = post.buckets@[bi];
    lemma_filter_props(pb.nodes@, id);
    assert forall|b: int| 0 <= b < 256 && seq_has(pre.buckets@[b].nodes@, id) implies b == bi by {
        let j = choose|j: int| 0 <= j < pre.buckets@[b].nodes@.len() && (#[trigger] pre.buckets@[b].nodes@[j]).id == id;
        lemma_bucket_unique(pre.node_id.0.0, id.0.0, b, bi);
    }
    assert(post.wf()) by {
        assert forall|b: int| 0 <= b < 256 implies seq_distinct((#[trigger] post.buckets@[b]).nodes@) by {
            if b != bi { assert(post.buckets@[b] == pre.buckets@[b]); }
        }
        assert forall|b: int| 0 <= b < 256 implies (#[trigger] post.buckets@[b]).nodes@.len() <= post.buckets@[b].max_size by {
            if b != bi { assert(post.buckets@[b] == pre.buckets@[b]); }
        }
        assert forall|b: int, j: int| 0 <= b < 256 && 0 <= j < post.buckets@[b].nodes@.len() implies
            is_bucket_of(post.node_id.0.0, (#[trigger] post.buckets@[b].nodes@[j]).id.0.0, b)
            && post.buckets@[b].nodes@[j].id != post.node_id by {
            if b != bi {
                assert(post.buckets@[b] == pre.buckets@[b]);
            } else {
                assert(seq_has(pb.nodes@, qb.nodes@[j].id));
                let k = choose|k: int| 0 <= k < pb.nodes@.len() && (#[trigger] pb.nodes@[k]).id == qb.nodes@[j].id;
                assert(is_bucket_of(pre.node_id.0.0, pre.buckets@[bi].nodes@[k].id.0.0, bi));
            }
        }
    }
    assert forall|q: NodeId| post.lists(q) == (pre.lists(q) && q != id) by {
        assert forall|b: int| 0 <= b < 256 implies
            seq_has((#[trigger] post.buckets@[b]).nodes@, q) == (seq_has(pre.buckets@[b].nodes@, q) && q != id) by {
            if b != bi { assert(post.buckets@[b] == pre.buckets@[b]); }
        }
        if post.lists(q) {
            let b = choose|b: int| 0 <= b < post.buckets@.len() && seq_has((#[trigger] post.buckets@[b]).nodes@, q);
            assert(seq_has(pre.buckets@[b].nodes@, q));
        }
        if pre.lists(q) && q != id {
            let b = choose|b: int| 0 <= b < pre.buckets@.len() && seq_has((#[trigger] pre.buckets@[b]).nodes@, q);
            assert(seq_has(post.buckets@[b].nodes@, q));
        }
    }
}


// ---------------------------------------------------------------------------------------------
// find_closest_nodes: the answer is exactly the min(count, size) closest entries, ascending, each once.
// ---------------------------------------------------------------------------------------------
pub assume_specification<T, P: FnOnce(&T) -> bool> [Option::<T>::filter] (o: Option<T>, p: P) -> (r: Option<T>)
    requires o.is_some() ==> call_requires(p, (&o.unwrap(),)),
    ensures o.is_none() ==> r.is_none(),
            o.is_some() ==> ((call_ensures(p, (&o.unwrap(),), true) && r == o) || (call_ensures(p, (&o.unwrap(),), false) && r.is_none()));

impl Clone for NodeInfo {
    #[verifier::external_body]
    fn clone(&self) -> (r: Self) ensures r == *self { unimplemented!() }
}

pub open spec fn lex_lt(x: Seq<u8>, y: Seq<u8>) -> bool {
    exists|i: int| 0 <= i < 32 && x[i] < y[i] && forall|j: int| 0 <= j < i ==> x[j] == y[j]
}
pub open spec fn lex_le(x: Seq<u8>, y: Seq<u8>) -> bool { x == y || lex_lt(x, y) }

pub open spec fn visited(b: int, t: int, offset: int) -> bool {
    0 <= b < 256 && ((b >= t && b - t < offset) || (b < t && t - b < offset))
}
pub open spec fn is_perm(p: Seq<int>, q: Seq<int>, n: int) -> bool {
    p.len() == n && q.len() == n
    && (forall|i: int| 0 <= i < n ==> 0 <= #[trigger] p[i] < n && q[p[i]] == i)
    && (forall|k: int| 0 <= k < n ==> 0 <= #[trigger] q[k] < n && p[q[k]] == k)
}
pub open spec fn tail_post(c: Seq<(NodeInfo, [u8; 32])>, count: usize, r: Seq<NodeInfo>) -> bool {
    exists|p: Seq<int>, q: Seq<int>| is_perm(p, q, c.len() as int)
        && (forall|i: int, j: int| 0 <= i < j < c.len() ==> lex_le(#[trigger] c[p[i]].1@, #[trigger] c[p[j]].1@))
        && r.len() == (if count <= c.len() { count as int } else { c.len() as int })
        && (forall|i: int| 0 <= i < r.len() ==> #[trigger] r[i] == c[p[i]].0)
}
pub open spec fn cand_ok(t: &KademliaRoutingTable, key: &DhtKey, c: (NodeInfo, [u8; 32]), b: int, j: int) -> bool {
    0 <= b < 256 && 0 <= j < t.buckets@[b].nodes@.len() && c.0 == t.buckets@[b].nodes@[j] && is_xor(c.0.id.0.0, key.0, c.1)
}

pub open spec fn vis_a(b: int, tb: int, off: int) -> bool { visited(b, tb, off) || b == tb + off }
pub open spec fn vis_b(b: int, tb: int, off: int) -> bool { vis_a(b, tb, off) || b == tb - off }

/// candidate `c` is a copy of table entry (b, j) with its distance, and that entry has been
/// collected already: its bucket was fully walked (`done`), or it is entry j < jp of the bucket bp
/// being walked.
pub open spec fn origin(t: &KademliaRoutingTable, key: &DhtKey, c: (NodeInfo, [u8; 32]), tb: int, off: int, stage: int, bp: int, jp: int) -> bool {
    exists|b: int, j: int| #[trigger] cand_ok(t, key, c, b, j)
        && ((stage == 0 && visited(b, tb, off)) || (stage == 1 && vis_a(b, tb, off)) || (stage == 2 && vis_b(b, tb, off)) || (b == bp && j < jp))
}
pub open spec fn all_origin(t: &KademliaRoutingTable, key: &DhtKey, cs: Seq<(NodeInfo, [u8; 32])>, tb: int, off: int, stage: int, bp: int, jp: int) -> bool {
    forall|k: int| 0 <= k < cs.len() ==> #[trigger] origin(t, key, cs[k], tb, off, stage, bp, jp)
}
/// table entry (b, j) has been collected.
pub open spec fn covered(t: &KademliaRoutingTable, cs: Seq<(NodeInfo, [u8; 32])>, b: int, j: int) -> bool {
    exists|k: int| 0 <= k < cs.len() && (#[trigger] cs[k]).0 == t.buckets@[b].nodes@[j]
}
pub open spec fn all_covered(t: &KademliaRoutingTable, cs: Seq<(NodeInfo, [u8; 32])>, tb: int, off: int, stage: int, bp: int, jp: int) -> bool {
    forall|b: int, j: int| 0 <= b < 256 && 0 <= j < t.buckets@[b].nodes@.len()
        && ((stage == 0 && visited(b, tb, off)) || (stage == 1 && vis_a(b, tb, off)) || (stage == 2 && vis_b(b, tb, off)) || (b == bp && j < jp))
        ==> #[trigger] covered(t, cs, b, j)
}
pub open spec fn ids_distinct(cs: Seq<(NodeInfo, [u8; 32])>) -> bool {
    forall|k1: int, k2: int| 0 <= k1 < cs.len() && 0 <= k2 < cs.len() && k1 != k2 ==> (#[trigger] cs[k1]).0.id != (#[trigger] cs[k2]).0.id
}

/// Pushing the copy of entry (bp, jp) extends all three invariants from jp to jp + 1.
pub proof fn lemma_push(t: &KademliaRoutingTable, key: &DhtKey, cs: Seq<(NodeInfo, [u8; 32])>, c: (NodeInfo, [u8; 32]), tb: int, off: int, stage: int, bp: int, jp: int)
    requires
        t.wf(), 0 <= tb < 256, 0 <= off < 256,
        all_origin(t, key, cs, tb, off, stage, bp, jp), all_covered(t, cs, tb, off, stage, bp, jp), ids_distinct(cs),
        cand_ok(t, key, c, bp, jp),
        // the bucket being walked was not fully collected before
        stage == 0 ==> !visited(bp, tb, off), stage == 1 ==> !vis_a(bp, tb, off), stage == 2 ==> false,
    ensures
        all_origin(t, key, cs.push(c), tb, off, stage, bp, jp + 1), all_covered(t, cs.push(c), tb, off, stage, bp, jp + 1), ids_distinct(cs.push(c)),
{
    let ns = cs.push(c);
    lemma_wf_each_peer_once(t);
    assert forall|k: int| 0 <= k < ns.len() implies #[trigger] origin(t, key, ns[k], tb, off, stage, bp, jp + 1) by {
        if k < cs.len() {
            assert(ns[k] == cs[k]);
            assert(origin(t, key, cs[k], tb, off, stage, bp, jp));
            let (b, j) = choose|b: int, j: int| #[trigger] cand_ok(t, key, cs[k], b, j)
                && ((stage == 0 && visited(b, tb, off)) || (stage == 1 && vis_a(b, tb, off)) || (stage == 2 && vis_b(b, tb, off)) || (b == bp && j < jp));
            assert(cand_ok(t, key, ns[k], b, j));
        } else {
            assert(ns[k] == c);
            assert(cand_ok(t, key, ns[k], bp, jp));
        }
    }
    assert forall|b: int, j: int| 0 <= b < 256 && 0 <= j < t.buckets@[b].nodes@.len()
        && ((stage == 0 && visited(b, tb, off)) || (stage == 1 && vis_a(b, tb, off)) || (stage == 2 && vis_b(b, tb, off)) || (b == bp && j < jp + 1))
        implies #[trigger] covered(t, ns, b, j) by {
        if b == bp && j == jp {
            assert(ns[cs.len() as int].0 == t.buckets@[b].nodes@[j]);
        } else {
            assert(covered(t, cs, b, j));
            let k = choose|k: int| 0 <= k < cs.len() && (#[trigger] cs[k]).0 == t.buckets@[b].nodes@[j];
            assert(ns[k].0 == t.buckets@[b].nodes@[j]);
        }
    }
    assert forall|k1: int, k2: int| 0 <= k1 < ns.len() && 0 <= k2 < ns.len() && k1 != k2 implies (#[trigger] ns[k1]).0.id != (#[trigger] ns[k2]).0.id by {
        if k1 < cs.len() && k2 < cs.len() {
            assert(ns[k1] == cs[k1] && ns[k2] == cs[k2]);
        } else {
            let ko = if k1 < cs.len() { k1 } else { k2 };
            assert(ns[ko] == cs[ko]);
            assert(origin(t, key, cs[ko], tb, off, stage, bp, jp));
            let (b, j) = choose|b: int, j: int| #[trigger] cand_ok(t, key, cs[ko], b, j)
                && ((stage == 0 && visited(b, tb, off)) || (stage == 1 && vis_a(b, tb, off)) || (stage == 2 && vis_b(b, tb, off)) || (b == bp && j < jp));
            // (b, j) != (bp, jp), so by each_peer_once the ids differ
            assert(cs[ko].0 == t.buckets@[b].nodes@[j]);
            assert(c.0 == t.buckets@[bp].nodes@[jp]);
            assert(!(b == bp && j == jp));
            if cs[ko].0.id == c.0.id {
                assert(t.buckets@[b].nodes@[j].id == t.buckets@[bp].nodes@[jp].id);
                assert(b == bp && j == jp);
            }
        }
    }
}

/// Moving to the next stage when the walked bucket is complete (jp == its length), or skipped.
pub proof fn lemma_stage(t: &KademliaRoutingTable, key: &DhtKey, cs: Seq<(NodeInfo, [u8; 32])>, tb: int, off: int, stage: int, bp: int, jp: int, stage2: int, off2: int)
    requires
        t.wf(), 0 <= tb < 256,
        all_origin(t, key, cs, tb, off, stage, bp, jp), all_covered(t, cs, tb, off, stage, bp, jp),
        // the target stage covers exactly what the source stage plus the completed bucket covers
        forall|b: int| 0 <= b < 256 ==>
            (((stage == 0 && visited(b, tb, off)) || (stage == 1 && vis_a(b, tb, off)) || (stage == 2 && vis_b(b, tb, off)) || (b == bp && 0 <= bp < 256 && jp >= t.buckets@[bp].nodes@.len()))
             <==> ((stage2 == 0 && visited(b, tb, off2)) || (stage2 == 1 && vis_a(b, tb, off2)) || (stage2 == 2 && vis_b(b, tb, off2)))),
        (0 <= bp < 256) ==> jp == 0 || jp >= t.buckets@[bp].nodes@.len(),
    ensures
        all_origin(t, key, cs, tb, off2, stage2, -1, 0), all_covered(t, cs, tb, off2, stage2, -1, 0),
{
    assert forall|k: int| 0 <= k < cs.len() implies #[trigger] origin(t, key, cs[k], tb, off2, stage2, -1, 0) by {
        assert(origin(t, key, cs[k], tb, off, stage, bp, jp));
        let (b, j) = choose|b: int, j: int| #[trigger] cand_ok(t, key, cs[k], b, j)
            && ((stage == 0 && visited(b, tb, off)) || (stage == 1 && vis_a(b, tb, off)) || (stage == 2 && vis_b(b, tb, off)) || (b == bp && j < jp));
        assert(cand_ok(t, key, cs[k], b, j));
    }
    assert forall|b: int, j: int| 0 <= b < 256 && 0 <= j < t.buckets@[b].nodes@.len()
        && ((stage2 == 0 && visited(b, tb, off2)) || (stage2 == 1 && vis_a(b, tb, off2)) || (stage2 == 2 && vis_b(b, tb, off2)) || (b == -1 && j < 0))
        implies #[trigger] covered(t, cs, b, j) by {
    }
}

/// Starting to walk bucket bp (nothing of it collected yet).
pub proof fn lemma_rebase(t: &KademliaRoutingTable, key: &DhtKey, cs: Seq<(NodeInfo, [u8; 32])>, tb: int, off: int, stage: int, bp: int)
    requires all_origin(t, key, cs, tb, off, stage, -1, 0), all_covered(t, cs, tb, off, stage, -1, 0),
    ensures all_origin(t, key, cs, tb, off, stage, bp, 0), all_covered(t, cs, tb, off, stage, bp, 0),
{
    assert forall|k: int| 0 <= k < cs.len() implies #[trigger] origin(t, key, cs[k], tb, off, stage, bp, 0) by {
        assert(origin(t, key, cs[k], tb, off, stage, -1, 0));
        let (b, j) = choose|b: int, j: int| #[trigger] cand_ok(t, key, cs[k], b, j)
            && ((stage == 0 && visited(b, tb, off)) || (stage == 1 && vis_a(b, tb, off)) || (stage == 2 && vis_b(b, tb, off)) || (b == -1 && j < 0));
        assert(cand_ok(t, key, cs[k], b, j));
    }
}

/// XOR distance of an id to the key, as a 32-byte big-endian number (most significant byte first).
pub open spec fn dist(id: NodeId, key: &DhtKey) -> Seq<u8> {
    Seq::new(32, |i: int| id.0.0[i] ^ key.0[i])
}
/// The property, from the statement: at most `count` entries, each listed in the table, in strictly
/// ascending distance order (hence each peer once), and a listed peer is left out only when the
/// answer is full and every returned peer is strictly closer (so the answer is exactly the
/// min(count, size) closest).
pub open spec fn fcn_post(t: &KademliaRoutingTable, key: &DhtKey, count: usize, r: Seq<NodeInfo>) -> bool {
    &&& r.len() <= count
    &&& forall|i: int| 0 <= i < r.len() ==> t.lists((#[trigger] r[i]).id)
    &&& forall|i: int, j: int| 0 <= i < j < r.len() ==> lex_lt(dist((#[trigger] r[i]).id, key), dist((#[trigger] r[j]).id, key))
    &&& forall|q: NodeId| #[trigger] t.lists(q) && !(exists|i: int| 0 <= i < r.len() && (#[trigger] r[i]).id == q) ==>
            r.len() == count && forall|i: int| 0 <= i < r.len() ==> lex_lt(dist((#[trigger] r[i]).id, key), dist(q, key))
}

proof fn lemma_xor_cancel(x: u8, y: u8, k: u8)
    ensures (x ^ k == y ^ k) ==> x == y
{
    assert((x ^ k == y ^ k) ==> x == y) by (bit_vector);
}
/// Equal XOR distances to the same key mean equal ids.
pub proof fn lemma_dist_injective(a: NodeId, b: NodeId, key: &DhtKey)
    requires dist(a, key) == dist(b, key),
    ensures a == b,
{
    assert forall|i: int| 0 <= i < 32 implies a.0.0[i] == b.0.0[i] by {
        assert(dist(a, key)[i] == dist(b, key)[i]);
        assert(dist(a, key)[i] == a.0.0[i] ^ key.0[i]);
        assert(dist(b, key)[i] == b.0.0[i] ^ key.0[i]);
        lemma_xor_cancel(a.0.0[i], b.0.0[i], key.0[i]);
    }
    assert(a.0.0 =~= b.0.0);
}
pub proof fn lemma_is_xor_dist(id: NodeId, key: &DhtKey, d: [u8; 32])
    requires is_xor(id.0.0, key.0, d),
    ensures d@ == dist(id, key),
{
    assert(d@ =~= dist(id, key));
}

pub proof fn lemma_fcn_final(t: &KademliaRoutingTable, key: &DhtKey, cs: Seq<(NodeInfo, [u8; 32])>, tb: int, count: usize, r: Seq<NodeInfo>)
    requires
        t.wf(), 0 <= tb < 256,
        all_origin(t, key, cs, tb, 256, 0, -1, 0), all_covered(t, cs, tb, 256, 0, -1, 0), ids_distinct(cs),
        tail_post(cs, count, r),
    ensures
        fcn_post(t, key, count, r),
{
    let n = cs.len() as int;
    let (p, q) = choose|p: Seq<int>, q: Seq<int>| is_perm(p, q, n)
        && (forall|i: int, j: int| 0 <= i < j < cs.len() ==> lex_le(#[trigger] cs[p[i]].1@, #[trigger] cs[p[j]].1@))
        && r.len() == (if count <= cs.len() { count as int } else { cs.len() as int })
        && (forall|i: int| 0 <= i < r.len() ==> #[trigger] r[i] == cs[p[i]].0);
    // every candidate is a table entry carrying its distance
    assert forall|k: int| 0 <= k < n implies t.lists((#[trigger] cs[k]).0.id) && cs[k].1@ == dist(cs[k].0.id, key) by {
        assert(origin(t, key, cs[k], tb, 256, 0, -1, 0));
        let (b, j) = choose|b: int, j: int| #[trigger] cand_ok(t, key, cs[k], b, j)
            && ((0 == 0 && visited(b, tb, 256)) || (0 == 1 && vis_a(b, tb, 256)) || (0 == 2 && vis_b(b, tb, 256)) || (b == -1 && j < 0));
        assert(t.buckets@[b].nodes@[j].id == cs[k].0.id);
        assert(seq_has(t.buckets@[b].nodes@, cs[k].0.id));
        lemma_is_xor_dist(cs[k].0.id, key, cs[k].1);
    }
    assert forall|i: int| 0 <= i < r.len() implies t.lists((#[trigger] r[i]).id) by {
        assert(r[i] == cs[p[i]].0);
        assert(0 <= p[i] < n);
    }
    // strictly ascending
    assert forall|i: int, j: int| 0 <= i < j < n implies lex_lt(dist((#[trigger] cs[p[i]]).0.id, key), dist((#[trigger] cs[p[j]]).0.id, key)) by {
        assert(0 <= p[i] < n && 0 <= p[j] < n);
        assert(q[p[i]] == i && q[p[j]] == j);
        assert(p[i] != p[j]);
        assert(lex_le(cs[p[i]].1@, cs[p[j]].1@));
        assert(cs[p[i]].0.id != cs[p[j]].0.id);
        if dist(cs[p[i]].0.id, key) == dist(cs[p[j]].0.id, key) {
            lemma_dist_injective(cs[p[i]].0.id, cs[p[j]].0.id, key);
        }
    }
    assert forall|i: int, j: int| 0 <= i < j < r.len() implies lex_lt(dist((#[trigger] r[i]).id, key), dist((#[trigger] r[j]).id, key)) by {
        assert(r[i] == cs[p[i]].0 && r[j] == cs[p[j]].0);
        assert(lex_lt(dist(cs[p[i]].0.id, key), dist(cs[p[j]].0.id, key)));
    }
    // a listed peer is omitted only when the answer is full, and then everything returned is closer
    assert forall|x: NodeId| #[trigger] t.lists(x) && !(exists|i: int| 0 <= i < r.len() && (#[trigger] r[i]).id == x) implies
        r.len() == count && forall|i: int| 0 <= i < r.len() ==> lex_lt(dist((#[trigger] r[i]).id, key), dist(x, key)) by {
        let b = choose|b: int| 0 <= b < t.buckets@.len() && seq_has((#[trigger] t.buckets@[b]).nodes@, x);
        let j = choose|j: int| 0 <= j < t.buckets@[b].nodes@.len() && (#[trigger] t.buckets@[b].nodes@[j]).id == x;
        assert(visited(b, tb, 256));
        assert(covered(t, cs, b, j));
        let k = choose|k: int| 0 <= k < cs.len() && (#[trigger] cs[k]).0 == t.buckets@[b].nodes@[j];
        let m = q[k];
        assert(0 <= m < n && p[m] == k);
        if m < r.len() {
            assert(r[m] == cs[p[m]].0);
            assert(r[m].id == x);
            assert(false);
        }
        assert(r.len() < n);
        assert(r.len() == count);
        assert forall|i: int| 0 <= i < r.len() implies lex_lt(dist((#[trigger] r[i]).id, key), dist(x, key)) by {
            assert(r[i] == cs[p[i]].0);
            assert(i < m);
            assert(lex_lt(dist(cs[p[i]].0.id, key), dist(cs[p[m]].0.id, key)));
        }
    }
}



// =================================================================================================
// DhtCoreEngine::handle_request (C02 "never exceeds the protocol cap", C05 "find-node counts are capped,
// stored values are at most 512 bytes"): `async`, but every `.await` is the acquisition of a tokio RwLock
// guard (data store, routing table); await erasure (DESIGN 0.2) makes the guarded objects parameters.
// ASSUMED: DataStore::{get, put} behave as a map from key to bytes (text pinned; its metadata bookkeeping is
// not modelled); error message text is dropped; opaque payload types.
// =================================================================================================
pub mod verif_reqh_std {
    use vstd::prelude::*;
    #[verifier::external_body] pub struct Duration { _p: u64 }
    #[verifier::external_body] pub struct ConsistencyLevel { _p: u8 }
    #[verifier::external_body] pub struct NodeCapacity { _p: u8 }
    #[verifier::external_body] pub struct RoutingInfo { _p: u8 }
    /// `format!(..)` of an error message: some String (text is not part of any obligation)
    #[verifier::external_body]
    pub fn verif_error_text() -> String { unimplemented!() }
}
pub use verif_reqh_std::*;
impl Clone for DhtKey {
    #[verifier::external_body]
    fn clone(&self) -> (r: Self) ensures r == *self { unimplemented!() }
}
impl Clone for NodeId {
    #[verifier::external_body]
    fn clone(&self) -> (r: Self) ensures r == *self { unimplemented!() }
}
/// DataStore::{put, get} are VERIFIED in this unit (extracted text) over the real field layout; the metadata map
/// (access counters, timestamps) is bookkeeping that no contract mentions.
#[verifier::external_body] pub struct SystemTime { _p: u64 }
impl SystemTime {
    #[verifier::external_body]
    pub fn now() -> SystemTime { unimplemented!() }
}
pub struct DataMetadata {
    pub _size: usize,
    pub _stored_at: SystemTime,
    pub access_count: u64,
    pub last_accessed: SystemTime,
}
pub struct DataStore {
    pub data: std::collections::HashMap<DhtKey, Vec<u8>>,
    pub metadata: std::collections::HashMap<DhtKey, DataMetadata>,
}
impl PartialEq for DhtKey {
    #[verifier::external_body]
    fn eq(&self, other: &DhtKey) -> (r: bool) ensures r == (*self == *other) { unimplemented!() }
}
impl Eq for DhtKey {}
impl std::hash::Hash for DhtKey {
    #[verifier::external_body]
    fn hash<H: std::hash::Hasher>(&self, state: &mut H) { unimplemented!() }
}
pub mod verif_reqh_ax {
    use vstd::prelude::*;
    use super::DhtKey;
    #[verifier::external_body]
    pub broadcast proof fn axiom_dhtkey_key_model()
        ensures #[trigger] vstd::std_specs::hash::obeys_key_model::<DhtKey>(),
    {}
}
broadcast use verif_reqh_ax::axiom_dhtkey_key_model;
impl DataStore {
    /// key -> stored bytes
    pub open spec fn view(&self) -> Map<DhtKey, Seq<u8>> {
        Map::new(self.data@.dom(), |k: DhtKey| self.data@[k]@)
    }
    /// no access counter is about to wrap (u64: 2^64 reads of one key)
    pub open spec fn counters_below_max(&self) -> bool {
        forall|k: DhtKey| self.metadata@.contains_key(k) ==> (#[trigger] self.metadata@[k]).access_count < u64::MAX
    }
}
/// `map.get_mut(k)` on the metadata map (std)
#[verifier::external_body]
pub fn verif_meta_get_mut<'a>(m: &'a mut std::collections::HashMap<DhtKey, DataMetadata>, k: &DhtKey) -> (r: Option<&'a mut DataMetadata>)
    ensures
        r.is_some() == old(m)@.contains_key(*k),
        r matches Some(x) ==> *x == old(m)@[*k],
{ unimplemented!() }
/// `opt.cloned()` on Option<&Vec<u8>> (std): a copy of the bytes
#[verifier::external_body]
pub fn verif_cloned(o: Option<&Vec<u8>>) -> (r: Option<Vec<u8>>)
    ensures r.is_some() == o.is_some(), r matches Some(v) ==> v@ == o.unwrap()@,
{ unimplemented!() }
pub struct DhtRequestWrapper { pub id: String, pub message: DhtMessage }
pub struct DhtResponseWrapper { pub id: String, pub response: DhtResponse }

// ---------------------------------------------------------------------------------------------
// DhtCoreEngine::store (await-erased): the engine's own store path
// ---------------------------------------------------------------------------------------------
pub struct StoreReceipt {
    pub key: DhtKey,
    pub stored_at: Vec<NodeId>,
    pub timestamp: SystemTime,
    pub success: bool,
}
/// the load balancer behind its read guard: select_least_loaded returns some node ids (opaque)
#[verifier::external_body] pub struct LoadBalancer { _p: u8 }
impl LoadBalancer {
    #[verifier::external_body]
    pub fn select_least_loaded(&self, candidates: &[NodeInfo], count: usize) -> Vec<NodeId> { unimplemented!() }
}
impl DhtCoreEngine {
    /// trust-aware choice of storage targets (reads the routing table; touches neither the store nor the table)
    #[verifier::external_body]
    pub fn select_storage_peers(&self, key: &DhtKey, count: usize) -> Vec<NodeInfo> { unimplemented!() }
}
/// `ids.contains(&id)` on Vec<NodeId> (std: membership by ==)
#[verifier::external_body]
pub fn verif_contains_id(v: &Vec<NodeId>, x: &NodeId) -> (r: bool)
    ensures r == v@.contains(*x),
{ unimplemented!() }

// ---------------------------------------------------------------------------------------------
// DhtCoreEngine::select_query_peers / select_storage_peers (await-erased): the choice with trust selection off
// ---------------------------------------------------------------------------------------------
/// dht::trust_peer_selector::TrustAwarePeerSelector<EigenTrustEngine>: opaque here (its own contracts are in unit
/// `select`); EigenTrustEngine opaque
#[verifier::external_body] pub struct EigenTrustEngine { _p: u8 }
#[verifier::external_body]
#[verifier::reject_recursive_types(T)]
pub struct TrustAwarePeerSelector<T> { _p: core::marker::PhantomData<T> }
impl<T> TrustAwarePeerSelector<T> {
    #[verifier::external_body]
    pub fn select_peers(&self, key: &DhtKey, candidates: &[NodeInfo], count: usize) -> Vec<NodeInfo> { unimplemented!() }
    #[verifier::external_body]
    pub fn select_storage_peers(&self, key: &DhtKey, candidates: &[NodeInfo], count: usize) -> Vec<NodeInfo> { unimplemented!() }
}
/// `v.into_iter().take(n).collect()`: the first min(n, len) elements in order
#[verifier::external_body]
pub fn verif_take_prefix(v: Vec<NodeInfo>, n: usize) -> (r: Vec<NodeInfo>)
    ensures r@ == v@.take(if n <= v@.len() { n as int } else { v@.len() as int }),
{ unimplemented!() }
/// the first n of the m >= n closest entries are the n closest entries
pub proof fn lemma_prefix_of_closest(t: &KademliaRoutingTable, key: &DhtKey, m: usize, n: usize, c: Seq<NodeInfo>)
    requires fcn_post(t, key, m, c), n <= m,
    ensures fcn_post(t, key, n, c.take(if n <= c.len() { n as int } else { c.len() as int })),
{
    let k = if n <= c.len() { n as int } else { c.len() as int };
    let r = c.take(k);
    assert forall|q: NodeId| #[trigger] t.lists(q) && !(exists|i: int| 0 <= i < r.len() && (#[trigger] r[i]).id == q) implies
            r.len() == n && forall|i: int| 0 <= i < r.len() ==> lex_lt(dist((#[trigger] r[i]).id, key), dist(q, key)) by {
        if exists|j: int| 0 <= j < c.len() && (#[trigger] c[j]).id == q {
            let j = choose|j: int| 0 <= j < c.len() && (#[trigger] c[j]).id == q;
            if j < k { assert(r[j].id == q); assert(false); }
            assert(k == n);
            assert forall|i: int| 0 <= i < r.len() implies lex_lt(dist((#[trigger] r[i]).id, key), dist(q, key)) by {
                assert(r[i] == c[i]);
                assert(lex_lt(dist(c[i].id, key), dist(c[j].id, key)));
            }
        } else {
            assert(c.len() == m);
            assert forall|i: int| 0 <= i < r.len() implies lex_lt(dist((#[trigger] r[i]).id, key), dist(q, key)) by {
                assert(r[i] == c[i]);
            }
        }
    }
    assert forall|i: int| 0 <= i < r.len() implies t.lists((#[trigger] r[i]).id) by { assert(r[i] == c[i]); }
    assert forall|i: int, j: int| 0 <= i < j < r.len() implies lex_lt(dist((#[trigger] r[i]).id, key), dist((#[trigger] r[j]).id, key)) by { assert(r[i] == c[i] && r[j] == c[j]); }
}
