//! @module placement::dht_records::verif_proofs
//! C05 record size guards: native failing-input search (see network_proofs.rs for the role of the
//! search; the deciding engine is the Verus unit `inbound`).
#![allow(unused_imports)]
use super::*;

#[cfg(test)]
mod search {
    use super::*;

    #[test]
    fn verif_search_c05_records() {
        // every length around the 512-byte limit, and some far above it (up to 128 KiB)
        for len in (0usize..=520).chain([1000, 4096, 65_536, 131_072]) {
            let bytes: Vec<u8> = (0..len).map(|i| (i * 31 + 7) as u8).collect();
            let r = std::panic::catch_unwind(|| DhtRecord::deserialize(&bytes).is_ok());
            match r {
                Err(_) => panic!("VERIF-SEARCH-HIT C05/record/returns_normally len={}", len),
                Ok(true) if len > 512 => panic!("VERIF-SEARCH-HIT C05/record/oversized_record_is_refused len={}", len),
                Ok(_) => {}
            }
            // a record above the limit must be refused whatever its content: also try all-zero bytes
            if len > 512 && DhtRecord::deserialize(&vec![0u8; len]).is_ok() {
                panic!("VERIF-SEARCH-HIT C05/record/oversized_record_is_refused len={} (zero bytes)", len);
            }
        }
        // serialise: Ok(bytes) never longer than 512, for data pointers of growing size
        // (a data pointer with n ticket ids encodes to about 33*n + 70 bytes)
        for n in 0usize..=40 {
            let rec = DhtRecord {
                key: SerializableHash([7u8; 32]),
                data: DhtRecordData::DataPointer(DataPointer { cid: SerializableHash([1u8; 32]), placement_ticket_ids: vec![SerializableHash([2u8; 32]); n], ts: 0 }),
                ttl: 1,
            };
            if let Ok(b) = rec.serialize() {
                if b.len() > 512 {
                    panic!("VERIF-SEARCH-HIT C05/record/serialized_record_is_at_most_512_bytes len={}", b.len());
                }
            }
        }
    }
}
