//! @module dht_network_manager::verif_proofs
//! C05 stored-value size guard: native failing-input search (deciding engine: Verus unit `inbound`).
#![allow(unused_imports)]
use super::*;

#[cfg(test)]
mod search {
    use super::*;

    #[test]
    fn verif_search_c05_put_value_size() {
        for len in (0usize..=1100).chain([4096, 65_535, 65_536, 131_072, usize::MAX / 2, usize::MAX]) {
            let ok = DhtNetworkManager::validate_put_value_size(len, "search").is_ok();
            if ok != (len <= 512) {
                panic!("VERIF-SEARCH-HIT C05/put/stored_values_are_at_most_512_bytes len={} accepted={}", len, ok);
            }
        }
    }
}

// ---------------------------------------------------------------------------------------------
// NATIVE FAILING-INPUT SEARCH for C04 (DHT reply matching): a real DhtNetworkManager on a local transport
// bound to port 0 (offline), pending entries inserted by hand, then random replies -- unknown ids, wrong
// connection, forged `source` field, missing result, duplicates -- checked against a model of the statement:
// a pending request completes only with a reply that carries its id, arrives on the connection of a peer it
// was sent to, and carries a result; at most once; nothing else is affected.
// ---------------------------------------------------------------------------------------------
#[cfg(test)]
mod search_c04 {
    use super::*;
    use crate::transport_handle::{TransportConfig, TransportHandle};

    struct Rng(u64);
    impl Rng {
        fn next(&mut self) -> u64 {
            self.0 ^= self.0 << 13;
            self.0 ^= self.0 >> 7;
            self.0 ^= self.0 << 17;
            self.0
        }
        fn below(&mut self, n: u64) -> u64 {
            self.next() % n
        }
    }

    async fn make_manager(name: &str) -> DhtNetworkManager {
        let node_config = NodeConfig::builder().peer_id(name.to_string()).listen_port(0).ipv6(false).build().expect("node config");
        let transport = Arc::new(
            TransportHandle::new(TransportConfig {
                peer_id: name.to_string(),
                listen_addr: node_config.listen_addr,
                enable_ipv6: node_config.enable_ipv6,
                connection_timeout: node_config.connection_timeout,
                stale_peer_threshold: node_config.stale_peer_threshold,
                max_connections: node_config.max_connections,
                production_config: node_config.production_config.clone(),
                event_channel_capacity: crate::DEFAULT_EVENT_CHANNEL_CAPACITY,
            })
            .await
            .expect("transport"),
        );
        let config = DhtNetworkConfig {
            local_peer_id: name.to_string(),
            dht_config: DHTConfig::default(),
            node_config,
            request_timeout: Duration::from_secs(5),
            max_concurrent_operations: 10,
            replication_factor: 3,
            enable_security: false,
        };
        DhtNetworkManager::new(transport, None, config).await.expect("manager")
    }

    #[test]
    fn verif_search_c04() {
        let seed: u64 = std::env::var("VERIF_SEED").ok().and_then(|s| s.parse().ok()).unwrap_or(0);
        let rounds: usize = std::env::var("VERIF_SEARCH_ROUNDS").ok().and_then(|s| s.parse().ok()).unwrap_or(300);
        let rt = tokio::runtime::Builder::new_multi_thread().worker_threads(2).enable_all().build().expect("runtime");
        rt.block_on(async {
            let mgr = make_manager("verif_search_c04_node").await;
            let mut r = Rng(0x9e37_79b9_7f4a_7c15 ^ seed.wrapping_mul(0x1000_0000_01b3) | 1);
            let peers = ["aa11".repeat(16), "bb22".repeat(16), "cc33".repeat(16)];
            for round in 0..rounds {
                mgr.active_operations.lock().unwrap().clear();
                // three pending requests: each sent to one peer, optionally with a second contacted node
                let ids = ["req-A", "req-B", "req-C"];
                let mut rx = Vec::new();
                let mut sent_to: Vec<Vec<String>> = Vec::new();
                for id in ids {
                    let (tx, rxi) = oneshot::channel();
                    let main = peers[r.below(2) as usize].clone();
                    let mut contacted = vec![main.clone()];
                    if r.below(3) == 0 {
                        contacted.push(peers[2].clone());
                    }
                    mgr.active_operations.lock().unwrap().insert(
                        id.to_string(),
                        DhtOperationContext { operation: DhtNetworkOperation::Ping, peer_id: main, started_at: Instant::now(), timeout: Duration::from_secs(5), contacted_nodes: contacted.clone(), response_tx: Some(tx) },
                    );
                    rx.push(rxi);
                    sent_to.push(contacted);
                }
                let mut done = [false; 3];
                let mut hist = String::new();
                for _ in 0..(1 + r.below(8)) {
                    let which = r.below(4) as usize; // 3 = unknown id
                    let id = if which < 3 { ids[which] } else { "req-unknown" };
                    let sender = peers[r.below(3) as usize].clone();
                    let claimed = peers[r.below(3) as usize].clone();
                    let with_result = r.below(5) != 0;
                    let msg = DhtNetworkMessage {
                        message_id: id.to_string(), source: claimed.clone(), target: None, message_type: DhtMessageType::Response, payload: DhtNetworkOperation::Ping,
                        result: if with_result { Some(DhtNetworkResult::PongReceived { responder: sender.clone(), latency: Duration::from_millis(1) }) } else { None },
                        timestamp: 0, ttl: 10, hop_count: 0,
                    };
                    hist.push_str(&format!("reply(id={} connection={} claimed_source={} result={}) ", id, &sender[..4], &claimed[..4], with_result));
                    mgr.handle_dht_response(&msg, &sender).await.expect("handler returns");
                    for k in 0..3 {
                        let expect_now = which == k && !done[k] && with_result && sent_to[k].contains(&sender);
                        let got = rx[k].try_recv().is_ok();
                        if got != expect_now {
                            panic!("VERIF-SEARCH-HIT C04/dht/completed_only_by_a_reply_with_its_id_from_the_contacted_peer round={} request={} sent_to={:?} delivered={} expected={} history=[{}]", round, ids[k], sent_to[k].iter().map(|p| &p[..4]).collect::<Vec<_>>(), got, expect_now, hist);
                        }
                        if got {
                            done[k] = true;
                        }
                    }
                    if mgr.active_operations.lock().unwrap().len() != 3 {
                        panic!("VERIF-SEARCH-HIT C04/dht/a_reply_never_affects_another_pending_request round={} pending table size changed history=[{}]", round, hist);
                    }
                }
            }
        });
    }

    /// C02 (local closest-node answer = what replies to remote find-node / find-value requests are built from):
    /// over the routing table plus the connected peers, each peer is named once -- under a single identifier --,
    /// ascending by XOR distance, at most `count`.
    #[test]
    fn verif_search_c02_local() {
        let seed: u64 = std::env::var("VERIF_SEED").ok().and_then(|s| s.parse().ok()).unwrap_or(0);
        let rt = tokio::runtime::Builder::new_multi_thread().worker_threads(2).enable_all().build().expect("runtime");
        rt.block_on(async {
            let mgr = make_manager("verif_search_c02_node").await;
            let mut r = Rng(0x2545_f491_4f6c_dd1d ^ seed.wrapping_mul(0x1000_0000_01b3) | 1);
            // peers p0..p11: some only in the routing table, some only connected, some both
            let mut table_keys: Vec<[u8; 32]> = Vec::new();
            let mut connected: Vec<String> = Vec::new();
            for i in 0..12u8 {
                let pid = format!("{:02x}", i).repeat(32);
                let key = crate::dht::derive_dht_key_from_peer_id(&pid);
                let place = r.below(4); // 0 table only, 1 connected only, 2 both, 3 both but the transport knows no address of the connected peer
                if place != 1 {
                    let mut dht = mgr.dht.write().await;
                    let node = crate::dht::NodeInfo { id: DhtNodeId::from_bytes(key), address: format!("10.{}.0.1:9000", i + 1), last_seen: std::time::SystemTime::now(), capacity: crate::dht::NodeCapacity::default() };
                    if dht.add_node(node).await.is_ok() { table_keys.push(key); }
                }
                if place != 0 {
                    let addr: Multiaddr = format!("10.{}.0.1:9000", i + 1).parse().expect("addr");
                    mgr.dht_peers.write().await.insert(pid.clone(), DhtPeerInfo { peer_id: pid.clone(), dht_key: key, addresses: if place == 3 { Vec::new() } else { vec![addr] }, last_seen: Instant::now(), is_connected: true, avg_latency: Duration::from_millis(5), reliability_score: 1.0 });
                    connected.push(pid);
                }
            }
            let mut all_keys: Vec<[u8; 32]> = table_keys.clone();
            for p in &connected { let k = crate::dht::derive_dht_key_from_peer_id(p); if !all_keys.contains(&k) { all_keys.push(k); } }
            for q in 0..8usize {
                let mut target = [0u8; 32];
                for b in target.iter_mut() { *b = r.below(256) as u8; }
                if q == 0 { target = [0u8; 32]; }
                for count in [1usize, 3, 8, 20, 64] {
                    let got = mgr.find_closest_nodes_local(&target, count).await;
                    let keys: Vec<[u8; 32]> = got.iter().map(|n| match &n.cached_dht_key { Some(k) => *k.as_bytes(), None => crate::dht::derive_dht_key_from_peer_id(&n.peer_id) }).collect();
                    for (i, a) in keys.iter().enumerate() {
                        if let Some(j) = keys.iter().skip(i + 1).position(|b| a == b) {
                            panic!("VERIF-SEARCH-HIT C02/local/each_peer_is_named_once_under_a_single_identifier count={} the peer with DHT key {} is named twice: as {:?} and as {:?} (routing table entry + connected peer)", count, hex::encode(&a[..6]), got[i].peer_id, got[i + 1 + j].peer_id);
                        }
                    }
                    let mut sorted = all_keys.clone();
                    sorted.sort_by_key(|k| { let mut d = [0u8; 32]; for x in 0..32 { d[x] = k[x] ^ target[x]; } d });
                    sorted.truncate(count);
                    if keys != sorted {
                        let missing: Vec<String> = sorted.iter().filter(|k| !keys.contains(k)).map(|k| hex::encode(&k[..4])).collect();
                        let extra: Vec<String> = keys.iter().filter(|k| !sorted.contains(k)).map(|k| hex::encode(&k[..4])).collect();
                        panic!("VERIF-SEARCH-HIT C02/local/answer_is_the_min_count_size_closest_known_peers_ascending target={} count={} known peers={} (routing table {} + connected {}, some in both, some connected without a known address); the answer has {} entries; missing closest peers (key prefix): {:?}; listed instead: {:?}", hex::encode(&target[..4]), count, all_keys.len(), table_keys.len(), connected.len(), keys.len(), missing, extra);
                    }
                }
            }
        });
    }

}
