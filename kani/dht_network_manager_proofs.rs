//! @module dht_network_manager::verif_proofs
//! C05 stored-value size guard: native failing-input search (deciding engine: Verus unit `inbound`).
#![allow(unused_imports)]
use super::*;

#[cfg(test)]
mod search {
    use super::*;

    #[test]
    fn verif_search_c05_put_value_size() {
        for len in (0usize..=1100).chain([4096, 65_535, 65_536, 131_072, usize::MAX / 2, usize::MAX]) {
            let ok = DhtNetworkManager::validate_put_value_size(len, "search").is_ok();
            if ok != (len <= 512) {
                panic!("VERIF-SEARCH-HIT C05/put/stored_values_are_at_most_512_bytes len={} accepted={}", len, ok);
            }
        }
    }
}
