//! @module rate_limit::verif_proofs
//! Kani contracts for src/rate_limit.rs (C14). `Bucket::try_consume` is loop-free, so the harness
//! over the full f64 / u32 / clock domain is a complete proof of its per-call contract; the
//! history-level bounds of the property follow by induction over that contract (DESIGN section 5 C14).
use super::*;
use std::mem::ManuallyDrop;

static mut NOW: Option<Instant> = None;
fn stub_instant_now() -> Instant {
    unsafe { NOW.unwrap() }
}
fn base_instant() -> Instant {
    unsafe { std::mem::transmute::<(i64, u32), Instant>((1_000_000, 0)) }
}
fn any_duration(max_secs: u64) -> Duration {
    let s: u64 = kani::any();
    let n: u32 = kani::any();
    kani::assume(s <= max_secs && n < 1_000_000_000);
    Duration::new(s, n)
}

/// Representation invariant of a bucket under configuration `cfg` (established by Bucket::new with
/// `burst` tokens, re-established by every try_consume: obligation C14/bucket/invariant_preserved).
fn bucket_inv(b: &Bucket, cfg: &EngineConfig) -> bool {
    b.tokens >= 0.0 && b.tokens <= cfg.burst_size as f64 && b.requests_in_window <= cfg.max_requests
}

fn any_cfg() -> EngineConfig {
    let w = any_duration(1u64 << 32);
    kani::assume(w > Duration::ZERO);
    EngineConfig { window: w, max_requests: kani::any(), burst_size: kani::any() }
}

struct Pre {
    cfg: EngineConfig,
    b: Bucket,
    now: Instant,
    win_start: Instant,
    elapsed: Duration,
    rolled: bool,
}

/// Most general pre-state: any configuration with a positive window, any bucket satisfying the
/// representation invariant whose timestamps are not ahead of the clock.
fn any_pre() -> Pre {
    let cfg = any_cfg();
    let base = base_instant();
    let d_now = any_duration(1u64 << 40);
    let d_upd = any_duration(1u64 << 40);
    let d_win = any_duration(1u64 << 40);
    kani::assume(d_upd <= d_now && d_win <= d_now);
    let now = base + d_now;
    unsafe {
        NOW = Some(now);
    }
    let b = Bucket {
        tokens: kani::any(),
        last_update: base + d_upd,
        requests_in_window: kani::any(),
        window_start: base + d_win,
    };
    kani::assume(bucket_inv(&b, &cfg));
    let rolled = (d_now - d_win) > cfg.window;
    Pre { cfg, b, now, win_start: base + d_win, elapsed: d_now - d_upd, rolled }
}

// @verif property=C14 class=complete fns=Bucket::try_consume uses=any_pre tier=quick,thorough panic=violation replay=none
#[kani::proof]
#[kani::stub(std::time::Instant::now, stub_instant_now)]
#[kani::unwind(4)]
fn c14_try_consume_contract() {
    let mut p = any_pre();
    let (tok0, req0) = (p.b.tokens, p.b.requests_in_window);
    let req_star = if p.rolled { 0 } else { req0 };

    let granted = p.b.try_consume(&p.cfg);

    kani::cover!(granted, "C14/bucket/cover_granted");
    kani::cover!(!granted && tok0 >= 1.0, "C14/bucket/cover_denied_by_window_maximum");
    kani::cover!(!granted && req_star < p.cfg.max_requests, "C14/bucket/cover_denied_by_tokens");
    kani::cover!(p.rolled, "C14/bucket/cover_window_rolled");

    assert!(bucket_inv(&p.b, &p.cfg), "C14/bucket/invariant_preserved");
    if granted {
        // never exceed the per-window maximum: an admission is counted, and only below max
        assert!(req_star < p.cfg.max_requests, "C14/bucket/granted_only_below_window_maximum");
        assert!(p.b.requests_in_window == req_star + 1, "C14/bucket/admission_is_counted_in_window");
        // costs one whole token of the burst allowance
        assert!(p.b.tokens <= p.cfg.burst_size as f64 - 1.0, "C14/bucket/admission_consumes_a_token");
    } else {
        // a denied attempt never increases any budget
        assert!(p.b.requests_in_window == req_star, "C14/bucket/denial_leaves_window_count");
    }
    if p.elapsed == Duration::ZERO {
        // no time passed: nothing is refilled; a grant needs a whole token and takes exactly one
        if granted {
            assert!(tok0 >= 1.0 && p.b.tokens == tok0 - 1.0, "C14/bucket/burst_grant_takes_exactly_one_token");
        } else {
            assert!(p.b.tokens == tok0, "C14/bucket/denial_without_elapsed_time_changes_no_tokens");
        }
    }
    // timestamps move forward only
    assert!(p.b.last_update == p.now, "C14/bucket/last_update_is_now");
    assert!(p.b.window_start == if p.rolled { p.now } else { p.win_start }, "C14/bucket/window_rolls_only_after_window_elapsed");
}

// @verif property=C14 class=complete fns=Bucket::try_consume uses=any_pre tier=parked panic=violation replay=none
#[kani::proof]
#[kani::stub(std::time::Instant::now, stub_instant_now)]
#[kani::unwind(4)]
fn c14_try_consume_refill_bound() {
    let mut p = any_pre();
    let tok0 = p.b.tokens;
    let granted = p.b.try_consume(&p.cfg);
    // tokens after the call never exceed tokens before + refill earned (with relative rounding slack),
    // minus the grant: "never exceed burst allowance plus refill earned so far"
    let rate = p.cfg.max_requests as f64 / p.cfg.window.as_secs_f64();
    let upper = (tok0 + p.elapsed.as_secs_f64() * rate) * (1.0 + 1e-9) + 1e-9;
    if granted {
        assert!(p.b.tokens <= upper - 1.0 + 1e-9, "C14/bucket/tokens_bounded_by_burst_plus_refill_minus_grant");
    } else {
        assert!(p.b.tokens <= upper, "C14/bucket/tokens_bounded_by_burst_plus_refill");
    }
}

// @verif property=C14 class=complete fns=Bucket::new tier=quick,thorough panic=violation replay=none
#[kani::proof]
#[kani::stub(std::time::Instant::now, stub_instant_now)]
#[kani::unwind(4)]
fn c14_bucket_new_contract() {
    let now = base_instant() + any_duration(1u64 << 40);
    unsafe {
        NOW = Some(now);
    }
    let burst: u32 = kani::any();
    let b = Bucket::new(burst as f64);
    assert!(b.tokens == burst as f64 && b.requests_in_window == 0, "C14/bucket/new_starts_with_burst_tokens_and_empty_window");
    assert!(b.last_update == now && b.window_start == now, "C14/bucket/new_timestamps_are_now");
}

fn v6(o: [u8; 16]) -> Ipv6Addr {
    Ipv6Addr::from(o)
}

// @verif property=C14 class=complete fns=extract_ipv6_subnet_64,extract_ipv6_subnet_48,extract_ipv6_subnet_32,extract_ipv4_subnet_24,extract_ipv4_subnet_16,extract_ipv4_subnet_8 tier=quick,thorough panic=violation
#[kani::proof]
#[kani::unwind(18)]
fn c14_prefix_extraction() {
    let o: [u8; 16] = kani::any();
    let a = v6(o);
    let i: usize = kani::any();
    kani::assume(i < 16);
    let s64 = extract_ipv6_subnet_64(&a).octets();
    let s48 = extract_ipv6_subnet_48(&a).octets();
    let s32 = extract_ipv6_subnet_32(&a).octets();
    assert!(s64[i] == if i < 8 { o[i] } else { 0 }, "C14/prefix/v6_64_keeps_first_64_bits_only");
    assert!(s48[i] == if i < 6 { o[i] } else { 0 }, "C14/prefix/v6_48_keeps_first_48_bits_only");
    assert!(s32[i] == if i < 4 { o[i] } else { 0 }, "C14/prefix/v6_32_keeps_first_32_bits_only");
    let q: [u8; 4] = kani::any();
    let b = Ipv4Addr::new(q[0], q[1], q[2], q[3]);
    assert!(extract_ipv4_subnet_24(&b).octets() == [q[0], q[1], q[2], 0], "C14/prefix/v4_24_keeps_first_24_bits_only");
    assert!(extract_ipv4_subnet_16(&b).octets() == [q[0], q[1], 0, 0], "C14/prefix/v4_16_keeps_first_16_bits_only");
    assert!(extract_ipv4_subnet_8(&b).octets() == [q[0], 0, 0, 0], "C14/prefix/v4_8_keeps_first_8_bits_only");
}

// ---------------------------------------------------------------------------------------------
// NATIVE FAILING-INPUT SEARCH for C14 (attaches a concrete arrival pattern to a failed obligation of the
// Verus unit `ratelim` / decides when it cannot): real clock, one-hour windows (refill over the few
// milliseconds a run takes is far below one token), bursts of attempts on fresh and on shared keys.
// ---------------------------------------------------------------------------------------------
#[cfg(test)]
mod search {
    use super::*;

    #[test]
    fn verif_search_c14() {
        // keyed engine: (max per window, burst)
        for (max, burst) in [(1u32, 1u32), (2, 5), (5, 2), (3, 3), (20, 10), (2, 100), (1, 7)] {
            let cfg = EngineConfig { window: Duration::from_secs(3600), max_requests: max, burst_size: burst };
            let e: Engine<u32> = Engine::new(cfg);
            let allowed = std::cmp::min(max, burst) as usize;
            for key in [7u32, 8, 9] {
                let admitted = (0..(max + burst + 3)).filter(|_| e.try_consume_key(&key)).count();
                if admitted > allowed {
                    panic!("VERIF-SEARCH-HIT C14/engine/a_key_never_exceeds_its_burst_allowance_or_the_window_maximum key={} max_requests={} burst={} admitted={} in one burst of attempts on a fresh key", key, max, burst, admitted);
                }
                if admitted < allowed {
                    panic!("VERIF-SEARCH-HIT C14/engine/different_keys_never_consume_each_others_budget key={} max_requests={} burst={} admitted={} expected={} (an earlier key's traffic reduced this key's budget)", key, max, burst, admitted, allowed);
                }
            }
            // a denied attempt never increases any budget: keep hammering an exhausted key
            std::thread::sleep(Duration::from_millis(30));
            let later = (0..50).filter(|_| e.try_consume_key(&7u32)).count();
            if later > 0 {
                panic!("VERIF-SEARCH-HIT C14/bucket/denial_leaves_window_count key=7 max_requests={} burst={} admitted_after_exhaustion={}", max, burst, later);
            }
        }
        // join limiter: per-prefix caps and the global burst
        for (g_max, g_burst) in [(100u32, 10u32), (3, 10), (50, 4)] {
            let cfg = JoinRateLimiterConfig { max_joins_per_64_per_hour: 1, max_joins_per_48_per_hour: 5, max_joins_per_24_per_hour: 3, max_global_joins_per_minute: g_max, global_burst_size: g_burst };
            let l = JoinRateLimiter::new(cfg);
            let mut ok = 0u32;
            for i in 0..40u16 {
                // distinct /48s so that only the global limit binds
                let ip = IpAddr::V6(Ipv6Addr::new(0x2001, 0xdb8, i, 1, 0, 0, 0, 1));
                if l.check_join_allowed(&ip).is_ok() {
                    ok += 1;
                }
            }
            if ok > std::cmp::min(g_max, g_burst) {
                panic!("VERIF-SEARCH-HIT C14/join/global_admissions_bounded_by_burst_and_window_maximum max_per_minute={} burst={} admitted={}", g_max, g_burst, ok);
            }
        }
        let l = JoinRateLimiter::new(JoinRateLimiterConfig { max_global_joins_per_minute: 10_000, global_burst_size: 10_000, ..JoinRateLimiterConfig::default() });
        let same64 = (0..6u16).filter(|i| l.check_join_allowed(&IpAddr::V6(Ipv6Addr::new(0x2001, 0xdb8, 1, 1, 0, 0, 0, *i))).is_ok()).count();
        let same48 = (0..12u16).filter(|i| l.check_join_allowed(&IpAddr::V6(Ipv6Addr::new(0x2001, 0xdb8, 2, 10 + *i, 0, 0, 0, 1))).is_ok()).count();
        let same24 = (0..9u8).filter(|i| l.check_join_allowed(&IpAddr::V4(Ipv4Addr::new(10, 1, 1, *i))).is_ok()).count();
        if same64 > 1 || same48 > 5 || same24 > 3 {
            panic!("VERIF-SEARCH-HIT C14/join/per_prefix_admissions_bounded admitted per /64={} (max 1), per /48={} (max 5), per /24={} (max 3)", same64, same48, same24);
        }
    }
}

#[cfg(test)]
include!("/verif/.build/replay/rate_limit.rs");
