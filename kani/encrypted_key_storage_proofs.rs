// Proof / search module for src/encrypted_key_storage.rs (C18), included under cfg(kani) only.
//
// The deciding engine for C18 is the Verus unit `keystore` (await-erased retrieve_master_seed /
// store_master_seed / change_password). This file holds the NATIVE FAILING-INPUT SEARCH that pairs with
// it: a real EncryptedKeyStorageManager on a temporary directory, histories of store / retrieve /
// change-password with right and wrong passwords. A hit is a panic line starting with VERIF-SEARCH-HIT;
// no hit proves nothing.
#![allow(dead_code, unused_imports)]
use super::*;

#[cfg(test)]
mod verif_search {
    use super::*;

    struct Rng(u64);
    impl Rng {
        fn next(&mut self) -> u64 {
            self.0 ^= self.0 << 13;
            self.0 ^= self.0 >> 7;
            self.0 ^= self.0 << 17;
            self.0
        }
        fn below(&mut self, n: u64) -> u64 {
            self.next() % n
        }
    }

    fn pw(i: usize) -> SecureString {
        const P: [&str; 4] = ["G00d-Pa55w0rd_#1", "0ther-Pa55w0rd_#2", "Th1rd-Pa55w0rd_#3", "F0urth-Pa55w0rd_#4"];
        SecureString::from_plain_str(P[i % 4]).expect("password")
    }

    /// Histories of store / retrieve / change_password / clear_cache with the current and with other passwords:
    /// a retrieval succeeds only under the current password and then returns exactly the seed stored last.
    #[test]
    fn verif_search_c18() {
        let seed: u64 = std::env::var("VERIF_SEED").ok().and_then(|s| s.parse().ok()).unwrap_or(0);
        let rounds: usize = std::env::var("VERIF_SEARCH_ROUNDS").ok().and_then(|s| s.parse().ok()).unwrap_or(400);
        let rounds = (rounds / 100).max(3);
        let mut r = Rng(0x9e37_79b9_7f4a_7c15 ^ seed.wrapping_mul(0x1000_0000_01b3) | 1);
        let rt = tokio::runtime::Builder::new_current_thread().enable_all().build().expect("runtime");
        rt.block_on(async {
            // directed history: a store re-initialised under another password no longer opens with the previous one
            {
                let dir = tempfile::TempDir::new().expect("tempdir");
                let path = dir.path().join("store.enc");
                let m = EncryptedKeyStorageManager::new(&path, SecurityLevel::Fast).expect("manager");
                m.initialize(&pw(0)).await.expect("initialize");
                let s = MasterSeed::generate().expect("seed");
                m.store_master_seed("seed0", &s, &pw(0)).await.expect("store");
                if m.initialize(&pw(1)).await.is_ok() && m.retrieve_master_seed("seed0", &pw(0)).await.is_ok() {
                    panic!("VERIF-SEARCH-HIT C18/retrieve/a_seed_is_returned_only_to_a_caller_presenting_the_current_password history=[initialize(pw0); store(seed0, pw0) -> Ok; initialize(pw1) -> Ok; retrieve(seed0, pw0) -> Ok]");
                }
            }
            // directed history: a seed stored again under the same id replaces the previous one, also in this process
            {
                let dir = tempfile::TempDir::new().expect("tempdir");
                let path = dir.path().join("store.enc");
                let m = EncryptedKeyStorageManager::new(&path, SecurityLevel::Fast).expect("manager");
                m.initialize(&pw(0)).await.expect("initialize");
                let s1 = MasterSeed::generate().expect("seed");
                let s2 = MasterSeed::generate().expect("seed");
                m.store_master_seed("seed0", &s1, &pw(0)).await.expect("store");
                let _ = m.retrieve_master_seed("seed0", &pw(0)).await;
                m.store_master_seed("seed0", &s2, &pw(0)).await.expect("store");
                match m.retrieve_master_seed("seed0", &pw(0)).await {
                    Ok(s) if s.seed_material() == s2.seed_material() => {}
                    Ok(_) => panic!("VERIF-SEARCH-HIT C18/retrieve/the_seed_returned_is_the_one_stored_last_under_that_id history=[store(seed0, S1, pw0) -> Ok; retrieve(seed0, pw0); store(seed0, S2, pw0) -> Ok; retrieve(seed0, pw0) -> Ok(a seed other than S2)]"),
                    Err(_) => panic!("VERIF-SEARCH-HIT C18/retrieve/the_current_password_opens_every_stored_seed history=[store(seed0, S1, pw0); store(seed0, S2, pw0); retrieve(seed0, pw0) -> Err]"),
                }
            }
            // directed family: (password, seed id) pairs whose concatenations collide -- the boundary between the two
            // moved -- and near-miss passwords (prefix, extension, case): none of them may open a cached seed
            {
                let dir = tempfile::TempDir::new().expect("tempdir");
                let path = dir.path().join("store.enc");
                let m = EncryptedKeyStorageManager::new(&path, SecurityLevel::Fast).expect("manager");
                let p0 = "G00d-Pa55w0rd_#1";
                m.initialize(&SecureString::from_plain_str(p0).expect("pw")).await.expect("initialize");
                for id in ["node-backup", "ab", "seed:0", "x"] {
                    let s = MasterSeed::generate().expect("seed");
                    m.store_master_seed(id, &s, &SecureString::from_plain_str(p0).expect("pw")).await.expect("store");
                }
                for id in ["node-backup", "ab", "seed:0", "x"] {
                    let mut tries: Vec<(String, String)> = Vec::new();
                    for n in 1..id.len() {
                        if id.is_char_boundary(n) {
                            tries.push((format!("{}{}", p0, &id[..n]), id[n..].to_string()));          // boundary moved right
                        }
                    }
                    for n in 1..4usize {
                        tries.push((p0[..p0.len() - n].to_string(), format!("{}{}", &p0[p0.len() - n..], id)));   // boundary moved left
                    }
                    tries.push((format!("{}:", p0), id.to_string()));
                    tries.push((format!("{} ", p0), id.to_string()));
                    tries.push((p0.to_lowercase(), id.to_string()));
                    tries.push((p0[..p0.len() - 1].to_string(), id.to_string()));
                    tries.push((String::new(), format!("{}{}", p0, id)));
                    for (wrong_pw, some_id) in tries {
                        let Ok(wp) = SecureString::from_plain_str(&wrong_pw) else { continue };
                        if m.retrieve_master_seed(&some_id, &wp).await.is_ok() {
                            panic!("VERIF-SEARCH-HIT C18/retrieve/a_seed_is_returned_only_to_a_caller_presenting_the_current_password history=[initialize({:?}); store({:?}, {:?}) -> Ok; retrieve({:?}, {:?}) -> Ok]", p0, id, p0, some_id, wrong_pw);
                        }
                    }
                }
            }
            for round in 0..rounds {
                let dir = tempfile::TempDir::new().expect("tempdir");
                let path = dir.path().join("store.enc");
                let mut m = EncryptedKeyStorageManager::new(&path, SecurityLevel::Fast).expect("manager");
                let mut current = 0usize;
                m.initialize(&pw(current)).await.expect("initialize");
                let mut stored: std::collections::HashMap<String, Vec<u8>> = std::collections::HashMap::new();
                let mut history: Vec<String> = Vec::new();
                for step in 0..14 {
                    let id = format!("seed{}", r.below(2));
                    match r.below(7) {
                        0 | 1 => {
                            let s = MasterSeed::generate().expect("seed");
                            let use_pw = if r.below(3) == 0 { (current + 1 + r.below(3) as usize) % 4 } else { current };
                            let res = m.store_master_seed(&id, &s, &pw(use_pw)).await;
                            history.push(format!("store({}, pw{}) -> {}", id, use_pw, if res.is_ok() { "Ok" } else { "Err" }));
                            if res.is_ok() {
                                if use_pw != current {
                                    panic!("VERIF-SEARCH-HIT C18/store/a_seed_is_stored_only_under_the_current_password round={} step={} current=pw{} history={:?}", round, step, current, history);
                                }
                                stored.insert(id.clone(), s.seed_material().to_vec());
                            }
                        }
                        2 => {
                            let new = (current + 1 + r.below(3) as usize) % 4;
                            let with = if r.below(3) == 0 { new } else { current };
                            let res = m.change_password(&pw(with), &pw(new)).await;
                            history.push(format!("change_password(old=pw{}, new=pw{}) -> {}", with, new, if res.is_ok() { "Ok" } else { "Err" }));
                            if res.is_ok() {
                                if with != current {
                                    panic!("VERIF-SEARCH-HIT C18/change/the_password_changes_only_for_a_caller_presenting_the_current_one round={} step={} current=pw{} history={:?}", round, step, current, history);
                                }
                                current = new;
                            }
                        }
                        6 => {
                            if r.below(3) != 0 { continue; }
                            // re-initialising the store creates a new, empty store under the given password
                            let new = (current + 1 + r.below(3) as usize) % 4;
                            let res = m.initialize(&pw(new)).await;
                            history.push(format!("initialize(pw{}) -> {}", new, if res.is_ok() { "Ok" } else { "Err" }));
                            if res.is_ok() {
                                current = new;
                                stored.clear();
                            }
                        }
                        3 => {
                            if r.below(2) == 0 {
                                let _ = m.clear_cache();
                                history.push("clear_cache".into());
                            } else {
                                // reopen the file in a new manager (same process)
                                m = EncryptedKeyStorageManager::new(&path, SecurityLevel::Fast).expect("manager");
                                history.push("reopen".into());
                            }
                        }
                        _ => {
                            let use_pw = if r.below(2) == 0 { (current + 1 + r.below(3) as usize) % 4 } else { current };
                            let res = m.retrieve_master_seed(&id, &pw(use_pw)).await;
                            history.push(format!("retrieve({}, pw{}) -> {}", id, use_pw, if res.is_ok() { "Ok" } else { "Err" }));
                            match res {
                                Ok(s) => {
                                    if use_pw != current {
                                        panic!("VERIF-SEARCH-HIT C18/retrieve/a_seed_is_returned_only_to_a_caller_presenting_the_current_password round={} step={} current=pw{} history={:?}", round, step, current, history);
                                    }
                                    if !stored.contains_key(&id) {
                                        panic!("VERIF-SEARCH-HIT C18/retrieve/only_a_seed_that_is_in_the_store_is_returned round={} step={} history={:?}", round, step, history);
                                    }
                                    if stored.get(&id).map(|v| v.as_slice()) != Some(s.seed_material()) {
                                        panic!("VERIF-SEARCH-HIT C18/retrieve/the_seed_returned_is_the_one_stored_last_under_that_id round={} step={} history={:?}", round, step, history);
                                    }
                                }
                                Err(_) => {
                                    if use_pw == current && stored.contains_key(&id) {
                                        panic!("VERIF-SEARCH-HIT C18/retrieve/the_current_password_opens_every_stored_seed round={} step={} current=pw{} history={:?}", round, step, current, history);
                                    }
                                }
                            }
                        }
                    }
                }
            }
        });
    }
}

// Native replay slot (see lib/kani_run.py: ensure_replay_slots)
#[cfg(test)]
include!("/verif/.build/replay/encrypted_key_storage.rs");
