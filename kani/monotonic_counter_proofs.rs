//! @module monotonic_counter::verif_proofs
//! Kani harnesses for src/monotonic_counter.rs (C12). Child module of `monotonic_counter`.
//! The unbounded-history results come from Verus unit `seq` on the same functions; these
//! harnesses (a) prove the callee contract Verus assumes (`has_seen_sequence`), (b) re-state the
//! postconditions over the machine domain to produce counterexamples, (c) check compositions.
use super::*;
use std::mem::ManuallyDrop;

static mut NOW: u64 = 0;
fn stub_now() -> u64 {
    unsafe { NOW }
}

fn any_entry() -> SequenceEntry {
    SequenceEntry { sequence: kani::any(), timestamp: kani::any(), message_hash: kani::any() }
}

/// Arbitrary PeerCounter whose history has exactly `n` entries. `n` is concrete at every call
/// site (CBMC cannot bound loops over vectors of symbolic length); harnesses call their check once
/// per length 0..=B, so the claim is still "for every history of length <= B".
fn any_counter(n: usize) -> PeerCounter {
    let mut h = Vec::with_capacity(n + 2);
    let mut i = 0;
    while i < n {
        h.push(any_entry());
        i += 1;
    }
    PeerCounter {
        current_sequence: kani::any(),
        last_valid_sequence: kani::any(),
        sequence_history: h,
        last_updated: kani::any(),
        replay_attempts: kani::any(),
        sequence_gaps: kani::any(),
    }
}

fn spec_seen(pc: &PeerCounter, seq: u64, hash: &[u8; 32]) -> bool {
    let mut found = false;
    let mut i = 0;
    while i < pc.sequence_history.len() {
        if pc.sequence_history[i].sequence == seq
            && &pc.sequence_history[i].message_hash == hash
        {
            found = true;
        }
        i += 1;
    }
    found
}

fn system_ref() -> &'static MonotonicCounterSystem {
    // validate_sequence_internal never reads `self`; the object (tokio mutex, path, task handle)
    // cannot be built under Kani, so an unread placeholder reference is used.
    let b: Box<std::mem::MaybeUninit<MonotonicCounterSystem>> = Box::new(std::mem::MaybeUninit::uninit());
    let p = Box::leak(b);
    unsafe { &*p.as_ptr() }
}

// @verif property=C12 class=bounded bound="history<=3 entries" fns=PeerCounter::has_seen_sequence tier=quick,thorough panic=violation
#[kani::proof]
#[kani::unwind(34)]
fn c12_has_seen_contract() {
    let mut n = 0;
    while n <= 3 {
        let pc = ManuallyDrop::new(any_counter(n));
        let seq: u64 = kani::any();
        let hash: [u8; 32] = kani::any();
        let r = pc.has_seen_sequence(seq, hash);
        kani::cover!(r, "C12/has_seen/cover_true");
        kani::cover!(!r && pc.sequence_history.len() == 3, "C12/has_seen/cover_false_full");
        assert!(r == spec_seen(&pc, seq, &hash), "C12/has_seen/iff_entry_with_same_number_and_hash");
        n += 1;
    }
}

fn check_validate(n: usize) {
    let pc = ManuallyDrop::new(any_counter(n));
    let seq: u64 = kani::any();
    let hash: [u8; 32] = kani::any();
    let ts: u64 = kani::any();
    let now: u64 = kani::any();
    kani::assume(now < (1u64 << 48));
    kani::assume(pc.last_valid_sequence < u64::MAX);
    unsafe {
        NOW = now;
    }
    let last = pc.last_valid_sequence;
    let seen = spec_seen(&pc, seq, &hash);
    let r = system_ref().validate_sequence_internal(&pc, seq, hash, ts);
    kani::cover!(r == SequenceValidationResult::Valid, "C12/validate/cover_valid");
    kani::cover!(r == SequenceValidationResult::Replay && seen, "C12/validate/cover_replay_seen");
    kani::cover!(r == SequenceValidationResult::TooOld, "C12/validate/cover_too_old");
    kani::cover!(r == SequenceValidationResult::FromFuture, "C12/validate/cover_future");
    if r == SequenceValidationResult::Valid {
        assert!(seq == last + 1, "C12/validate/valid_only_for_next_in_order");
        assert!(!seen, "C12/validate/valid_never_for_seen");
        assert!(ts <= now + 60 && ts >= now.saturating_sub(3600), "C12/validate/valid_only_inside_time_window");
    }
    if seq <= last {
        assert!(r != SequenceValidationResult::Valid, "C12/validate/old_numbers_never_accepted");
    }
    if let SequenceValidationResult::Gap { expected, received } = r {
        assert!(expected == last + 1 && received == seq && seq > expected, "C12/validate/gap_classification");
    }
    if r == SequenceValidationResult::Replay {
        assert!(seen || seq <= last, "C12/validate/replay_classification");
    }
    if r == SequenceValidationResult::FromFuture {
        assert!(ts > now + 60, "C12/validate/future_classification");
    }
    if r == SequenceValidationResult::TooOld {
        assert!(ts < now.saturating_sub(3600), "C12/validate/too_old_classification");
    }
    if seq == last + 1 && !seen && ts <= now + 60 && ts >= now.saturating_sub(3600) {
        assert!(r == SequenceValidationResult::Valid, "C12/validate/next_in_order_is_accepted");
    }
    // frame: classification changes no state (also enforced by `&PeerCounter`)
    assert!(pc.last_valid_sequence == last, "C12/validate/no_state_change");
}

// @verif property=C12 class=bounded bound="history<=2 entries; all u64 sequence numbers, timestamps, clock < 2^48" fns=MonotonicCounterSystem::validate_sequence_internal uses=check_validate tier=quick,thorough panic=violation
#[kani::proof]
#[kani::stub(current_timestamp, stub_now)]
#[kani::unwind(34)]
fn c12_validate_internal() {
    check_validate(0);
    check_validate(1);
    check_validate(2);
}

// @verif property=C12 class=bounded bound="history<=2 entries before the update" fns=PeerCounter::apply_sequence_update uses=check_apply tier=quick,thorough panic=violation
#[kani::proof]
#[kani::unwind(34)]
fn c12_apply_update() {
    check_apply(0);
    check_apply(1);
    check_apply(2);
}

fn check_apply(n: usize) {
    let mut pc = ManuallyDrop::new(any_counter(n));
    let seq: u64 = kani::any();
    let hash: [u8; 32] = kani::any();
    let ts: u64 = kani::any();
    let old_len = pc.sequence_history.len();
    let (ra, sg) = (pc.replay_attempts, pc.sequence_gaps);
    let probe: usize = kani::any();
    if old_len > 0 {
        kani::assume(probe < old_len);
    } else {
        kani::assume(probe == 0);
    }
    let (old_probe_seq, old_probe_hash) = if old_len > 0 {
        (pc.sequence_history[probe].sequence, pc.sequence_history[probe].message_hash)
    } else {
        (seq, hash)
    };
    pc.apply_sequence_update(seq, hash, ts);
    assert!(pc.last_valid_sequence == seq && pc.current_sequence == seq, "C12/apply/sets_last_and_current");
    assert!(pc.last_updated == ts, "C12/apply/sets_last_updated");
    assert!(pc.sequence_history.len() == old_len + 1, "C12/apply/history_grows_by_one_below_limit");
    let e = &pc.sequence_history[old_len];
    assert!(e.sequence == seq && e.message_hash == hash && e.timestamp == ts, "C12/apply/applied_entry_recorded");
    assert!(
        pc.sequence_history[probe].sequence == old_probe_seq && pc.sequence_history[probe].message_hash == old_probe_hash,
        "C12/apply/earlier_entries_kept"
    );
    assert!(pc.replay_attempts == ra && pc.sequence_gaps == sg, "C12/apply/frame");
}

// @verif property=C12 class=bounded bound="history<=3 entries" fns=PeerCounter::cleanup_old_sequences uses=check_cleanup tier=quick,thorough panic=violation
#[kani::proof]
#[kani::unwind(34)]
fn c12_cleanup_keeps_acceptance_state() {
    check_cleanup(0);
    check_cleanup(1);
    check_cleanup(2);
    check_cleanup(3);
}

fn check_cleanup(n: usize) {
    let mut pc = ManuallyDrop::new(any_counter(n));
    let cutoff: u64 = kani::any();
    let (last, cur) = (pc.last_valid_sequence, pc.current_sequence);
    let old_len = pc.sequence_history.len();
    pc.cleanup_old_sequences(cutoff);
    // the acceptance state (what decides at-most-once) is untouched by history pruning
    assert!(pc.last_valid_sequence == last && pc.current_sequence == cur, "C12/cleanup/last_valid_unchanged");
    assert!(pc.sequence_history.len() <= old_len, "C12/cleanup/history_only_shrinks");
    let j: usize = kani::any();
    if j < pc.sequence_history.len() {
        assert!(pc.sequence_history[j].timestamp >= cutoff, "C12/cleanup/keeps_only_recent");
    }
}

/// The body of the critical section of validate_sequence / batch_update (validate, then apply iff
/// Valid) run twice on one peer for the same number: at most one of the two submissions is accepted,
/// whatever the hashes and timestamps; and a fresh peer (PeerCounter::new) accepts exactly number 1.
fn check_same_number_twice(n: usize) {
    let now: u64 = kani::any();
    kani::assume(now < (1u64 << 48));
    unsafe {
        NOW = now;
    }
    let mut pc = ManuallyDrop::new(any_counter(n));
    kani::assume(pc.last_valid_sequence < u64::MAX);
    let sys = system_ref();
    let seq: u64 = kani::any();
    let (h1, h2): ([u8; 32], [u8; 32]) = (kani::any(), kani::any());
    let (t1, t2): (u64, u64) = (kani::any(), kani::any());
    let last0 = pc.last_valid_sequence;
    let r1 = sys.validate_sequence_internal(&pc, seq, h1, t1);
    if let SequenceValidationResult::Valid = r1 {
        // stated precondition (DESIGN section 4): fewer than 2^64 accepted numbers per peer, so the
        // counter never sits at u64::MAX (`last + 1` would overflow there)
        kani::assume(seq < u64::MAX);
        kani::cover!(seq == u64::MAX - 1, "C12/twice/cover_near_u64_max");
        pc.apply_sequence_update(seq, h1, t1);
        // a later (or same-batch) submission of the same number, same or different hash
        let r2 = sys.validate_sequence_internal(&pc, seq, h2, t2);
        kani::cover!(h1 != h2, "C12/twice/cover_different_hash");
        assert!(r2 != SequenceValidationResult::Valid, "C12/twice/same_number_accepted_at_most_once");
        // and any number at or below it
        let older: u64 = kani::any();
        kani::assume(older <= seq);
        let r3 = sys.validate_sequence_internal(&pc, older, h2, t2);
        assert!(r3 != SequenceValidationResult::Valid, "C12/twice/no_number_at_or_below_last_accepted");
    } else {
        assert!(pc.last_valid_sequence == last0 && pc.sequence_history.len() == n, "C12/twice/rejection_changes_nothing");
    }
}

// @verif property=C12 class=bounded bound="history<=2 entries before the first submission" fns=MonotonicCounterSystem::validate_sequence_internal,PeerCounter::apply_sequence_update,PeerCounter::has_seen_sequence uses=check_same_number_twice tier=quick,thorough panic=violation
#[kani::proof]
#[kani::stub(current_timestamp, stub_now)]
#[kani::unwind(34)]
fn c12_same_number_twice() {
    check_same_number_twice(0);
    check_same_number_twice(1);
    check_same_number_twice(2);
}

// @verif property=C12 class=complete fns=PeerCounter::new tier=quick,thorough panic=violation
#[kani::proof]
#[kani::stub(current_timestamp, stub_now)]
#[kani::unwind(34)]
fn c12_fresh_peer_accepts_exactly_one() {
    let now: u64 = kani::any();
    kani::assume(now < (1u64 << 48));
    unsafe {
        NOW = now;
    }
    let pc = ManuallyDrop::new(PeerCounter::new());
    assert!(pc.last_valid_sequence == 0 && pc.sequence_history.len() == 0, "C12/new/starts_at_zero_with_empty_history");
    let seq: u64 = kani::any();
    let r = system_ref().validate_sequence_internal(&pc, seq, kani::any(), kani::any());
    if r == SequenceValidationResult::Valid {
        assert!(seq == 1, "C12/new/first_accepted_number_is_one");
    }
}

// ---------------------------------------------------------------------------
// System level: the per-peer acceptance state lives in a map owned by MonotonicCounterSystem.
// "accepted at most once over the whole life of the counter store" needs the map-level
// operations never to forget a peer's high-water mark. cleanup_old_sequences is an await-free
// async fn: it is driven to completion by one poll. The system object is built by struct literal
// (the constructor does file I/O); its tokio mutex is never touched by the function under proof.
// bounded: one tracked peer (concrete id, hashed by the real SipHash), history length <= 2.
// ---------------------------------------------------------------------------

fn stub_random_state_c12() -> std::hash::RandomState {
    unsafe { std::mem::transmute::<(u64, u64), std::hash::RandomState>((0x0123_4567_89ab_cdef, 0x0f1e_2d3c_4b5a_6978)) }
}

fn poll_once<F: std::future::Future>(f: F) -> Option<F::Output> {
    use std::task::{Context, Poll, RawWaker, RawWakerVTable, Waker};
    fn noop(_: *const ()) {}
    fn clone(_: *const ()) -> RawWaker {
        RawWaker::new(std::ptr::null(), &VT)
    }
    static VT: RawWakerVTable = RawWakerVTable::new(clone, noop, noop, noop);
    let waker = unsafe { Waker::from_raw(RawWaker::new(std::ptr::null(), &VT)) };
    let mut cx = Context::from_waker(&waker);
    let mut f = std::pin::pin!(f);
    match f.as_mut().poll(&mut cx) {
        Poll::Ready(v) => Some(v),
        Poll::Pending => None,
    }
}

fn check_system_cleanup(n: usize) {
    let uid = UserId::from_bytes([7u8; 32]);
    let pc = any_counter(n);
    let (last, cur) = (pc.last_valid_sequence, pc.current_sequence);
    let mut map: HashMap<UserId, PeerCounter> = HashMap::with_capacity(2);
    map.insert(uid.clone(), pc);
    let sys = ManuallyDrop::new(MonotonicCounterSystem {
        counters: Arc::new(RwLock::new(map)),
        storage_path: PathBuf::new(),
        sync_interval: Duration::from_secs(60),
        sync_task: None,
        stats: Arc::new(Mutex::new(CounterStats::default())),
    });
    let now: u64 = kani::any();
    kani::assume(now < (1u64 << 48));
    unsafe {
        NOW = now;
    }
    let r = poll_once(sys.cleanup_old_sequences());
    assert!(r.is_some(), "C12/system/cleanup_is_await_free");
    std::mem::forget(r);
    let g = sys.counters.read();
    assert!(g.is_ok(), "C12/system/cleanup_releases_the_lock");
    if let Ok(g) = g {
        let e = g.get(&uid);
        kani::cover!(e.is_some() && e.unwrap().sequence_history.len() < n, "C12/system/cover_history_pruned");
        assert!(e.is_some(), "C12/system/cleanup_never_forgets_a_peer");
        if let Some(e) = e {
            assert!(e.last_valid_sequence == last && e.current_sequence == cur, "C12/system/cleanup_keeps_the_high_water_mark");
        }
        std::mem::forget(g);
    }
}

macro_rules! system_cleanup_harness {
    ($name:ident, $n:expr) => {
        #[kani::proof]
        #[kani::stub(current_timestamp, stub_now)]
        #[kani::stub(std::hash::RandomState::new, stub_random_state_c12)]
        #[kani::stub(std::backtrace::Backtrace::capture, stub_backtrace_c12)]
        #[kani::unwind(5)]
        fn $name() {
            check_system_cleanup($n);
        }
    };
}
fn stub_backtrace_c12() -> std::backtrace::Backtrace {
    std::backtrace::Backtrace::disabled()
}
// The two system-level harnesses (c12_system_cleanup_keeps_peers_1/_2: MonotonicCounterSystem::cleanup_old_sequences
// over a real HashMap) were withdrawn: on a freshly restored sandbox CBMC did not finish within the
// harness timeout (hashbrown + tokio RwLock), i.e. the check was UNDECIDED there. The per-peer
// contract (c12_cleanup_keeps_acceptance_state) still covers PeerCounter::cleanup_old_sequences.
// ---------------------------------------------------------------------------------------------
// NATIVE FAILING-INPUT SEARCH for C12 at the level of MonotonicCounterSystem (public async API, real clock):
// used to attach a concrete history to a failed obligation of the Verus unit `seq` and to decide when that
// unit cannot (e.g. a statement outside the dialect was added to a critical section).
// ---------------------------------------------------------------------------------------------
#[cfg(test)]
mod search {
    use super::*;

    fn uid(b: u8) -> UserId {
        UserId::from_bytes([b; 32])
    }
    fn hash(n: u64) -> [u8; 32] {
        let mut h = [0u8; 32];
        h[..8].copy_from_slice(&n.to_be_bytes());
        h
    }

    #[test]
    fn verif_search_c12() {
        let rt = tokio::runtime::Builder::new_current_thread().enable_all().build().expect("runtime");
        rt.block_on(async {
            let dir = std::env::temp_dir().join(format!("verif_c12_{}", std::process::id()));
            let _ = std::fs::create_dir_all(&dir);
            let sys = MonotonicCounterSystem::new_with_sync_interval(dir.join("counters.bin"), Duration::from_secs(3600)).await.expect("system");
            let now = current_timestamp();
            // peer 1: accepts 1,2,3 stamped almost one hour ago (still inside the window); peer 2: fresh numbers
            let mut reqs = Vec::new();
            for n in 1..=3u64 {
                reqs.push(BatchUpdateRequest { user_id: uid(1), sequence: n, message_hash: hash(n), timestamp: now.saturating_sub(3598) });
            }
            // the same (peer, number) twice in one batch, and an out-of-order number
            reqs.push(BatchUpdateRequest { user_id: uid(2), sequence: 1, message_hash: hash(1), timestamp: now });
            reqs.push(BatchUpdateRequest { user_id: uid(2), sequence: 1, message_hash: hash(1), timestamp: now });
            reqs.push(BatchUpdateRequest { user_id: uid(2), sequence: 3, message_hash: hash(3), timestamp: now });
            let res = sys.batch_update(reqs).await.expect("batch");
            let applied: Vec<bool> = res.iter().map(|r| r.applied).collect();
            if applied != vec![true, true, true, true, false, false] {
                panic!("VERIF-SEARCH-HIT C12/system/same_peer_and_number_within_one_batch_accepted_at_most_once applied={:?} for batch [p1:1, p1:2, p1:3, p2:1, p2:1, p2:3]", applied);
            }
            // immediate replays and old numbers are never accepted; other peers are unaffected
            for n in 1..=3u64 {
                let r = sys.validate_sequence(&uid(1), n, hash(n)).await.expect("validate");
                if matches!(r, SequenceValidationResult::Valid) {
                    panic!("VERIF-SEARCH-HIT C12/system/accepted_only_for_the_next_number_never_for_a_seen_one peer=1 number={} accepted again right after the batch", n);
                }
            }
            let before = sys.get_peer_counter(&uid(2)).await.map(|c| c.last_valid_sequence);
            // let the history of peer 1 age out (its entries are 3598 s old; wait until they pass one hour), then clean up
            tokio::time::sleep(Duration::from_millis(3200)).await;
            sys.cleanup_old_sequences().await.expect("cleanup");
            if sys.get_peer_counter(&uid(1)).await.map(|c| c.last_valid_sequence) != Some(3) {
                panic!("VERIF-SEARCH-HIT C12/system/cleanup_never_forgets_a_peer_or_its_high_water_mark peer=1 high-water mark 3 lost after cleanup_old_sequences (history aged out)");
            }
            if sys.get_peer_counter(&uid(2)).await.map(|c| c.last_valid_sequence) != before {
                panic!("VERIF-SEARCH-HIT C12/system/peers_never_affect_one_another peer=2 changed by the cleanup / by peer 1's traffic");
            }
            for n in [0u64, 1, 2, 3] {
                for h in [hash(n), hash(n + 100)] {
                    let r = sys.validate_sequence(&uid(1), n, h).await.expect("validate");
                    if matches!(r, SequenceValidationResult::Valid) {
                        panic!("VERIF-SEARCH-HIT C12/system/accepted_only_for_the_next_number_never_for_a_seen_one peer=1 number={} accepted again after its history aged out and cleanup ran", n);
                    }
                }
            }
            let r = sys.validate_sequence(&uid(1), 4, hash(4)).await.expect("validate");
            if !matches!(r, SequenceValidationResult::Valid) {
                panic!("VERIF-SEARCH-HIT C12/seq/next_in_order_accepted_unless_time_window peer=1 number=4 refused: {:?}", r);
            }
            let _ = std::fs::remove_dir_all(&dir);
        });
    }
}

#[cfg(test)]
include!("/verif/.build/replay/monotonic_counter.rs");
