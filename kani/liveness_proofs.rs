//! @module dht::routing_maintenance::liveness::verif_proofs
//! Kani harness for NodeLivenessState (C16 failure/success policy). The all-histories result is
//! Verus unit `live` on the same functions; this loop-free harness over the full u32/u64 domain is
//! the counterexample producer paired with it.
use super::*;

fn stub_instant_now() -> Instant {
    // arbitrary but fixed monotonic reading; no obligation depends on its value
    unsafe { std::mem::transmute::<(i64, u32), Instant>((1_000_000, 0)) }
}

// @verif property=C16 class=complete fns=NodeLivenessState::record_failure,NodeLivenessState::record_success,NodeLivenessState::should_evict,NodeLivenessState::new tier=quick,thorough panic=violation
#[kani::proof]
#[kani::stub(std::time::Instant::now, stub_instant_now)]
fn c16_liveness_step() {
    let mut s = NodeLivenessState::new();
    assert!(s.consecutive_failures == 0, "C16/live/kani_new_starts_at_zero");
    s.consecutive_failures = kani::any();
    s.total_failures = kani::any();
    s.total_successes = kani::any();
    // stated precondition: fewer than 2^32 consecutive failures / 2^64 events
    kani::assume(s.consecutive_failures < u32::MAX && s.total_failures < u64::MAX && s.total_successes < u64::MAX);
    let cfg = MaintenanceConfig { max_consecutive_failures: kani::any(), ..Default::default() };
    let old = s.consecutive_failures;
    assert!(s.should_evict(&cfg) == (old >= cfg.max_consecutive_failures), "C16/live/kani_evict_iff_max_consecutive_failures");
    if kani::any() {
        s.record_failure();
        assert!(s.consecutive_failures == old + 1, "C16/live/kani_failure_increments");
        kani::cover!(s.should_evict(&cfg), "C16/live/cover_becomes_candidate");
    } else {
        s.record_success();
        assert!(s.consecutive_failures == 0, "C16/live/kani_one_success_clears");
        assert!(s.should_evict(&cfg) == (cfg.max_consecutive_failures == 0), "C16/live/kani_success_clears_candidacy");
    }
}

#[cfg(test)]
include!("/verif/.build/replay/liveness.rs");
