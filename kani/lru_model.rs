// Contract model of `lru::LruCache` used by the C13/C14 harnesses (included with include!).
//
// The lru crate is an external dependency whose real code (hashbrown + intrusive list) CBMC
// cannot execute in reasonable time/memory here (a single put+peek exhausted 14 GB). Its methods
// are therefore replaced by their CONTRACT below the capacity bound -- "a finite map from keys to
// values": peek/get/get_mut return the value last put for an equal key, put replaces or inserts,
// pop removes -- which is also the property's own qualifier ("below the 50k-entry tracking bound").
// This is an ASSUMED dependency contract, listed in every evidence file that uses it. Exceeding the
// model's slot count trips `lru_model/slot_capacity` (reported UNDECIDED, never a violation).
//
// Keys are compared by their in-memory bytes (sound for the plain-old-data keys used here:
// Ipv6Addr, Ipv4Addr, u32, u8); harnesses never use String or IpAddr keys.
pub(super) mod lru_model {
    use lru::LruCache;
    use std::borrow::Borrow;
    use std::hash::Hash;

    pub const SLOTS: usize = 3;
    pub const CACHES: usize = 9;
    pub const VALWORDS: usize = 6;

    // Flat arrays (one per field) keep CBMC's array encoding small. Keys are the key's bytes read as
    // one integer (sizes 1, 4, 16 only); values are stored inline (no heap objects).
    pub static mut IDS: [*const (); CACHES] = [std::ptr::null(); CACHES];
    pub static mut USED: [[bool; SLOTS]; CACHES] = [[false; SLOTS]; CACHES];
    pub static mut KEYS: [[u128; SLOTS]; CACHES] = [[0; SLOTS]; CACHES];
    pub static mut VALS: [[[u64; VALWORDS]; SLOTS]; CACHES] = [[[0; VALWORDS]; SLOTS]; CACHES];

    pub fn reset() {
        unsafe {
            IDS = [std::ptr::null(); CACHES];
            USED = [[false; SLOTS]; CACHES];
        }
    }

    fn model_of<T>(c: *const T) -> usize {
        let id = c as *const ();
        let mut i = 0;
        while i < CACHES {
            unsafe {
                if IDS[i] == id {
                    return i;
                }
                if IDS[i].is_null() {
                    IDS[i] = id;
                    return i;
                }
            }
            i += 1;
        }
        assert!(false, "lru_model/too_many_caches");
        0
    }

    fn key_of<Q: ?Sized>(q: &Q) -> u128 {
        let n = std::mem::size_of_val(q);
        let p = q as *const Q as *const u8;
        unsafe {
            if n == 16 {
                std::ptr::read_unaligned(p as *const u128)
            } else if n == 4 {
                std::ptr::read_unaligned(p as *const u32) as u128
            } else if n == 1 {
                *p as u128
            } else {
                assert!(false, "lru_model/unsupported_key_size");
                0
            }
        }
    }

    fn val_ptr<V>(m: usize, i: usize) -> *mut V {
        assert!(std::mem::size_of::<V>() <= VALWORDS * 8 && std::mem::align_of::<V>() <= 8, "lru_model/value_too_large");
        unsafe { &mut VALS[m][i] as *mut [u64; VALWORDS] as *mut V }
    }

    fn find(m: usize, k: u128) -> Option<usize> {
        let mut i = 0;
        while i < SLOTS {
            unsafe {
                if USED[m][i] && KEYS[m][i] == k {
                    return Some(i);
                }
            }
            i += 1;
        }
        None
    }

    // Kani accepts a stub for a method `impl<K,V,S> T<K,V,S> { fn m<Q>(..) }` only if the stub splits
    // its generics the same way (parent K,V,S + own Q): hence associated functions of a generic struct.
    pub struct M<K, V, S>(std::marker::PhantomData<(K, V, S)>);
    impl<K: Hash + Eq, V, S: std::hash::BuildHasher> M<K, V, S> {
        pub fn peek<'a, Q>(c: &'a LruCache<K, V, S>, k: &Q) -> Option<&'a V>
        where
            K: Borrow<Q>,
            Q: Hash + Eq + ?Sized,
        {
            let m = model_of(c as *const _);
            match find(m, key_of(k)) {
                Some(i) => unsafe { Some(&*(val_ptr::<V>(m, i) as *const V)) },
                None => None,
            }
        }

        pub fn get<'a, Q>(c: &'a mut LruCache<K, V, S>, k: &Q) -> Option<&'a V>
        where
            K: Borrow<Q>,
            Q: Hash + Eq + ?Sized,
        {
            let m = model_of(c as *const _);
            match find(m, key_of(k)) {
                Some(i) => unsafe { Some(&*(val_ptr::<V>(m, i) as *const V)) },
                None => None,
            }
        }

        pub fn get_mut<'a, Q>(c: &'a mut LruCache<K, V, S>, k: &Q) -> Option<&'a mut V>
        where
            K: Borrow<Q>,
            Q: Hash + Eq + ?Sized,
        {
            let m = model_of(c as *const _);
            match find(m, key_of(k)) {
                Some(i) => unsafe { Some(&mut *val_ptr::<V>(m, i)) },
                None => None,
            }
        }

        pub fn put(c: &mut LruCache<K, V, S>, k: K, v: V) -> Option<V> {
            let m = model_of(c as *const _);
            let kk = key_of(&k);
            std::mem::forget(k);
            match find(m, kk) {
                Some(i) => unsafe {
                    let old = std::ptr::read(val_ptr::<V>(m, i));
                    std::ptr::write(val_ptr::<V>(m, i), v);
                    Some(old)
                },
                None => {
                    let mut i = 0;
                    while i < SLOTS {
                        unsafe {
                            if !USED[m][i] {
                                USED[m][i] = true;
                                KEYS[m][i] = kk;
                                std::ptr::write(val_ptr::<V>(m, i), v);
                                return None;
                            }
                        }
                        i += 1;
                    }
                    assert!(false, "lru_model/slot_capacity");
                    None
                }
            }
        }

        pub fn pop<Q>(c: &mut LruCache<K, V, S>, k: &Q) -> Option<V>
        where
            K: Borrow<Q>,
            Q: Hash + Eq + ?Sized,
        {
            let m = model_of(c as *const _);
            match find(m, key_of(k)) {
                Some(i) => unsafe {
                    USED[m][i] = false;
                    Some(std::ptr::read(val_ptr::<V>(m, i)))
                },
                None => None,
            }
        }
    }
}
