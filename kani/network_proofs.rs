//! @module network::verif_proofs
//! C05 framing layer. The deciding engine is the Verus unit `inbound` (contracts on the extracted
//! text of parse_protocol_message). This module holds only the NATIVE FAILING-INPUT SEARCH that the
//! driver runs when that proof no longer goes through for a reason other than a tagged
//! postcondition: it looks for a concrete frame that the real function treats differently from the
//! property statement. A hit is reported with the input; no hit leaves the run UNDECIDED.
#![allow(unused_imports)]
use super::*;

#[cfg(test)]
mod search {
    use super::*;

    fn now_secs() -> u64 {
        std::time::SystemTime::now().duration_since(std::time::UNIX_EPOCH).map(|d| d.as_secs()).unwrap_or(0)
    }

    /// window from the statement: 5 minutes back, 30 seconds ahead
    fn in_window(ts: u64, now: u64) -> bool {
        (now as i128 - 300) <= ts as i128 && ts as i128 <= now as i128 + 30
    }

    #[test]
    fn verif_search_c05_frames() {
        let seed: u64 = std::env::var("VERIF_SEED").ok().and_then(|s| s.parse().ok()).unwrap_or(0);
        let offsets: [i64; 34] = [
            -1_000_000, -86_400, -3_600, -600, -400, -303, -302, -301, -300, -299, -298, -200, -60, -2, -1, 0, 1, 2, 20, 28, 29, 30, 31,
            32, 45, 60, 120, 299, 300, 301, 302, 400, 3_600, 1_000_000,
        ];
        let claims = ["", "someone-else", "peer-A", "\u{0}"];
        let sources = ["peer-A", "transport-id-1", ""];
        let mut tried = 0usize;
        for (k, off) in offsets.iter().enumerate() {
            for extra in 0..2u64 {
                for claim in claims {
                    for source in sources {
                        let before = now_secs();
                        let ts = if extra == 1 && k < 4 { [0u64, 1, u64::MAX, u64::MAX - 1][k] } else { (before as i64 + off) as u64 };
                        let payload: Vec<u8> = (0..((k as u64 + seed) % 7)).map(|i| (i * 37 + seed) as u8).collect();
                        let msg = WireMessage { protocol: format!("topic-{}", k), data: payload.clone(), from: claim.to_string(), timestamp: ts };
                        let bytes = postcard::to_stdvec(&msg).expect("encode");
                        let r = parse_protocol_message(&bytes, source);
                        let after = now_secs();
                        tried += 1;
                        let (a, b) = (in_window(ts, before), in_window(ts, after));
                        if a == b && r.is_some() != a {
                            panic!("VERIF-SEARCH-HIT C05/frame/surfaced_only_within_the_timestamp_window timestamp=now{:+} (ts={} now={}) surfaced={} claimed_from={:?} source={:?}", off, ts, before, r.is_some(), claim, source);
                        }
                        match r {
                            None => {}
                            Some(P2PEvent::Message { topic, source: s, data }) => {
                                if s != source {
                                    panic!("VERIF-SEARCH-HIT C05/frame/source_is_the_authenticated_connection_identity attached={:?} connection={:?} claimed_from={:?}", s, source, claim);
                                }
                                if topic != msg.protocol || data != payload {
                                    panic!("VERIF-SEARCH-HIT C05/frame/topic_and_payload_come_from_the_frame");
                                }
                            }
                            Some(_) => panic!("VERIF-SEARCH-HIT C05/frame/only_message_events_are_produced"),
                        }
                    }
                }
            }
        }
        // hostile bytes: truncations and single-byte mutations of a valid frame, plus junk; must return
        let good = postcard::to_stdvec(&WireMessage { protocol: "t".into(), data: vec![1, 2, 3], from: "x".into(), timestamp: now_secs() }).expect("encode");
        let mut x = 0x9e37_79b9_7f4a_7c15u64 ^ seed.wrapping_mul(0x1000_0000_01b3) | 1;
        for i in 0..2000usize {
            x ^= x << 13;
            x ^= x >> 7;
            x ^= x << 17;
            let mut b = good.clone();
            match i % 4 {
                0 => b.truncate((x as usize) % (good.len() + 1)),
                1 => {
                    let p = (x as usize) % b.len();
                    b[p] = (x >> 8) as u8;
                }
                2 => b.extend((0..(x % 64)).map(|j| (x >> (j % 56)) as u8)),
                _ => b = (0..(x % 96)).map(|j| (x.rotate_left(j as u32)) as u8).collect(),
            }
            let res = std::panic::catch_unwind(|| parse_protocol_message(&b, "conn"));
            match res {
                Err(_) => panic!("VERIF-SEARCH-HIT C05/frame/returns_normally_for_every_byte_string bytes={:?}", b),
                Ok(Some(P2PEvent::Message { source, .. })) if source != "conn" => {
                    panic!("VERIF-SEARCH-HIT C05/frame/source_is_the_authenticated_connection_identity bytes={:?}", b)
                }
                Ok(_) => {}
            }
        }
        assert!(tried > 500);
    }
}
