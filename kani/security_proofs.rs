//! @module security::verif_proofs
//! Kani contracts for IPDiversityEnforcer (C13).
use super::*;
use std::mem::ManuallyDrop;

fn stub_random_state() -> std::hash::RandomState {
    unsafe { std::mem::transmute::<(u64, u64), std::hash::RandomState>((0x0123_4567_89ab_cdef, 0x0f1e_2d3c_4b5a_6978)) }
}
fn stub_format(_args: std::fmt::Arguments<'_>) -> String {
    String::new()
}

include!("/verif/kani/lru_model.rs");

/// An LruCache value whose memory is never read: every LruCache method the enforcer calls is
/// replaced by the dependency contract in lru_model (constructing a real one already defeats CBMC).
fn opaque_cache<K: std::hash::Hash + Eq, V>() -> LruCache<K, V> {
    unsafe { std::mem::MaybeUninit::<LruCache<K, V>>::uninit().assume_init() }
}

fn any_config() -> IPDiversityConfig {
    let c = IPDiversityConfig {
        max_nodes_per_64: kani::any(),
        max_nodes_per_48: kani::any(),
        max_nodes_per_32: kani::any(),
        max_nodes_per_ipv4_32: kani::any(),
        max_nodes_per_ipv4_24: kani::any(),
        max_nodes_per_ipv4_16: kani::any(),
        max_per_ip_cap: kani::any(),
        max_network_fraction: kani::any(),
        max_nodes_per_asn: kani::any(),
        enable_geolocation_check: kani::any(),
        min_geographic_diversity: kani::any(),
    };
    // every shipped configuration (default / testnet / permissive) and "small caps" have caps >= 1
    kani::assume(
        c.max_nodes_per_64 >= 1
            && c.max_nodes_per_48 >= 1
            && c.max_nodes_per_32 >= 1
            && c.max_nodes_per_ipv4_24 >= 1
            && c.max_nodes_per_ipv4_16 >= 1
            && c.max_per_ip_cap >= 1
            && c.max_nodes_per_asn >= 1,
    );
    c
}

fn mk_enforcer(cfg: IPDiversityConfig) -> ManuallyDrop<IPDiversityEnforcer> {
    lru_model::reset();
    let size: usize = kani::any();
    kani::assume(size <= (1usize << 40));
    ManuallyDrop::new(IPDiversityEnforcer {
        config: cfg,
        subnet_64_counts: opaque_cache(),
        subnet_48_counts: opaque_cache(),
        subnet_32_counts: opaque_cache(),
        ipv4_32_counts: opaque_cache(),
        ipv4_24_counts: opaque_cache(),
        ipv4_16_counts: opaque_cache(),
        asn_counts: opaque_cache(),
        country_counts: opaque_cache(),
        geo_provider: None,
        network_size: size,
    })
}

/// Optional pre-existing entry: (present, count).
fn seed<K: std::hash::Hash + Eq + Copy>(c: &mut LruCache<K, usize>, k: K) -> usize {
    if kani::any() {
        let n: usize = kani::any();
        // stored counts are >= 1 (remove_* deletes entries that reach zero) and far below usize::MAX
        kani::assume(n >= 1 && n < (1usize << 48));
        lru_model::M::put(c, k, n);
        n
    } else {
        0
    }
}
fn count_of<K: std::hash::Hash + Eq + Copy>(c: &LruCache<K, usize>, k: &K) -> usize {
    match lru_model::M::peek(c, k) {
        Some(n) => *n,
        None => 0,
    }
}

fn halve_if(strict: bool, cap: usize) -> usize {
    if strict {
        std::cmp::max(1, cap / 2)
    } else {
        cap
    }
}

struct V6Pre {
    a: IPAnalysis,
    o: Ipv6Addr,
    oasn: u32,
    c64: usize,
    c48: usize,
    c32: usize,
    casn: usize,
    o64: usize,
    o48: usize,
    o32: usize,
    oas: usize,
    o4: usize,
}

fn any_v6_analysis() -> IPAnalysis {
    IPAnalysis {
        subnet_64: Ipv6Addr::from(kani::any::<[u8; 16]>()),
        subnet_48: Ipv6Addr::from(kani::any::<[u8; 16]>()),
        subnet_32: Ipv6Addr::from(kani::any::<[u8; 16]>()),
        asn: kani::any(),
        country: None,
        is_hosting_provider: kani::any(),
        is_vpn_provider: kani::any(),
        reputation_score: 0.5,
    }
}

/// Candidate's keys with arbitrary existing counts + one unrelated key per map with arbitrary counts.
fn v6_pre(e: &mut IPDiversityEnforcer) -> V6Pre {
    let a = any_v6_analysis();
    let o = Ipv6Addr::from(kani::any::<[u8; 16]>());
    kani::assume(o != a.subnet_64 && o != a.subnet_48 && o != a.subnet_32);
    let oasn: u32 = kani::any();
    kani::assume(Some(oasn) != a.asn);
    let c64 = seed(&mut e.subnet_64_counts, a.subnet_64);
    let c48 = seed(&mut e.subnet_48_counts, a.subnet_48);
    let c32 = seed(&mut e.subnet_32_counts, a.subnet_32);
    let casn = match a.asn {
        Some(x) => seed(&mut e.asn_counts, x),
        None => 0,
    };
    let o64 = seed(&mut e.subnet_64_counts, o);
    let o48 = seed(&mut e.subnet_48_counts, o);
    let o32 = seed(&mut e.subnet_32_counts, o);
    let oas = seed(&mut e.asn_counts, oasn);
    let o4 = seed(&mut e.ipv4_24_counts, Ipv4Addr::new(10, 0, 0, 0));
    V6Pre { a, o, oasn, c64, c48, c32, casn, o64, o48, o32, oas, o4 }
}

fn v6_below_caps(e: &IPDiversityEnforcer, p: &V6Pre) -> bool {
    let strict = p.a.is_hosting_provider || p.a.is_vpn_provider;
    p.c64 < halve_if(strict, e.config.max_nodes_per_64)
        && p.c48 < halve_if(strict, e.config.max_nodes_per_48)
        && p.c32 < halve_if(strict, e.config.max_nodes_per_32)
        && (p.a.asn.is_none() || p.casn < halve_if(strict, e.config.max_nodes_per_asn))
}

fn v6_others_unchanged(e: &IPDiversityEnforcer, p: &V6Pre) -> bool {
    count_of(&e.subnet_64_counts, &p.o) == p.o64
        && count_of(&e.subnet_48_counts, &p.o) == p.o48
        && count_of(&e.subnet_32_counts, &p.o) == p.o32
        && count_of(&e.asn_counts, &p.oasn) == p.oas
        && count_of(&e.ipv4_24_counts, &Ipv4Addr::new(10, 0, 0, 0)) == p.o4
}

macro_rules! lru_harness {
    ($(#[$m:meta])* fn $name:ident() $body:block) => {
        #[kani::proof]
        #[kani::stub(lru::LruCache::peek, lru_model::M::peek)]
        #[kani::stub(lru::LruCache::get, lru_model::M::get)]
        #[kani::stub(lru::LruCache::put, lru_model::M::put)]
        #[kani::stub(lru::LruCache::pop, lru_model::M::pop)]
        #[kani::stub(alloc::fmt::format, stub_format)]
        #[kani::unwind(22)]
        $(#[$m])*
        fn $name() $body
    };
}

// @verif property=C13 class=complete fns=IPDiversityEnforcer::can_accept_node uses=v6_pre,v6_below_caps,lru_harness,mk_enforcer,any_config tier=off panic=violation
lru_harness! {
    fn c13_v6_can_accept_iff_below_caps() {
        let mut e = mk_enforcer(any_config());
        let p = v6_pre(&mut e);
        let r = e.can_accept_node(&p.a);
        kani::cover!(r, "C13/v6/cover_accept");
        kani::cover!(!r && p.a.is_hosting_provider, "C13/v6/cover_reject_hosting");
        assert!(r == v6_below_caps(&e, &p), "C13/v6/admitted_iff_every_level_below_its_cap");
        assert!(
            count_of(&e.subnet_64_counts, &p.a.subnet_64) == p.c64 && v6_others_unchanged(&e, &p),
            "C13/v6/can_accept_changes_nothing"
        );
    }
}

// @verif property=C13 class=complete fns=IPDiversityEnforcer::add_node uses=v6_pre,v6_below_caps,v6_others_unchanged,lru_harness,mk_enforcer,any_config tier=off panic=violation
lru_harness! {
    fn c13_v6_add_contract() {
        let mut e = mk_enforcer(any_config());
        let p = v6_pre(&mut e);
        let ok = v6_below_caps(&e, &p);
        let r = e.add_node(&p.a);
        let is_ok = r.is_ok();
        std::mem::forget(r);
        assert!(is_ok == ok, "C13/v6/add_succeeds_iff_below_caps");
        let d = if is_ok { 1 } else { 0 };
        assert!(count_of(&e.subnet_64_counts, &p.a.subnet_64) == p.c64 + d, "C13/v6/add_counts_64_exactly_or_consumes_none");
        assert!(count_of(&e.subnet_48_counts, &p.a.subnet_48) == p.c48 + d, "C13/v6/add_counts_48_exactly_or_consumes_none");
        assert!(count_of(&e.subnet_32_counts, &p.a.subnet_32) == p.c32 + d, "C13/v6/add_counts_32_exactly_or_consumes_none");
        if let Some(x) = p.a.asn {
            assert!(count_of(&e.asn_counts, &x) == p.casn + d, "C13/v6/add_counts_asn_exactly_or_consumes_none");
        }
        assert!(v6_others_unchanged(&e, &p), "C13/v6/add_leaves_other_keys_unchanged");
        if is_ok {
            let strict = p.a.is_hosting_provider || p.a.is_vpn_provider;
            assert!(
                count_of(&e.subnet_64_counts, &p.a.subnet_64) <= halve_if(strict, e.config.max_nodes_per_64)
                    && count_of(&e.subnet_48_counts, &p.a.subnet_48) <= halve_if(strict, e.config.max_nodes_per_48)
                    && count_of(&e.subnet_32_counts, &p.a.subnet_32) <= halve_if(strict, e.config.max_nodes_per_32),
                "C13/v6/caps_never_exceeded_after_admission"
            );
        }
    }
}

// @verif property=C13 class=complete fns=IPDiversityEnforcer::remove_node uses=v6_pre,v6_others_unchanged,lru_harness,mk_enforcer,any_config tier=off panic=violation
lru_harness! {
    fn c13_v6_remove_contract() {
        let mut e = mk_enforcer(any_config());
        let p = v6_pre(&mut e);
        e.remove_node(&p.a);
        assert!(count_of(&e.subnet_64_counts, &p.a.subnet_64) == p.c64.saturating_sub(1), "C13/v6/remove_returns_64_slot");
        assert!(count_of(&e.subnet_48_counts, &p.a.subnet_48) == p.c48.saturating_sub(1), "C13/v6/remove_returns_48_slot");
        assert!(count_of(&e.subnet_32_counts, &p.a.subnet_32) == p.c32.saturating_sub(1), "C13/v6/remove_returns_32_slot");
        if let Some(x) = p.a.asn {
            assert!(count_of(&e.asn_counts, &x) == p.casn.saturating_sub(1), "C13/v6/remove_returns_asn_slot");
        }
        if p.c64 == 1 {
            assert!(lru_model::M::peek(&e.subnet_64_counts, &p.a.subnet_64).is_none(), "C13/v6/remove_drops_zero_entries");
        }
        assert!(v6_others_unchanged(&e, &p), "C13/v6/remove_leaves_other_keys_unchanged");
    }
}

// @verif property=C13 class=complete fns=IPDiversityEnforcer::add_node,IPDiversityEnforcer::remove_node uses=v6_pre,lru_harness,mk_enforcer,any_config tier=off panic=violation
lru_harness! {
    fn c13_v6_add_then_remove_is_identity() {
        let mut e = mk_enforcer(any_config());
        let p = v6_pre(&mut e);
        let r = e.add_node(&p.a);
        let is_ok = r.is_ok();
        std::mem::forget(r);
        if is_ok {
            e.remove_node(&p.a);
            assert!(
                count_of(&e.subnet_64_counts, &p.a.subnet_64) == p.c64
                    && count_of(&e.subnet_48_counts, &p.a.subnet_48) == p.c48
                    && count_of(&e.subnet_32_counts, &p.a.subnet_32) == p.c32
                    && (p.a.asn.is_none() || count_of(&e.asn_counts, &p.a.asn.unwrap()) == p.casn),
                "C13/v6/removing_an_admitted_node_gives_its_slots_back"
            );
            assert!(v6_others_unchanged(&e, &p), "C13/v6/add_remove_leaves_other_keys_unchanged");
        }
    }
}

// ------------------------------- IPv4 -------------------------------------------------

struct V4Pre {
    a: IPv4Analysis,
    o: Ipv4Addr,
    oasn: u32,
    c32: usize,
    c24: usize,
    c16: usize,
    casn: usize,
    o32: usize,
    o24: usize,
    o16: usize,
    oas: usize,
    o6: usize,
}

fn any_v4() -> Ipv4Addr {
    let q: [u8; 4] = kani::any();
    Ipv4Addr::new(q[0], q[1], q[2], q[3])
}

fn v4_pre(e: &mut IPDiversityEnforcer) -> V4Pre {
    let a = IPv4Analysis {
        ip_addr: any_v4(),
        subnet_24: any_v4(),
        subnet_16: any_v4(),
        subnet_8: any_v4(),
        asn: kani::any(),
        country: None,
        is_hosting_provider: kani::any(),
        is_vpn_provider: kani::any(),
        reputation_score: 0.5,
    };
    let o = any_v4();
    kani::assume(o != a.ip_addr && o != a.subnet_24 && o != a.subnet_16);
    let oasn: u32 = kani::any();
    kani::assume(Some(oasn) != a.asn);
    let c32 = seed(&mut e.ipv4_32_counts, a.ip_addr);
    let c24 = seed(&mut e.ipv4_24_counts, a.subnet_24);
    let c16 = seed(&mut e.ipv4_16_counts, a.subnet_16);
    let casn = match a.asn {
        Some(x) => seed(&mut e.asn_counts, x),
        None => 0,
    };
    let o32 = seed(&mut e.ipv4_32_counts, o);
    let o24 = seed(&mut e.ipv4_24_counts, o);
    let o16 = seed(&mut e.ipv4_16_counts, o);
    let oas = seed(&mut e.asn_counts, oasn);
    let o6 = seed(&mut e.subnet_64_counts, Ipv6Addr::new(0x2001, 0xdb8, 0, 0, 0, 0, 0, 0));
    V4Pre { a, o, oasn, c32, c24, c16, casn, o32, o24, o16, oas, o6 }
}

/// Caps of the statement: per-address cap from the network-size rule, /24 = min(cfg, 3x), /16 =
/// min(cfg, 10x), all halved (minimum one) for hosting/VPN candidates, ASN cap halved likewise.
fn v4_below_caps(e: &IPDiversityEnforcer, p: &V4Pre, per_ip: usize) -> bool {
    let strict = p.a.is_hosting_provider || p.a.is_vpn_provider;
    let l32 = halve_if(strict, per_ip);
    let l24 = halve_if(strict, std::cmp::min(e.config.max_nodes_per_ipv4_24, per_ip * 3));
    let l16 = halve_if(strict, std::cmp::min(e.config.max_nodes_per_ipv4_16, per_ip * 10));
    p.c32 < l32 && p.c24 < l24 && p.c16 < l16 && (p.a.asn.is_none() || p.casn < halve_if(strict, e.config.max_nodes_per_asn))
}

fn v4_others_unchanged(e: &IPDiversityEnforcer, p: &V4Pre) -> bool {
    count_of(&e.ipv4_32_counts, &p.o) == p.o32
        && count_of(&e.ipv4_24_counts, &p.o) == p.o24
        && count_of(&e.ipv4_16_counts, &p.o) == p.o16
        && count_of(&e.asn_counts, &p.oasn) == p.oas
        && count_of(&e.subnet_64_counts, &Ipv6Addr::new(0x2001, 0xdb8, 0, 0, 0, 0, 0, 0)) == p.o6
}

// The per-address cap is a pure function of (network size, configuration); harnesses below take it
// from the real get_per_ip_limit (whose own contract is c13_per_ip_limit_contract) through this stub,
// so the float arithmetic is decided once, not in every harness.
static mut PER_IP: usize = 1;
fn contract_stub_per_ip_limit(_e: &IPDiversityEnforcer) -> usize {
    unsafe { PER_IP }
}
fn any_per_ip(e: &IPDiversityEnforcer) -> usize {
    let p: usize = kani::any();
    // contract of get_per_ip_limit: 1 <= p <= max_per_ip_cap (and p <= max(1, network_size) <= 2^40)
    kani::assume(p >= 1 && p <= e.config.max_per_ip_cap && p <= (1usize << 40));
    unsafe {
        PER_IP = p;
    }
    p
}

macro_rules! lru_harness_v4 {
    ($(#[$m:meta])* fn $name:ident() $body:block) => {
        #[kani::proof]
        #[kani::stub(lru::LruCache::peek, lru_model::M::peek)]
        #[kani::stub(lru::LruCache::get, lru_model::M::get)]
        #[kani::stub(lru::LruCache::put, lru_model::M::put)]
        #[kani::stub(lru::LruCache::pop, lru_model::M::pop)]
        #[kani::stub(alloc::fmt::format, stub_format)]
        #[kani::stub(IPDiversityEnforcer::get_per_ip_limit, contract_stub_per_ip_limit)]
        #[kani::unwind(22)]
        $(#[$m])*
        fn $name() $body
    };
}

// @verif property=C13 class=complete fns=IPDiversityEnforcer::can_accept_ipv4,IPDiversityEnforcer::can_accept_unified uses=v4_pre,v4_below_caps,lru_harness_v4,mk_enforcer,any_config,any_per_ip tier=off panic=violation
lru_harness_v4! {
    fn c13_v4_can_accept_iff_below_caps() {
        let mut e = mk_enforcer(any_config());
        let p = v4_pre(&mut e);
        let per_ip = any_per_ip(&e);
        let r = e.can_accept_ipv4(&p.a);
        kani::cover!(r, "C13/v4/cover_accept");
        kani::cover!(!r && p.c24 < e.config.max_nodes_per_ipv4_24, "C13/v4/cover_reject_by_scaled_cap");
        let strict = p.a.is_hosting_provider || p.a.is_vpn_provider;
        // levels other than the ASN cap
        let l32 = halve_if(strict, per_ip);
        let l24 = halve_if(strict, std::cmp::min(e.config.max_nodes_per_ipv4_24, per_ip * 3));
        let l16 = halve_if(strict, std::cmp::min(e.config.max_nodes_per_ipv4_16, per_ip * 10));
        let subnets_below = p.c32 < l32 && p.c24 < l24 && p.c16 < l16;
        if !subnets_below {
            assert!(!r, "C13/v4/rejected_when_an_address_level_is_at_its_cap");
        }
        if p.a.asn.is_none() {
            assert!(r == subnets_below, "C13/v4/admitted_iff_every_address_level_below_its_cap");
        }
        assert!(r == v4_below_caps(&e, &p, per_ip), "C13/v4/asn_cap_halved_for_hosting_or_vpn");
        assert!(v4_others_unchanged(&e, &p) && count_of(&e.ipv4_32_counts, &p.a.ip_addr) == p.c32, "C13/v4/can_accept_changes_nothing");
    }
}

// @verif property=C13 class=complete fns=IPDiversityEnforcer::add_ipv4,IPDiversityEnforcer::add_unified uses=v4_pre,v4_others_unchanged,lru_harness_v4,mk_enforcer,any_config,any_per_ip tier=off panic=violation
lru_harness_v4! {
    fn c13_v4_add_contract() {
        let mut e = mk_enforcer(any_config());
        let p = v4_pre(&mut e);
        let _per_ip = any_per_ip(&e);
        let could = e.can_accept_ipv4(&p.a);
        let ua = UnifiedIPAnalysis::IPv4(p.a.clone());
        let r = e.add_unified(&ua);
        std::mem::forget(ua);
        let is_ok = r.is_ok();
        std::mem::forget(r);
        assert!(is_ok == could, "C13/v4/add_succeeds_iff_can_accept");
        let d = if is_ok { 1 } else { 0 };
        assert!(count_of(&e.ipv4_32_counts, &p.a.ip_addr) == p.c32 + d, "C13/v4/add_counts_address_exactly_or_consumes_none");
        assert!(count_of(&e.ipv4_24_counts, &p.a.subnet_24) == p.c24 + d, "C13/v4/add_counts_24_exactly_or_consumes_none");
        assert!(count_of(&e.ipv4_16_counts, &p.a.subnet_16) == p.c16 + d, "C13/v4/add_counts_16_exactly_or_consumes_none");
        if let Some(x) = p.a.asn {
            assert!(count_of(&e.asn_counts, &x) == p.casn + d, "C13/v4/add_counts_asn_exactly_or_consumes_none");
        }
        assert!(v4_others_unchanged(&e, &p), "C13/v4/add_leaves_other_keys_unchanged");
    }
}

// @verif property=C13 class=complete fns=IPDiversityEnforcer::remove_ipv4,IPDiversityEnforcer::remove_unified uses=v4_pre,v4_others_unchanged,lru_harness_v4,mk_enforcer,any_config tier=off panic=violation
lru_harness_v4! {
    fn c13_v4_remove_contract() {
        let mut e = mk_enforcer(any_config());
        let p = v4_pre(&mut e);
        let ua = UnifiedIPAnalysis::IPv4(p.a.clone());
        e.remove_unified(&ua);
        std::mem::forget(ua);
        assert!(count_of(&e.ipv4_32_counts, &p.a.ip_addr) == p.c32.saturating_sub(1), "C13/v4/remove_returns_address_slot");
        assert!(count_of(&e.ipv4_24_counts, &p.a.subnet_24) == p.c24.saturating_sub(1), "C13/v4/remove_returns_24_slot");
        assert!(count_of(&e.ipv4_16_counts, &p.a.subnet_16) == p.c16.saturating_sub(1), "C13/v4/remove_returns_16_slot");
        if let Some(x) = p.a.asn {
            assert!(count_of(&e.asn_counts, &x) == p.casn.saturating_sub(1), "C13/v4/remove_returns_asn_slot");
        }
        assert!(v4_others_unchanged(&e, &p), "C13/v4/remove_leaves_other_keys_unchanged");
    }
}

// ------------------------------- pure helpers -----------------------------------------

// @verif property=C13 class=complete fns=IPDiversityEnforcer::extract_subnet_prefix tier=quick,thorough panic=violation
#[kani::proof]
#[kani::unwind(18)]
fn c13_extract_subnet_prefix() {
    let o: [u8; 16] = kani::any();
    let plen: u8 = kani::any();
    let r = IPDiversityEnforcer::extract_subnet_prefix(Ipv6Addr::from(o), plen).octets();
    // bit i (0 = most significant) is kept iff i < prefix_len
    let i: usize = kani::any();
    kani::assume(i < 128);
    let got = (r[i / 8] >> (7 - (i % 8))) & 1;
    let want = if (i as u32) < (plen as u32) { (o[i / 8] >> (7 - (i % 8))) & 1 } else { 0 };
    assert!(got == want, "C13/prefix/keeps_exactly_the_first_prefix_len_bits");
}

// @verif property=C13 class=complete fns=IPDiversityEnforcer::analyze_ip,IPDiversityEnforcer::analyze_ipv4,IPDiversityEnforcer::analyze_unified tier=quick,thorough panic=violation
#[kani::proof]
#[kani::unwind(18)]
fn c13_analysis_keys_are_prefixes() {
    let e = mk_enforcer(any_config());
    let o: [u8; 16] = kani::any();
    let a = ManuallyDrop::new(e.analyze_ip(Ipv6Addr::from(o)));
    let i: usize = kani::any();
    kani::assume(i < 16);
    if let Ok(a) = &*a {
        assert!(a.subnet_64.octets()[i] == if i < 8 { o[i] } else { 0 }, "C13/analyze/v6_64_key_is_the_64_bit_prefix");
        assert!(a.subnet_48.octets()[i] == if i < 6 { o[i] } else { 0 }, "C13/analyze/v6_48_key_is_the_48_bit_prefix");
        assert!(a.subnet_32.octets()[i] == if i < 4 { o[i] } else { 0 }, "C13/analyze/v6_32_key_is_the_32_bit_prefix");
    }
    assert!(a.is_ok(), "C13/analyze/v6_analysis_succeeds");
    let q: [u8; 4] = kani::any();
    let b = ManuallyDrop::new(e.analyze_ipv4(Ipv4Addr::new(q[0], q[1], q[2], q[3])));
    if let Ok(b) = &*b {
        assert!(b.ip_addr.octets() == q, "C13/analyze/v4_address_key");
        assert!(b.subnet_24.octets() == [q[0], q[1], q[2], 0], "C13/analyze/v4_24_key");
        assert!(b.subnet_16.octets() == [q[0], q[1], 0, 0], "C13/analyze/v4_16_key");
    }
    assert!(b.is_ok(), "C13/analyze/v4_analysis_succeeds");
}

// @verif property=C13 class=complete fns=IPDiversityEnforcer::get_per_ip_limit,IPDiversityEnforcer::set_network_size tier=quick,thorough panic=violation
#[kani::proof]
#[kani::unwind(4)]
fn c13_per_ip_limit_contract() {
    let mut e = mk_enforcer(any_config());
    let size: usize = kani::any();
    kani::assume(size <= (1usize << 40));
    e.set_network_size(size);
    assert!(e.get_network_size() == size, "C13/per_ip/network_size_is_stored");
    let f = e.config.max_network_fraction;
    kani::assume(f >= 0.0 && f <= 1.0);
    let r = e.get_per_ip_limit();
    assert!(r >= 1 && r <= e.config.max_per_ip_cap, "C13/per_ip/between_one_and_the_hard_cap");
    assert!(r <= std::cmp::max(1, size), "C13/per_ip/never_more_than_the_network_size_rule_allows");
}

// @verif property=C13 class=complete fns=IPDiversityEnforcer::get_per_ip_limit tier=thorough panic=violation
#[kani::proof]
#[kani::unwind(4)]
fn c13_per_ip_limit_exact() {
    let e = mk_enforcer(any_config());
    let f = e.config.max_network_fraction;
    kani::assume(f >= 0.0 && f <= 1.0);
    let r = e.get_per_ip_limit();
    // the network-size rule: min(cap, max(1, floor(size * fraction)))
    let want = std::cmp::min(e.config.max_per_ip_cap, std::cmp::max(1, (e.network_size as f64 * f).floor() as usize));
    assert!(r == want, "C13/per_ip/is_min_of_cap_and_floor_of_size_times_fraction");
}

// ---------------------------------------------------------------------------------------------
// NATIVE FAILING-INPUT SEARCH for C13 (used to attach a concrete history to a failed obligation of the
// Verus unit `ipdiv`, and to decide when that proof no longer goes through): random interleavings of
// add / remove / set-network-size over a handful of IPv6 and IPv4 addresses sharing prefixes, with
// small caps, checked against a counting model written from the statement.
// ---------------------------------------------------------------------------------------------
#[cfg(test)]
mod search {
    use super::*;
    use std::collections::HashMap as Map;

    struct Rng(u64);
    impl Rng {
        fn next(&mut self) -> u64 {
            self.0 ^= self.0 << 13;
            self.0 ^= self.0 >> 7;
            self.0 ^= self.0 << 17;
            self.0
        }
        fn below(&mut self, n: u64) -> u64 {
            self.next() % n
        }
    }
    fn half(cap: usize, strict: bool) -> usize {
        if strict { std::cmp::max(1, cap / 2) } else { cap }
    }

    #[derive(Default)]
    struct Model {
        c64: Map<Ipv6Addr, usize>,
        c48: Map<Ipv6Addr, usize>,
        c32: Map<Ipv6Addr, usize>,
        v4_32: Map<Ipv4Addr, usize>,
        v4_24: Map<Ipv4Addr, usize>,
        v4_16: Map<Ipv4Addr, usize>,
        asn: Map<u32, usize>,
    }

    #[test]
    fn verif_search_c13() {
        let seed: u64 = std::env::var("VERIF_SEED").ok().and_then(|s| s.parse().ok()).unwrap_or(0);
        let mut r = Rng(0x9e37_79b9_7f4a_7c15 ^ seed.wrapping_mul(0x1000_0000_01b3) | 1);
        let rounds: usize = std::env::var("VERIF_SEARCH_ROUNDS").ok().and_then(|s| s.parse().ok()).unwrap_or(1500);
        for round in 0..rounds {
            let cfg = IPDiversityConfig {
                max_nodes_per_64: 1 + r.below(3) as usize,
                max_nodes_per_48: 1 + r.below(5) as usize,
                max_nodes_per_32: 1 + r.below(7) as usize,
                max_nodes_per_ipv4_32: 1 + r.below(3) as usize,
                max_nodes_per_ipv4_24: 1 + r.below(6) as usize,
                max_nodes_per_ipv4_16: 1 + r.below(9) as usize,
                max_per_ip_cap: 1 + r.below(4) as usize,
                max_network_fraction: [0.005, 0.01, 0.5][r.below(3) as usize],
                max_nodes_per_asn: 1 + r.below(7) as usize,
                ..IPDiversityConfig::default()
            };
            let mut e = IPDiversityEnforcer::new(cfg.clone());
            let mut m = Model::default();
            let mut net = 0usize;
            let mut hist = String::new();
            let mut admitted6: Vec<IPAnalysis> = Vec::new();
            let mut admitted4: Vec<IPv4Analysis> = Vec::new();
            for _ in 0..(1 + r.below(40)) {
                match r.below(10) {
                    0 => {
                        net = [0usize, 100, 200, 400, 1000, 100_000][r.below(6) as usize];
                        e.set_network_size(net);
                        hist.push_str(&format!("size({}) ", net));
                    }
                    1 | 2 if !admitted6.is_empty() => {
                        let a = admitted6.swap_remove(r.below(admitted6.len() as u64) as usize);
                        e.remove_node(&a);
                        for (mp, k) in [(&mut m.c64, a.subnet_64), (&mut m.c48, a.subnet_48), (&mut m.c32, a.subnet_32)] {
                            let c = mp.get(&k).copied().unwrap_or(0);
                            if c <= 1 { mp.remove(&k); } else { mp.insert(k, c - 1); }
                        }
                        if let Some(asn) = a.asn {
                            let c = m.asn.get(&asn).copied().unwrap_or(0);
                            if c <= 1 { m.asn.remove(&asn); } else { m.asn.insert(asn, c - 1); }
                        }
                        hist.push_str(&format!("rm6({}) ", a.subnet_64));
                    }
                    3 if !admitted4.is_empty() => {
                        let a = admitted4.swap_remove(r.below(admitted4.len() as u64) as usize);
                        e.remove_ipv4(&a);
                        for (mp, k) in [(&mut m.v4_32, a.ip_addr), (&mut m.v4_24, a.subnet_24), (&mut m.v4_16, a.subnet_16)] {
                            let c = mp.get(&k).copied().unwrap_or(0);
                            if c <= 1 { mp.remove(&k); } else { mp.insert(k, c - 1); }
                        }
                        if let Some(asn) = a.asn {
                            let c = m.asn.get(&asn).copied().unwrap_or(0);
                            if c <= 1 { m.asn.remove(&asn); } else { m.asn.insert(asn, c - 1); }
                        }
                        hist.push_str(&format!("rm4({}) ", a.ip_addr));
                    }
                    4 | 5 | 6 => {
                        // IPv6 candidate: 2 /32s x 2 /48s x 3 /64s (4th hextet non-zero so /64 != /48)
                        let addr = Ipv6Addr::new(0x2001, 0xdb8 + r.below(2) as u16, 0xaa00 + r.below(2) as u16, 1 + r.below(3) as u16, 0, 0, 0, 1 + r.below(4) as u16);
                        let mut a = e.analyze_ip(addr).expect("analysis");
                        a.asn = [None, Some(64500), Some(64501)][r.below(3) as usize];
                        a.is_hosting_provider = r.below(3) == 0;
                        a.is_vpn_provider = r.below(5) == 0;
                        let strict = a.is_hosting_provider || a.is_vpn_provider;
                        let below = m.c64.get(&a.subnet_64).copied().unwrap_or(0) < half(cfg.max_nodes_per_64, strict)
                            && m.c48.get(&a.subnet_48).copied().unwrap_or(0) < half(cfg.max_nodes_per_48, strict)
                            && m.c32.get(&a.subnet_32).copied().unwrap_or(0) < half(cfg.max_nodes_per_32, strict)
                            && a.asn.is_none_or(|x| m.asn.get(&x).copied().unwrap_or(0) < half(cfg.max_nodes_per_asn, strict));
                        let can = e.can_accept_node(&a);
                        let ok = e.add_node(&a).is_ok();
                        hist.push_str(&format!("add6({} asn={:?} strict={})={} ", addr, a.asn, strict, ok));
                        if can != below || ok != below {
                            panic!("VERIF-SEARCH-HIT C13/v6/admitted_iff_every_level_below_its_cap round={} expected_admit={} can_accept={} add_ok={} caps(64/48/32/asn)={}/{}/{}/{} history=[{}]", round, below, can, ok, cfg.max_nodes_per_64, cfg.max_nodes_per_48, cfg.max_nodes_per_32, cfg.max_nodes_per_asn, hist);
                        }
                        if ok {
                            *m.c64.entry(a.subnet_64).or_insert(0) += 1;
                            *m.c48.entry(a.subnet_48).or_insert(0) += 1;
                            *m.c32.entry(a.subnet_32).or_insert(0) += 1;
                            if let Some(x) = a.asn { *m.asn.entry(x).or_insert(0) += 1; }
                            admitted6.push(a);
                        }
                    }
                    _ => {
                        let addr = Ipv4Addr::new(10, r.below(2) as u8, r.below(2) as u8, 1 + r.below(3) as u8);
                        let mut a = e.analyze_ipv4(addr).expect("analysis");
                        a.asn = [None, Some(64500), Some(64501)][r.below(3) as usize];
                        a.is_hosting_provider = r.below(3) == 0;
                        a.is_vpn_provider = r.below(5) == 0;
                        let strict = a.is_hosting_provider || a.is_vpn_provider;
                        let per_ip = std::cmp::min(cfg.max_per_ip_cap, std::cmp::max(1, (net as f64 * cfg.max_network_fraction).floor() as usize));
                        let l32 = half(per_ip, strict); // the /32 cap is the network-size rule itself: min(max_per_ip_cap, max(1, floor(size * fraction)))
                        let l24 = half(std::cmp::min(cfg.max_nodes_per_ipv4_24, per_ip * 3), strict);
                        let l16 = half(std::cmp::min(cfg.max_nodes_per_ipv4_16, per_ip * 10), strict);
                        let below = m.v4_32.get(&a.ip_addr).copied().unwrap_or(0) < l32
                            && m.v4_24.get(&a.subnet_24).copied().unwrap_or(0) < l24
                            && m.v4_16.get(&a.subnet_16).copied().unwrap_or(0) < l16
                            && a.asn.is_none_or(|x| m.asn.get(&x).copied().unwrap_or(0) < half(cfg.max_nodes_per_asn, strict));
                        let can = e.can_accept_ipv4(&a);
                        let ok = e.add_ipv4(&a).is_ok();
                        hist.push_str(&format!("add4({} asn={:?} strict={})={} ", addr, a.asn, strict, ok));
                        if can != below || ok != below {
                            panic!("VERIF-SEARCH-HIT C13/v4/admitted_iff_every_level_below_its_scaled_cap round={} expected_admit={} can_accept={} add_ok={} limits(32/24/16)={}/{}/{} net={} history=[{}]", round, below, can, ok, l32, l24, l16, net, hist);
                        }
                        if ok {
                            *m.v4_32.entry(a.ip_addr).or_insert(0) += 1;
                            *m.v4_24.entry(a.subnet_24).or_insert(0) += 1;
                            *m.v4_16.entry(a.subnet_16).or_insert(0) += 1;
                            if let Some(x) = a.asn { *m.asn.entry(x).or_insert(0) += 1; }
                            admitted4.push(a);
                        }
                    }
                }
            }
        }
    }
}

#[cfg(test)]
include!("/verif/.build/replay/security.rs");
