//! @module peer_record::verif_proofs
//! C09. The deciding engine is the Verus unit `peerrec`. This module holds the NATIVE FAILING-INPUT
//! SEARCH used to attach a concrete input to a failed obligation (Verus gives no counterexample) and
//! to decide when the proof no longer goes through for a reason other than a tagged postcondition.
#![allow(unused_imports)]
use super::*;

#[cfg(test)]
mod search {
    use super::*;
    use crate::quantum_crypto::generate_ml_dsa_keypair;

    struct Rng(u64);
    impl Rng {
        fn next(&mut self) -> u64 {
            self.0 ^= self.0 << 13;
            self.0 ^= self.0 >> 7;
            self.0 ^= self.0 << 17;
            self.0
        }
        fn below(&mut self, n: u64) -> u64 {
            self.next() % n
        }
    }

    fn endpoint(addr: &str) -> PeerEndpoint {
        let mut e = PeerEndpoint::new(EndpointId::new(), addr.parse().expect("addr"), NatType::FullCone, vec!["c1".to_string()], Some("dev".to_string()));
        e.last_updated = 1_700_000_000;
        e
    }

    fn genuine(seq: u64, name: Option<&str>, n_endpoints: usize, ttl: u32) -> (PeerDHTRecord, MlDsaSecretKey) {
        let (pk, sk) = generate_ml_dsa_keypair().expect("keygen");
        let id = UserId::from_public_key(&pk);
        let eps: Vec<PeerEndpoint> = (0..n_endpoints).map(|i| endpoint(&format!("192.168.1.{}:8080", i + 1))).collect();
        let mut r = PeerDHTRecord::new(id, pk, seq, name.map(|s| s.to_string()), eps, ttl).expect("valid inputs");
        r.sign(&sk).expect("sign");
        (r, sk)
    }

    /// field-level mutations that keep (id, sequence, timestamp) and/or the signature
    fn mutants(r: &PeerDHTRecord, other: &PeerDHTRecord) -> Vec<(&'static str, PeerDHTRecord)> {
        let mut v = Vec::new();
        let mut m = r.clone();
        m.endpoints = vec![endpoint("10.66.66.66:9999")];
        v.push(("endpoints", m));
        let mut m = r.clone();
        m.name = Some("mallory".to_string());
        v.push(("name", m));
        let mut m = r.clone();
        m.name = None;
        v.push(("name-none", m));
        let mut m = r.clone();
        m.ttl = if r.ttl == MAX_TTL_SECONDS { 1 } else { MAX_TTL_SECONDS };
        v.push(("lifetime", m));
        let mut m = r.clone();
        m.sequence_number = r.sequence_number + 1;
        v.push(("sequence", m));
        let mut m = r.clone();
        m.timestamp = r.timestamp + 1;
        v.push(("timestamp", m));
        let mut m = r.clone();
        m.version = r.version.wrapping_add(1);
        v.push(("version", m));
        // coordinated two-field mutations (a signable encoding that merges fields would miss these)
        let mut m = r.clone();
        m.timestamp = r.timestamp + 7;
        m.ttl = r.ttl - 7;
        v.push(("timestamp+7 and lifetime-7", m));
        let mut m = r.clone();
        m.timestamp = r.timestamp - 100;
        m.ttl = r.ttl + 100;
        v.push(("timestamp-100 and lifetime+100", m));
        let mut m = r.clone();
        m.sequence_number = r.sequence_number + 1;
        m.timestamp = r.timestamp - 1;
        v.push(("sequence+1 and timestamp-1", m));
        let mut m = r.clone();
        m.public_key = other.public_key.clone();
        v.push(("key", m));
        let mut m = r.clone();
        m.user_id = other.user_id.clone();
        v.push(("id", m));
        let mut m = r.clone();
        m.user_id = other.user_id.clone();
        m.public_key = other.public_key.clone();
        v.push(("id+key (foreign owner, stolen signature)", m));
        let mut m = r.clone();
        m.signature = other.signature.clone();
        v.push(("signature", m));
        v
    }

    #[test]
    fn verif_search_c09() {
        let seed: u64 = std::env::var("VERIF_SEED").ok().and_then(|s| s.parse().ok()).unwrap_or(0);
        let mut rng = Rng(0x9e37_79b9_7f4a_7c15 ^ seed.wrapping_mul(0x1000_0000_01b3) | 1);
        // ---- construction bounds (name length, 1..16 endpoints, lifetime 1 s..24 h)
        let ep = endpoint("192.168.1.1:8080");
        for (name_len, n_eps, ttl) in [(None, 1usize, 1u32), (Some(0usize), 1, 300), (Some(1), 1, 300), (Some(255), 16, 86_400), (Some(256), 1, 300), (None, 0, 300), (None, 16, 300), (None, 17, 300), (None, 1, 0), (None, 1, 86_400), (None, 1, 86_401), (None, 1, u32::MAX)] {
            let name = name_len.map(|n| "n".repeat(n));
            let want = name_len.is_none_or(|n| (1..=255).contains(&n)) && (1..=16).contains(&n_eps) && (1..=86_400).contains(&ttl);
            let got = PeerDHTRecord::validate_inputs(&name, &vec![ep.clone(); n_eps], ttl).is_ok();
            if got != want {
                panic!("VERIF-SEARCH-HIT C09/bounds/construction_accepts_exactly_the_documented_bounds name_len={:?} endpoints={} ttl={} accepted={}", name_len, n_eps, ttl, got);
            }
        }
        // ---- direct verification: genuine accepted, every field-level mutant rejected
        let (r, _) = genuine(7, Some("alice"), 2, DEFAULT_TTL_SECONDS);
        let (o, _) = genuine(7, Some("alice"), 2, DEFAULT_TTL_SECONDS);
        if r.verify_signature().is_err() {
            panic!("VERIF-SEARCH-HIT C09/verify/succeeds_iff_id_derived_from_key_and_signature_covers_this_record genuine record rejected");
        }
        let ms = mutants(&r, &o);
        for (what, m) in &ms {
            if m.verify_signature().is_ok() {
                panic!("VERIF-SEARCH-HIT C09/verify/succeeds_iff_id_derived_from_key_and_signature_covers_this_record record with altered {} accepted", what);
            }
        }
        // ---- cache: every interleaving sampled must give the direct verdict, all small capacities
        let mut pool: Vec<(String, PeerDHTRecord)> = vec![("genuine".into(), r.clone()), ("other-genuine".into(), o.clone())];
        pool.extend(ms.into_iter().map(|(w, m)| (w.to_string(), m)));
        for cap in [1usize, 2, 3, 5, 64] {
            for _ in 0..40 {
                let mut cache = SignatureCache::new(cap);
                let mut hist = String::new();
                for _ in 0..(2 + rng.below(10)) {
                    let (w, rec) = &pool[rng.below(pool.len() as u64) as usize];
                    hist.push_str(w);
                    hist.push_str(", ");
                    let direct = rec.verify_signature().is_ok();
                    let cached = cache.verify_cached(rec).is_ok();
                    if direct != cached {
                        panic!("VERIF-SEARCH-HIT C09/cache/cached_verdict_equals_direct_verification capacity={} direct={} cached={} history=[{}]", cap, direct, cached, hist);
                    }
                }
            }
        }
    }
}
