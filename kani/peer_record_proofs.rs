//! @module peer_record::verif_proofs
//! Kani contracts and proof harnesses for this module (child module, cfg(kani) only).
#![allow(unused_imports)]
use super::*;
