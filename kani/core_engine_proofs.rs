//! @module dht::core_engine::verif_proofs
//! Kani contracts and proof harnesses for src/dht/core_engine.rs (C02, C16 routing part).
//! Compiled only under cfg(kani), as a child module of `dht::core_engine`, so the
//! harnesses see the private routing-table types. Spec functions below are written
//! from the property statement, not from the code.
use super::*;
use std::mem::ManuallyDrop;

// ---------------------------------------------------------------------------
// Spec functions
// ---------------------------------------------------------------------------

/// `r` is the byte-wise XOR of `a` and `b`.
pub(super) fn spec_is_xor(a: &[u8; 32], b: &[u8; 32], r: &[u8; 32]) -> bool {
    let mut i = 0;
    while i < 32 {
        if r[i] != a[i] ^ b[i] {
            return false;
        }
        i += 1;
    }
    true
}

fn bit(k: &[u8; 32], i: usize) -> bool {
    (k[i / 8] >> (7 - (i % 8))) & 1 == 1
}

/// Index of the most significant bit in which `a` and `b` differ; 255 if equal.
pub(super) fn spec_first_diff(a: &[u8; 32], b: &[u8; 32]) -> usize {
    let mut i = 0;
    while i < 256 {
        if bit(a, i) != bit(b, i) {
            return i;
        }
        i += 1;
    }
    255
}

/// Lexicographic (big-endian) comparison of 256-bit XOR distances to `key`.
fn dist_lt(a: &[u8; 32], b: &[u8; 32], key: &[u8; 32]) -> bool {
    let mut i = 0;
    while i < 32 {
        let da = a[i] ^ key[i];
        let db = b[i] ^ key[i];
        if da != db {
            return da < db;
        }
        i += 1;
    }
    false
}

#[allow(dead_code)]
fn mk_node_seen(id: [u8; 32], secs: u64) -> NodeInfo {
    let mut n = mk_node(id);
    n.last_seen = SystemTime::UNIX_EPOCH + std::time::Duration::from_secs(secs);
    n
}

fn mk_node(id: [u8; 32]) -> NodeInfo {
    NodeInfo {
        id: NodeId::from_bytes(id),
        address: String::new(),
        last_seen: SystemTime::UNIX_EPOCH,
        capacity: NodeCapacity {
            storage_available: 0,
            bandwidth_available: 0,
            reliability_score: 0.0,
        },
    }
}

fn empty_table(self_id: [u8; 32], k: usize) -> KademliaRoutingTable {
    KademliaRoutingTable::new(NodeId::from_bytes(self_id), k)
}

/// The state `KademliaRoutingTable::new` produces (that it does is obligation
/// C02/table/new_is_256_empty_buckets), built without reallocation so that CBMC can
/// constant-propagate bucket lengths.
fn literal_empty_table(self_id: [u8; 32], k: usize) -> KademliaRoutingTable {
    let mut buckets = Vec::with_capacity(256);
    let mut i = 0;
    while i < 256 {
        buckets.push(KBucket { nodes: Vec::new(), max_size: k });
        i += 1;
    }
    KademliaRoutingTable { buckets, node_id: NodeId::from_bytes(self_id), _k_value: k }
}

/// Number of table entries whose id equals `id` (all 256 buckets).
fn count_id(t: &KademliaRoutingTable, id: &[u8; 32]) -> usize {
    let mut n = 0;
    let mut b = 0;
    while b < t.buckets.len() {
        let nodes = &t.buckets[b].nodes;
        let mut j = 0;
        while j < nodes.len() {
            if nodes[j].id.as_bytes() == id {
                n += 1;
            }
            j += 1;
        }
        b += 1;
    }
    n
}

fn table_len(t: &KademliaRoutingTable) -> usize {
    let mut n = 0;
    let mut b = 0;
    while b < t.buckets.len() {
        n += t.buckets[b].nodes.len();
        b += 1;
    }
    n
}

// ---------------------------------------------------------------------------
// DhtKey::distance  (in-place contract in /repo, proved here; complete)
// ---------------------------------------------------------------------------

// (thorough only: Kani's contract instrumentation (goto-instrument DFCC) takes ~12 min on this
// crate even for this 32-byte loop; the quick tier proves the same postcondition with
// `c02_distance_is_xor` below.)
// (parked: on the current crate goto-instrument's contract instrumentation runs out of memory for this harness -- Kani reports
// exit_status out_of_memory; the postcondition itself is proved in both tiers by `c02_distance_is_xor` below)
// @verif property=C02 class=complete fns=DhtKey::distance tier=parked panic=violation
#[kani::proof_for_contract(DhtKey::distance)]
#[kani::unwind(33)]
fn c02_distance_contract() {
    let a: [u8; 32] = kani::any();
    let b: [u8; 32] = kani::any();
    let _ = DhtKey::from_bytes(a).distance(&DhtKey::from_bytes(b));
}

// @verif property=C02 class=complete fns=DhtKey::distance tier=quick,thorough panic=violation
#[kani::proof]
#[kani::unwind(33)]
fn c02_distance_is_xor() {
    let a: [u8; 32] = kani::any();
    let b: [u8; 32] = kani::any();
    let r = DhtKey::from_bytes(a).distance(&DhtKey::from_bytes(b));
    let i: usize = kani::any();
    kani::assume(i < 32);
    kani::cover!(i == 31, "C02/distance/cover_index");
    assert!(r[i] == a[i] ^ b[i], "C02/distance/xor");
}

// ---------------------------------------------------------------------------
// get_bucket_index / get_bucket_index_for_key (complete: the loop bound 256 is
// a constant of the code; paired with Verus unit `bucket` as counterexample producer)
// ---------------------------------------------------------------------------

fn check_bucket_index(a: &[u8; 32], b: &[u8; 32], r: usize, tag_lt: &'static str) -> bool {
    let _ = tag_lt;
    if r >= 256 {
        return false;
    }
    let j: usize = kani::any();
    kani::assume(j < 256);
    // no differing bit before r
    if j < r && bit(a, j) != bit(b, j) {
        return false;
    }
    if a == b {
        r == 255
    } else {
        // some bit differs; since none before r differs, r itself must differ unless all differing bits are after r
        bit(a, r) != bit(b, r)
    }
}

// @verif property=C02 class=complete fns=KademliaRoutingTable::get_bucket_index tier=quick,thorough panic=violation
#[kani::proof]
#[kani::unwind(257)]
fn c02_bucket_index_node() {
    let me: [u8; 32] = kani::any();
    let other: [u8; 32] = kani::any();
    let t = ManuallyDrop::new(KademliaRoutingTable {
        buckets: Vec::new(),
        node_id: NodeId::from_bytes(me),
        _k_value: 8,
    });
    let r = t.get_bucket_index(&NodeId::from_bytes(other));
    kani::cover!(r == 0, "C02/bucket_index/cover_first");
    kani::cover!(r == 255 && me != other, "C02/bucket_index/cover_last");
    assert!(check_bucket_index(&me, &other, r, ""), "C02/bucket_index/node_first_differing_bit");
}

// @verif property=C02 class=complete fns=KademliaRoutingTable::get_bucket_index_for_key tier=quick,thorough panic=violation
#[kani::proof]
#[kani::unwind(257)]
fn c02_bucket_index_key() {
    let me: [u8; 32] = kani::any();
    let other: [u8; 32] = kani::any();
    let t = ManuallyDrop::new(KademliaRoutingTable {
        buckets: Vec::new(),
        node_id: NodeId::from_bytes(me),
        _k_value: 8,
    });
    let r = t.get_bucket_index_for_key(&DhtKey::from_bytes(other));
    assert!(check_bucket_index(&me, &other, r, ""), "C02/bucket_index/key_first_differing_bit");
}

// @verif property=C02 class=complete fns=KademliaRoutingTable::get_bucket_index tier=thorough panic=violation
#[kani::proof]
#[kani::stub_verified(DhtKey::distance)]
#[kani::unwind(257)]
fn c02_bucket_index_node_modular() {
    let me: [u8; 32] = kani::any();
    let other: [u8; 32] = kani::any();
    let t = ManuallyDrop::new(KademliaRoutingTable {
        buckets: Vec::new(),
        node_id: NodeId::from_bytes(me),
        _k_value: 8,
    });
    let r = t.get_bucket_index(&NodeId::from_bytes(other));
    assert!(check_bucket_index(&me, &other, r, ""), "C02/bucket_index/node_first_differing_bit_modular");
}

// ---------------------------------------------------------------------------
// KBucket::add_node / remove_node contracts (ASSUMED by Verus unit `bucket`, proved here on the
// real functions; bounded: bucket length <= 3, ids fully symbolic).
//   add:    a known peer is refreshed in place (same position, same length),
//           an unknown peer is appended when there is room,
//           otherwise Err and the bucket is unchanged.
//   remove: exactly the entries with another id remain, in order.
// ---------------------------------------------------------------------------

fn any_bucket<const N: usize>() -> (KBucket, [[u8; 32]; N], usize) {
    // concrete length per harness instance (symbolic lengths make CBMC's pointer analysis of
    // Vec::retain / iter_mut().find blow up); ids and max_size fully symbolic
    let mut ids = [[0u8; 32]; N];
    let mut nodes = Vec::with_capacity(N + 1);
    let mut i = 0;
    while i < N {
        ids[i] = kani::any();
        nodes.push(mk_node(ids[i]));
        i += 1;
    }
    let max_size: usize = kani::any();
    (KBucket { nodes, max_size }, ids, N)
}

fn kbucket_add_check<const N: usize>() {
    let (b, ids, len) = any_bucket::<N>();
    let mut b = ManuallyDrop::new(b);
    let max = b.max_size;
    let id: [u8; 32] = kani::any();
    // position of the first entry with this id, if any
    let mut first = N;
    let mut i = N;
    while i > 0 {
        i -= 1;
        if i < len && ids[i] == id {
            first = i;
        }
    }
    let known = first < N;
    let mut n = mk_node(id);
    n.capacity.storage_available = 77; // marks the refreshed entry
    let r = b.add_node(n);
    let ok = r.is_ok();
    std::mem::forget(r);
    if N > 0 {
        kani::cover!(known, "C02/kbucket/cover_refresh");
    }
    kani::cover!(!known && ok, "C02/kbucket/cover_append");
    kani::cover!(!ok, "C02/kbucket/cover_full");
    assert!(b.max_size == max, "C02/kbucket/add_keeps_max_size");
    if known {
        assert!(ok && b.nodes.len() == len, "C02/kbucket/known_peer_is_refreshed_in_place");
    } else if len < max {
        assert!(ok && b.nodes.len() == len + 1, "C02/kbucket/unknown_peer_appended_when_room");
        assert!(b.nodes[len].id.as_bytes() == &id && b.nodes[len].capacity.storage_available == 77, "C02/kbucket/appended_entry_is_the_node");
    } else {
        assert!(!ok && b.nodes.len() == len, "C02/kbucket/full_bucket_refuses_unknown_peer");
    }
    // every old position keeps its id (refresh replaces the entry of the same id)
    let j: usize = kani::any();
    kani::assume(j < len);
    assert!(b.nodes[j].id.as_bytes() == &ids[j], "C02/kbucket/add_keeps_ids_at_their_positions");
}

macro_rules! kbucket_add_harness {
    ($name:ident, $n:expr) => {
        #[kani::proof]
        #[kani::stub(alloc::fmt::format, stub_format_c02)]
        #[kani::stub(std::backtrace::Backtrace::capture, stub_backtrace_c02)]
        #[kani::unwind(6)]
        fn $name() {
            kbucket_add_check::<$n>();
        }
    };
}
macro_rules! kbucket_remove_harness {
    ($name:ident, $n:expr) => {
        #[kani::proof]
        #[kani::unwind(6)]
        fn $name() {
            kbucket_remove_check::<$n>();
        }
    };
}
// @verif property=C02 class=bounded bound="bucket holding 0 entries, max_size any usize, ids fully symbolic" fns=KBucket::add_node uses=kbucket_add_check,any_bucket,kbucket_add_harness unwindset="memcmp:33" vacuous_ok="C02/kbucket/add_keeps_ids_at_their_positions,C02/kbucket/known_peer_is_refreshed_in_place,C02/kbucket/cover_refresh" tier=quick,thorough panic=violation
kbucket_add_harness!(c02_kbucket_add_contract_0, 0);
// @verif property=C02 class=bounded bound="bucket holding 1 entries, max_size any usize, ids fully symbolic" fns=KBucket::add_node uses=kbucket_add_check,any_bucket,kbucket_add_harness unwindset="memcmp:33" tier=quick,thorough panic=violation
kbucket_add_harness!(c02_kbucket_add_contract_1, 1);
// @verif property=C02 class=bounded bound="bucket holding 2 entries, max_size any usize, ids fully symbolic" fns=KBucket::add_node uses=kbucket_add_check,any_bucket,kbucket_add_harness unwindset="memcmp:33" tier=quick,thorough panic=violation
kbucket_add_harness!(c02_kbucket_add_contract_2, 2);
// @verif property=C02 class=bounded bound="bucket holding 3 entries, max_size any usize, ids fully symbolic" fns=KBucket::add_node uses=kbucket_add_check,any_bucket,kbucket_add_harness unwindset="memcmp:33" tier=thorough panic=violation
kbucket_add_harness!(c02_kbucket_add_contract_3, 3);

fn stub_format_c02(_args: std::fmt::Arguments<'_>) -> String {
    String::new()
}
/// anyhow captures a backtrace for every error value (environment look-ups, unwinder FFI):
/// irrelevant to every obligation, replaced by the disabled backtrace.
fn stub_backtrace_c02() -> std::backtrace::Backtrace {
    std::backtrace::Backtrace::disabled()
}

fn kbucket_remove_check<const N: usize>() {
    let (b, ids, len) = any_bucket::<N>();
    let mut b = ManuallyDrop::new(b);
    let max = b.max_size;
    let id: [u8; 32] = kani::any();
    b.remove_node(&NodeId::from_bytes(id));
    assert!(b.max_size == max, "C02/kbucket/remove_keeps_max_size");
    // expected = filter(ids != id), in order
    let mut want = [[0u8; 32]; N];
    let mut wn = 0;
    let mut i = 0;
    while i < N {
        if i < len && ids[i] != id {
            want[wn] = ids[i];
            wn += 1;
        }
        i += 1;
    }
    if N > 0 {
        kani::cover!(wn < len, "C02/kbucket/cover_removed_some");
    }
    if N > 1 {
        kani::cover!(wn + 2 <= len, "C02/kbucket/cover_removed_two");
    }
    assert!(b.nodes.len() == wn, "C02/kbucket/remove_keeps_exactly_the_other_entries");
    let j: usize = kani::any();
    kani::assume(j < wn);
    assert!(b.nodes[j].id.as_bytes() == &want[j], "C02/kbucket/remove_keeps_order");
}

// @verif property=C02 class=bounded bound="bucket holding 0 entries, ids fully symbolic" fns=KBucket::remove_node uses=kbucket_remove_check,any_bucket,kbucket_remove_harness unwindset="memcmp:33" vacuous_ok="C02/kbucket/remove_keeps_order,C02/kbucket/cover_removed_some,C02/kbucket/cover_removed_two" tier=quick,thorough panic=violation
kbucket_remove_harness!(c02_kbucket_remove_contract_0, 0);
// @verif property=C02 class=bounded bound="bucket holding 1 entries, ids fully symbolic" fns=KBucket::remove_node uses=kbucket_remove_check,any_bucket,kbucket_remove_harness unwindset="memcmp:33" vacuous_ok="C02/kbucket/cover_removed_two" tier=quick,thorough panic=violation
kbucket_remove_harness!(c02_kbucket_remove_contract_1, 1);
// @verif property=C02 class=bounded bound="bucket holding 2 entries, ids fully symbolic" fns=KBucket::remove_node uses=kbucket_remove_check,any_bucket,kbucket_remove_harness unwindset="memcmp:33" tier=quick,thorough panic=violation
kbucket_remove_harness!(c02_kbucket_remove_contract_2, 2);
// @verif property=C02 class=bounded bound="bucket holding 3 entries, ids fully symbolic" fns=KBucket::remove_node uses=kbucket_remove_check,any_bucket,kbucket_remove_harness unwindset="memcmp:33" tier=thorough panic=violation
kbucket_remove_harness!(c02_kbucket_remove_contract_3, 3);

// @verif property=C02 class=complete fns=KademliaRoutingTable::new unwindset="KademliaRoutingTable::new:257" tier=off panic=violation
#[kani::proof]
#[kani::unwind(4)]
fn c02_table_new_contract() {
    let me: [u8; 32] = kani::any();
    let k: usize = kani::any();
    let t = ManuallyDrop::new(empty_table(me, k));
    assert!(t.buckets.len() == 256, "C02/table/new_has_256_buckets");
    let b: usize = kani::any();
    kani::assume(b < 256);
    assert!(t.buckets[b].nodes.len() == 0 && t.buckets[b].max_size == k, "C02/table/new_buckets_are_empty_with_max_size_k");
    assert!(t.node_id.as_bytes() == &me, "C02/table/new_keeps_local_id");
}

// ---------------------------------------------------------------------------
// Routing-table view contracts: add_node / remove_node keep the table a set of
// peers (each id once, never the local id, every node in the bucket of its first
// differing bit, bucket length <= k) and change the view exactly as stated.
// bounded: histories of at most OPS operations from the empty table.
// ---------------------------------------------------------------------------

fn bucket_has<const CAP: usize>(t: &KademliaRoutingTable, b: usize, q: &[u8; 32]) -> bool {
    let nodes = &t.buckets[b].nodes;
    let mut found = false;
    let mut j = 0;
    while j < CAP {
        if j < nodes.len() && nodes[j].id.as_bytes() == q {
            found = true;
        }
        j += 1;
    }
    found
}

fn table_history<const OPS: usize>() {
    let me: [u8; 32] = kani::any();
    let k: usize = kani::any();
    kani::assume(k >= 1 && k <= 2);
    let mut t = ManuallyDrop::new(empty_table(me, k));
    // universally quantified probe id
    let q: [u8; 32] = kani::any();
    let bq = spec_first_diff(&me, &q);
    let stop: usize = kani::any();
    kani::assume(stop <= OPS);
    let mut i = 0;
    while i < OPS {
        if i < stop {
            let id: [u8; 32] = kani::any();
            let is_add: bool = kani::any();
            let had_q = bucket_has::<OPS>(&t, bq, &q);
            let bid = spec_first_diff(&me, &id);
            let had_id = bucket_has::<OPS>(&t, bid, &id);
            let old_len = t.buckets[bid].nodes.len();
            if is_add {
                let r = t.add_node(mk_node(id));
                let ok = r.is_ok();
                std::mem::forget(r);
                let has_q = bucket_has::<OPS>(&t, bq, &q);
                assert!(
                    has_q == (had_q || (q == id && id != me && ok)),
                    "C02/table/add_view_exact"
                );
                if id != me && !had_id && old_len < k {
                    assert!(ok, "C02/table/add_accepts_when_room");
                }
                kani::cover!(ok && had_id, "C02/table/cover_readd_known_peer");
                kani::cover!(!ok, "C02/table/cover_bucket_full");
                kani::cover!(id == me, "C02/table/cover_add_self");
            } else {
                t.remove_node(&NodeId::from_bytes(id));
                let has_q = bucket_has::<OPS>(&t, bq, &q);
                assert!(has_q == (had_q && q != id), "C02/table/remove_view_exact");
                kani::cover!(had_id, "C02/table/cover_remove_present");
            }
        }
        i += 1;
    }
    // representation invariant via universally quantified witnesses
    let b1: usize = kani::any();
    let j1: usize = kani::any();
    let b2: usize = kani::any();
    let j2: usize = kani::any();
    kani::assume(b1 < 256 && b2 < 256);
    assert!(t.buckets.len() == 256, "C02/table/256_buckets");
    assert!(t.buckets[b1].nodes.len() <= k, "C02/table/bucket_len_le_k");
    if j1 < t.buckets[b1].nodes.len() {
        let n1 = *t.buckets[b1].nodes[j1].id.as_bytes();
        assert!(n1 != me, "C02/table/never_lists_local_node");
        assert!(spec_first_diff(&me, &n1) == b1, "C02/table/node_in_bucket_of_first_differing_bit");
        if j2 < t.buckets[b2].nodes.len() && (b1 != b2 || j1 != j2) {
            let n2 = *t.buckets[b2].nodes[j2].id.as_bytes();
            assert!(n1 != n2, "C02/table/each_peer_once");
        }
    }
}

// @verif property=C02 class=bounded bound="histories<=2 ops from empty table, k in 1..=2" fns=KademliaRoutingTable::new,KademliaRoutingTable::add_node,KademliaRoutingTable::remove_node,KBucket::add_node,KBucket::remove_node uses=table_history unwindset="KademliaRoutingTable::new:257,get_bucket_index:257,spec_first_diff:257,DhtKey::distance:33,memcmp:33,table_len:257,count_id:257" tier=off panic=violation
#[kani::proof]
#[kani::unwind(5)]
fn c02_table_history_2() {
    table_history::<2>();
}

// @verif property=C02 class=bounded bound="histories<=3 ops from empty table, k in 1..=2" fns=KademliaRoutingTable::new,KademliaRoutingTable::add_node,KademliaRoutingTable::remove_node,KBucket::add_node,KBucket::remove_node uses=table_history unwindset="KademliaRoutingTable::new:257,get_bucket_index:257,spec_first_diff:257,DhtKey::distance:33,memcmp:33,table_len:257,count_id:257" tier=off panic=violation
#[kani::proof]
#[kani::unwind(6)]
fn c02_table_history_3() {
    table_history::<3>();
}

// ---------------------------------------------------------------------------
// find_closest_nodes: exactly the min(n,|S|) closest, ascending, each once.
// The table is the literal 256-bucket table with B nodes pushed into the buckets their ids
// belong to (that add_node puts them there is C02/table/*). Bucket *positions* of the nodes
// and of the key are concrete per harness instance; every id/key bit below the first
// differing bit is symbolic (>= 2^(255-pos) values per node). The real bucket walk (all 256
// offsets), the real distance(), the real sort_by and take/map/collect are executed.
// ---------------------------------------------------------------------------

/// An id whose first bit differing from `me` is exactly `pos` (all lower-order bits symbolic).
fn id_at(me: &[u8; 32], pos: usize) -> [u8; 32] {
    let d: [u8; 32] = kani::any();
    let mut id = *me;
    let byte = pos / 8;
    let sh = (pos % 8) as u32;
    let mut i = 0;
    while i < 32 {
        if i == byte {
            id[i] = me[i] ^ ((d[i] & (0xffu8 >> sh)) | (0x80u8 >> sh));
        } else if i > byte {
            id[i] = me[i] ^ d[i];
        }
        i += 1;
    }
    id
}

fn fcn_check<const B: usize>(target: Option<usize>, pos: [usize; B]) {
    let me: [u8; 32] = kani::any();
    // target == None: the key is the local id itself (bucket 255 by the `same key` rule)
    let key: [u8; 32] = match target {
        Some(t) => id_at(&me, t),
        None => me,
    };
    let tb = match target {
        Some(t) => t,
        None => 255,
    };
    assert!(spec_first_diff(&me, &key) == tb, "C02/fcn/stub_matches_contract");
    unsafe {
        STUB_TARGET = tb;
    }
    let mut t = ManuallyDrop::new(literal_empty_table(me, 8));
    let mut ids = [[0u8; 32]; B];
    let mut i = 0;
    while i < B {
        let id = id_at(&me, pos[i]);
        // representation invariant of the table (proved for add/remove histories): ids distinct
        let mut j = 0;
        while j < i {
            kani::assume(ids[j] != id);
            j += 1;
        }
        ids[i] = id;
        t.buckets[pos[i]].nodes.push(mk_node(id));
        i += 1;
    }
    let n: usize = kani::any();
    kani::assume(n <= 64);
    let res = ManuallyDrop::new(t.find_closest_nodes(&DhtKey::from_bytes(key), n));
    let want = if n < B { n } else { B };
    assert!(res.len() == want, "C02/fcn/len_is_min_n_size");
    kani::cover!(res.len() == B, "C02/fcn/cover_all_returned");
    kani::cover!(res.len() < B && res.len() > 0, "C02/fcn/cover_truncated");
    let mut i = 0;
    while i < B {
        if i < res.len() {
            let ri = res[i].id.as_bytes();
            // member of the table
            let mut member = false;
            let mut j = 0;
            while j < B {
                if &ids[j] == ri {
                    member = true;
                }
                j += 1;
            }
            assert!(member, "C02/fcn/result_is_table_entry");
            if i + 1 < res.len() {
                assert!(dist_lt(ri, res[i + 1].id.as_bytes(), &key), "C02/fcn/strictly_ascending_no_duplicates");
            }
        }
        i += 1;
    }
    // nothing left out is closer than the farthest returned
    let mut j = 0;
    while j < B {
        let mut inres = false;
        let mut i = 0;
        while i < B {
            if i < res.len() && res[i].id.as_bytes() == &ids[j] {
                inres = true;
            }
            i += 1;
        }
        if !inres {
            assert!(res.len() == n, "C02/fcn/omits_only_when_full");
            if n > 0 && res.len() == n {
                assert!(!dist_lt(&ids[j], res[n - 1].id.as_bytes(), &key), "C02/fcn/no_omitted_peer_is_closer");
            }
        }
        j += 1;
    }
}

// Contract of get_bucket_index_for_key (C02/bucket_index/key_first_differing_bit, proved by Verus
// unit `bucket` and Kani c02_bucket_index_key): the result is the first bit in which key and local
// id differ, 255 when equal. fcn_check constructs the key so that this index is STUB_TARGET, and
// asserts that (C02/fcn/stub_matches_contract), so the stub returns exactly what the contract says.
static mut STUB_TARGET: usize = 0;
fn contract_stub_bucket_for_key(t: &KademliaRoutingTable, k: &DhtKey) -> usize {
    let _ = (t, k);
    unsafe { STUB_TARGET }
}

macro_rules! fcn_harness {
    ($name:ident, $b:expr, $t:expr, $pos:expr) => {
        #[kani::proof]
        #[kani::stub(KademliaRoutingTable::get_bucket_index_for_key, contract_stub_bucket_for_key)]
        #[kani::unwind(6)]
        fn $name() {
            fcn_check::<$b>($t, $pos);
        }
    };
}

// Loop bounds: the global bound 6 covers every loop whose trip count is the number of nodes
// (<= 4: bucket contents, sort, clone, collect, the harness's own loops); the loops whose trip
// count is a constant of the code get that constant (256 buckets, 32 id bytes). Unwinding
// assertions are on: a bound that is too small makes the harness UNDECIDED, never green.
// @verif property=C02 class=bounded bound="1 node; key bucket 250, node bucket [255]" fns=KademliaRoutingTable::find_closest_nodes uses=fcn_check,fcn_harness,id_at unwindset="find_closest_nodes~offset:257,literal_empty_table:257,DhtKey::distance:33,spec_first_diff:257,dist_lt:33,id_at:33,memcmp:33,spec_is_xor:33" tier=off panic=violation
fcn_harness!(c02_fcn_1_t250_top, 1, Some(250), [255]);
// @verif property=C02 class=bounded bound="2 nodes; key bucket 100, node buckets [99,102]" fns=KademliaRoutingTable::find_closest_nodes uses=fcn_check,fcn_harness,id_at unwindset="find_closest_nodes~offset:257,literal_empty_table:257,DhtKey::distance:33,spec_first_diff:257,dist_lt:33,id_at:33,memcmp:33,spec_is_xor:33" tier=off panic=violation
fcn_harness!(c02_fcn_2_t100_far_near, 2, Some(100), [99, 102]);
// @verif property=C02 class=bounded bound="3 nodes; key bucket 100, node buckets [99,99,102]" fns=KademliaRoutingTable::find_closest_nodes uses=fcn_check,fcn_harness,id_at unwindset="find_closest_nodes~offset:257,literal_empty_table:257,DhtKey::distance:33,spec_first_diff:257,dist_lt:33,id_at:33,memcmp:33,spec_is_xor:33" tier=off panic=violation
fcn_harness!(c02_fcn_3_t100_far_far_near, 3, Some(100), [99, 99, 102]);
// @verif property=C02 class=bounded bound="3 nodes; key bucket 250, node buckets [255,255,0]" fns=KademliaRoutingTable::find_closest_nodes uses=fcn_check,fcn_harness,id_at unwindset="find_closest_nodes~offset:257,literal_empty_table:257,DhtKey::distance:33,spec_first_diff:257,dist_lt:33,id_at:33,memcmp:33,spec_is_xor:33" tier=off panic=violation
fcn_harness!(c02_fcn_3_t250_top_saturation, 3, Some(250), [255, 255, 0]);
// @verif property=C02 class=bounded bound="3 nodes; key bucket 3, node buckets [0,0,255]" fns=KademliaRoutingTable::find_closest_nodes uses=fcn_check,fcn_harness,id_at unwindset="find_closest_nodes~offset:257,literal_empty_table:257,DhtKey::distance:33,spec_first_diff:257,dist_lt:33,id_at:33,memcmp:33,spec_is_xor:33" tier=off panic=violation
fcn_harness!(c02_fcn_3_t3_bottom_saturation, 3, Some(3), [0, 0, 255]);
// @verif property=C02 class=bounded bound="3 nodes; key bucket 128, node buckets [128,128,128]" fns=KademliaRoutingTable::find_closest_nodes uses=fcn_check,fcn_harness,id_at unwindset="find_closest_nodes~offset:257,literal_empty_table:257,DhtKey::distance:33,spec_first_diff:257,dist_lt:33,id_at:33,memcmp:33,spec_is_xor:33" tier=off panic=violation
fcn_harness!(c02_fcn_3_t128_same_bucket, 3, Some(128), [128, 128, 128]);
// @verif property=C02 class=bounded bound="3 nodes; key == local id, node buckets [255,254,0]" fns=KademliaRoutingTable::find_closest_nodes uses=fcn_check,fcn_harness,id_at unwindset="find_closest_nodes~offset:257,literal_empty_table:257,DhtKey::distance:33,spec_first_diff:257,dist_lt:33,id_at:33,memcmp:33,spec_is_xor:33" tier=off panic=violation
fcn_harness!(c02_fcn_3_key_is_self, 3, None, [255, 254, 0]);

// ---------------------------------------------------------------------------
// Failing-input SEARCH (native, cfg(test)): used by the driver only when the deductive route
// cannot decide (an extraction anchor was lost, or a spliced invariant no longer proves) to look
// for a concrete input on which the real function violates the property-level postcondition.
// A hit is reported as a VIOLATION with the input; no hit proves nothing and is never counted as
// evidence that the property holds.
// ---------------------------------------------------------------------------
#[cfg(test)]
pub(super) mod verif_search {
    use super::*;

    pub struct Rng(pub u64);
    impl Rng {
        pub fn next(&mut self) -> u64 {
            self.0 ^= self.0 << 13;
            self.0 ^= self.0 >> 7;
            self.0 ^= self.0 << 17;
            self.0
        }
        pub fn below(&mut self, n: u64) -> u64 {
            self.next() % n
        }
        pub fn bytes(&mut self) -> [u8; 32] {
            let mut b = [0u8; 32];
            for c in b.chunks_mut(8) {
                c.copy_from_slice(&self.next().to_le_bytes());
            }
            b
        }
        /// bucket position: boundary buckets are over-represented
        pub fn pos(&mut self) -> usize {
            const P: [usize; 12] = [0, 0, 1, 2, 3, 7, 8, 127, 128, 253, 254, 255];
            if self.below(3) == 0 { self.below(256) as usize } else { P[self.below(12) as usize] }
        }
    }
    fn id_in_bucket(r: &mut Rng, me: &[u8; 32], pos: usize, low_bits_only: bool) -> [u8; 32] {
        let mut d = if low_bits_only { [0u8; 32] } else { r.bytes() };
        if low_bits_only {
            d[31] = r.below(256) as u8;
        }
        let byte = pos / 8;
        let sh = (pos % 8) as u32;
        let mut id = *me;
        for i in 0..32 {
            if i == byte {
                id[i] = me[i] ^ ((d[i] & (0xffu8 >> sh)) | (0x80u8 >> sh));
            } else if i > byte {
                id[i] = me[i] ^ d[i];
            }
        }
        id
    }
    pub fn hex(b: &[u8; 32]) -> String {
        b.iter().map(|x| format!("{:02x}", x)).collect()
    }
    pub fn all_ids(t: &KademliaRoutingTable) -> Vec<[u8; 32]> {
        let mut v = Vec::new();
        for b in &t.buckets {
            for n in &b.nodes {
                v.push(*n.id.as_bytes());
            }
        }
        v
    }
    fn table_ok(t: &KademliaRoutingTable, me: &[u8; 32]) -> Result<(), String> {
        if t.buckets.len() != 256 {
            return Err("C02/table/256_buckets".into());
        }
        let ids = all_ids(t);
        for (i, a) in ids.iter().enumerate() {
            if a == me {
                return Err(format!("C02/table/never_lists_local_node id={}", hex(a)));
            }
            for b in &ids[i + 1..] {
                if a == b {
                    return Err(format!("C02/table/each_peer_at_most_once id={}", hex(a)));
                }
            }
        }
        for (bi, b) in t.buckets.iter().enumerate() {
            for n in &b.nodes {
                if spec_first_diff(me, n.id.as_bytes()) != bi {
                    return Err(format!("C02/table/node_in_bucket_of_first_differing_bit id={} bucket={}", hex(n.id.as_bytes()), bi));
                }
            }
        }
        Ok(())
    }
    fn fcn_ok(t: &KademliaRoutingTable, key: &[u8; 32], n: usize) -> Result<(), String> {
        let ids = all_ids(t);
        let res = t.find_closest_nodes(&DhtKey::from_bytes(*key), n);
        let tag = |o: &str| format!("{} key={} count={} table=[{}]", o, hex(key), n, ids.iter().map(hex).collect::<Vec<_>>().join(","));
        if res.len() != n.min(ids.len()) {
            return Err(tag("C02/fcn/len_is_min_n_size"));
        }
        for (i, r) in res.iter().enumerate() {
            if !ids.contains(r.id.as_bytes()) {
                return Err(tag("C02/fcn/result_is_table_entry"));
            }
            if i + 1 < res.len() && !dist_lt(r.id.as_bytes(), res[i + 1].id.as_bytes(), key) {
                return Err(tag("C02/fcn/strictly_ascending_no_duplicates"));
            }
        }
        for q in &ids {
            if !res.iter().any(|r| r.id.as_bytes() == q) {
                if res.len() != n {
                    return Err(tag("C02/fcn/omits_only_when_full"));
                }
                if let Some(last) = res.last() {
                    if dist_lt(q, last.id.as_bytes(), key) {
                        return Err(tag("C02/fcn/no_omitted_peer_is_closer"));
                    }
                }
            }
        }
        Ok(())
    }

    /// Random add/remove histories (repeated and self ids included) + closest-node queries.
    #[test]
    fn verif_search_c02() {
        let seed: u64 = std::env::var("VERIF_SEED").ok().and_then(|s| s.parse().ok()).unwrap_or(0);
        let mut r = Rng(0x9e37_79b9_7f4a_7c15 ^ seed.wrapping_mul(0x1000_0000_01b3) | 1);
        let rounds: usize = std::env::var("VERIF_SEARCH_ROUNDS").ok().and_then(|s| s.parse().ok()).unwrap_or(400);
        for round in 0..rounds {
            let me = r.bytes();
            let k = 1 + r.below(8) as usize;
            let mut t = KademliaRoutingTable::new(NodeId::from_bytes(me), k);
            let mut known: Vec<[u8; 32]> = Vec::new();
            let ops = 1 + r.below(40);
            let low = r.below(4) == 0;
            for _ in 0..ops {
                let choice = r.below(10);
                if choice < 6 || known.is_empty() {
                    let p = r.pos();
                    let id = if r.below(25) == 0 { me } else if r.below(6) == 0 && !known.is_empty() { known[r.below(known.len() as u64) as usize] } else { id_in_bucket(&mut r, &me, p, low) };
                    let before = all_ids(&t);
                    let ok = t.add_node(mk_node_seen(id, r.below(1000))).is_ok();
                    let after = all_ids(&t);
                    let expect_present = id != me && (before.contains(&id) || ok);
                    if after.contains(&id) != expect_present || after.iter().filter(|x| !before.contains(x)).any(|x| *x != id) || before.iter().any(|x| !after.contains(x)) {
                        panic!("VERIF-SEARCH-HIT C02/table/add_view_exact round={} id={} me={}", round, hex(&id), hex(&me));
                    }
                    known.push(id);
                } else {
                    let id = known[r.below(known.len() as u64) as usize];
                    let before = all_ids(&t);
                    t.remove_node(&NodeId::from_bytes(id));
                    let after = all_ids(&t);
                    if after.contains(&id) || before.iter().any(|x| *x != id && !after.contains(x)) || after.iter().any(|x| !before.contains(x)) {
                        panic!("VERIF-SEARCH-HIT C02/table/remove_view_exact round={} id={} me={}", round, hex(&id), hex(&me));
                    }
                }
                if let Err(e) = table_ok(&t, &me) {
                    panic!("VERIF-SEARCH-HIT {} round={} me={}", e, round, hex(&me));
                }
            }
            // queries: random keys, the local id, keys next to listed ids, boundary buckets
            let ids = all_ids(&t);
            for q in 0..12 {
                let key = match q {
                    0 => me,
                    1 | 2 if !ids.is_empty() => {
                        let mut kx = ids[r.below(ids.len() as u64) as usize];
                        kx[31] ^= 1 + r.below(255) as u8;
                        kx
                    }
                    3 | 4 => { let p = r.pos(); id_in_bucket(&mut r, &me, p, false) },
                    _ => r.bytes(),
                };
                for n in [0usize, 1, 2, 3, 8, 20, 64, ids.len(), ids.len() + 1] {
                    if let Err(e) = fcn_ok(&t, &key, n) {
                        panic!("VERIF-SEARCH-HIT {} round={} me={}", e, round, hex(&me));
                    }
                }
            }
        }
    }
}

// ---------------------------------------------------------------------------------------------
// NATIVE FAILING-INPUT SEARCH for the C13 clause "an admission that fails part-way consumes none"
// (DhtCoreEngine::add_node; the deciding engine is the Verus unit `ipdiv`, item add_node): a node refused
// by the routing table (full bucket) or by the region cap must leave the IP diversity counters as they
// were, so another node with the same address that fits elsewhere is still admitted.
// ---------------------------------------------------------------------------------------------
#[cfg(test)]
mod search_admission {
    use super::*;
    use super::verif_search::{all_ids, hex, Rng};

    fn node_at(first_byte: u8, tag: u8, address: &str) -> NodeInfo {
        let mut id = [0u8; 32];
        id[0] = first_byte;
        id[31] = tag;
        let mut n = mk_node(id);
        n.address = address.to_string();
        n
    }

    #[test]
    fn verif_search_c13_admission() {
        let rt = tokio::runtime::Builder::new_current_thread().enable_all().build().expect("runtime");
        rt.block_on(async {
            for bucket_size in [8usize] {
                let mut e = DhtCoreEngine::new_for_tests(NodeId::from_bytes([0u8; 32])).expect("engine");
                // fill bucket 0 (ids whose first bit differs from the local id), one address per /16
                for i in 0..bucket_size as u8 {
                    let r = e.add_node(node_at(0x80, i + 1, &format!("10.{}.0.1:9000", i + 1))).await;
                    assert!(r.is_ok(), "setup: node {} must be admitted: {:?}", i, r);
                }
                // a 9th node for the same bucket is refused by the routing table (bucket full)
                let refused = e.add_node(node_at(0x80, 200, "10.100.0.1:9000")).await;
                if refused.is_ok() {
                    continue; // bucket was not full: nothing to observe in this configuration
                }
                // the refused admission must have consumed nothing: the same address, offered by a node that
                // fits into another bucket, is still admitted (per-IP limit is 1 at this network size)
                let second = e.add_node(node_at(0x40, 1, "10.100.0.1:9000")).await;
                if let Err(err) = second {
                    panic!("VERIF-SEARCH-HIT C13/engine/an_admission_that_fails_part_way_returns_its_ip_diversity_slots history=[8 nodes fill bucket 0; node 10.100.0.1 refused by the full bucket; another node with address 10.100.0.1 for bucket 1 -> {}]", err);
                }
            }
        });
    }

    /// C13 (removal paths): a node dropped from the routing table by eviction / failure gives its slots back,
    /// so another node with the same address is admitted afterwards.
    #[test]
    fn verif_search_c13_removal() {
        let rt = tokio::runtime::Builder::new_current_thread().enable_all().build().expect("runtime");
        rt.block_on(async {
            for by_failure in [false, true] {
                let mut e = DhtCoreEngine::new_for_tests(NodeId::from_bytes([0u8; 32])).expect("engine");
                let first = node_at(0x80, 1, "10.7.0.1:9000");
                let first_id = first.id.clone();
                let r = e.add_node(first).await;
                assert!(r.is_ok(), "setup: the first node must be admitted: {:?}", r);
                if by_failure {
                    let _ = e.handle_node_failure(first_id.clone()).await;
                } else {
                    let _ = e.evict_node(&first_id, crate::dht::routing_maintenance::EvictionReason::Stale).await;
                }
                let listed = { let t = e.routing_table.read().await; t.buckets.iter().any(|b| b.nodes.iter().any(|n| n.id == first_id)) };
                assert!(!listed, "setup: the node must be gone from the routing table");
                // the address is free again: a node with that address (other bucket) must be admitted
                let second = e.add_node(node_at(0x40, 2, "10.7.0.1:9000")).await;
                if let Err(err) = second {
                    let what = if by_failure { "a_failed_node_dropped_from_the_routing_table_gives_back_its_ip_diversity_slots" } else { "eviction_gives_back_the_ip_diversity_slots_of_the_evicted_node" };
                    panic!("VERIF-SEARCH-HIT C13/engine/{} history=[add_node(A, 10.7.0.1) -> Ok; {}(A); add_node(B, 10.7.0.1) -> {}]", what, if by_failure { "handle_node_failure" } else { "evict_node" }, err);
                }
            }
        });
    }

    /// C05 (request dispatch): store cap, find-node cap, retrieve round trip -- against a real engine.
    #[test]
    fn verif_search_reqh_c05() {
        use crate::dht::network_integration::{DhtMessage, DhtResponse};
        let seed: u64 = std::env::var("VERIF_SEED").ok().and_then(|s| s.parse().ok()).unwrap_or(0);
        let mut r = Rng(0x2545_f491_4f6c_dd1d ^ seed.wrapping_mul(0x1000_0000_01b3) | 1);
        let rt = tokio::runtime::Builder::new_current_thread().enable_all().build().expect("runtime");
        rt.block_on(async {
            let mut e = DhtCoreEngine::new_for_tests(NodeId::from_bytes([0u8; 32])).expect("engine");
            // 30 peers in distinct /16s spread over the top buckets
            for i in 0..30u8 {
                let mut id = r.bytes();
                id[0] = 0x80 >> (i % 6);
                id[31] = i;
                let mut n = mk_node(id);
                n.address = format!("10.{}.0.1:9000", i + 1);
                let _ = e.add_node(n).await;
            }
            let mut shadow: std::collections::HashMap<[u8; 32], Vec<u8>> = std::collections::HashMap::new();
            for round in 0..200usize {
                let key = { let mut k = r.bytes(); k[0] = (round % 7) as u8; k[1..].iter_mut().for_each(|b| *b = 0); k };
                let len = match r.below(8) { 0 => 512, 1 => 513, 2 => 511, 3 => 1024, 4 => 0, 5 => 70_000, _ => r.below(700) as usize };
                let value: Vec<u8> = (0..len).map(|i| (i as u8) ^ (round as u8)).collect();
                let id = format!("req-{}", round);
                let resp = e.handle_request(DhtRequestWrapper { id: id.clone(), message: DhtMessage::Store { key: DhtKey::from_bytes(key), value: value.clone(), ttl: std::time::Duration::from_secs(60) } }).await;
                let refused = matches!(resp.response, DhtResponse::Error { .. });
                if len > 512 && !refused {
                    panic!("VERIF-SEARCH-HIT C05/request/a_stored_value_over_512_bytes_is_refused_and_never_enters_the_store request=Store value_len={} reply={:?}", len, resp.response);
                }
                if !refused { shadow.insert(key, value.clone()); }
                // what is retrievable is exactly what was accepted
                let got = e.handle_request(DhtRequestWrapper { id: id.clone(), message: DhtMessage::Retrieve { key: DhtKey::from_bytes(key), consistency: ConsistencyLevel::One } }).await;
                let stored = match got.response { DhtResponse::RetrieveReply { value } => value, other => panic!("VERIF-SEARCH-HIT C05/request/retrieve_returns_exactly_the_stored_bytes_or_nothing reply={:?}", other) };
                if stored.as_ref().map(|v| v.len() > 512).unwrap_or(false) {
                    panic!("VERIF-SEARCH-HIT C05/request/a_stored_value_over_512_bytes_is_refused_and_never_enters_the_store request=Store value_len={} then Retrieve returns {} bytes", len, stored.as_ref().map(|v| v.len()).unwrap_or(0));
                }
                if stored.as_ref() != shadow.get(&key) {
                    panic!("VERIF-SEARCH-HIT C05/request/retrieve_returns_exactly_the_stored_bytes_or_nothing key[0]={} stored_len={:?} expected_len={:?}", key[0], stored.as_ref().map(|v| v.len()), shadow.get(&key).map(|v| v.len()));
                }
                // the engine's own store path (DhtCoreEngine::store) applies the same cap
                if round % 5 == 0 {
                    let skey = { let mut k = [0u8; 32]; k[0] = 200 + (round % 7) as u8; k };
                    let slen = [512usize, 513, 1024, 2000][r.below(4) as usize];
                    let res = e.store(&DhtKey::from_bytes(skey), vec![7u8; slen]).await;
                    if slen > 512 && res.is_ok() {
                        panic!("VERIF-SEARCH-HIT C05/store_path/the_engine_refuses_a_value_over_512_bytes_and_leaves_the_store_untouched DhtCoreEngine::store accepted {} bytes", slen);
                    }
                    let back = e.handle_request(DhtRequestWrapper { id: id.clone(), message: DhtMessage::Retrieve { key: DhtKey::from_bytes(skey), consistency: ConsistencyLevel::One } }).await;
                    if let DhtResponse::RetrieveReply { value: Some(v) } = back.response {
                        if v.len() > 512 {
                            panic!("VERIF-SEARCH-HIT C05/store_path/the_engine_refuses_a_value_over_512_bytes_and_leaves_the_store_untouched store({} bytes) then Retrieve returns {} bytes", slen, v.len());
                        }
                    }
                }
                // any other request kind leaves the store as it was (only Store writes)
                let other_len = [0usize, 100, 512, 513, 4096][r.below(5) as usize];
                let other_val: Vec<u8> = vec![0xA5; other_len];
                let okey = { let mut k = [0u8; 32]; k[0] = (round % 7) as u8; k };
                let before = e.handle_request(DhtRequestWrapper { id: id.clone(), message: DhtMessage::Retrieve { key: DhtKey::from_bytes(okey), consistency: ConsistencyLevel::One } }).await;
                let _ = e.handle_request(DhtRequestWrapper { id: id.clone(), message: DhtMessage::Replicate { key: DhtKey::from_bytes(okey), value: other_val.clone(), version: round as u64 } }).await;
                let after = e.handle_request(DhtRequestWrapper { id: id.clone(), message: DhtMessage::Retrieve { key: DhtKey::from_bytes(okey), consistency: ConsistencyLevel::One } }).await;
                if let (DhtResponse::RetrieveReply { value: b }, DhtResponse::RetrieveReply { value: a }) = (before.response, after.response) {
                    if a.as_ref().map(|v| v.len() > 512).unwrap_or(false) {
                        panic!("VERIF-SEARCH-HIT C05/request/a_stored_value_over_512_bytes_is_refused_and_never_enters_the_store request=Replicate value_len={} then Retrieve returns {} bytes", other_len, a.as_ref().map(|v| v.len()).unwrap_or(0));
                    }
                    if a != b {
                        panic!("VERIF-SEARCH-HIT C05/request/only_a_store_request_changes_the_store request=Replicate value_len={} stored before={:?} after={:?}", other_len, b.as_ref().map(|v| v.len()), a.as_ref().map(|v| v.len()));
                    }
                }
                // find-node: any count, never more than 20 names
                let count = match r.below(6) { 0 => usize::MAX, 1 => 21, 2 => 20, 3 => 1000, _ => r.below(40) as usize };
                let fr = e.handle_request(DhtRequestWrapper { id: id.clone(), message: DhtMessage::FindNode { target: DhtKey::from_bytes(r.bytes()), count } }).await;
                if fr.id != id {
                    panic!("VERIF-SEARCH-HIT C05/request/reply_id request={} reply={}", id, fr.id);
                }
                match fr.response {
                    DhtResponse::FindNodeReply { nodes, .. } => {
                        if nodes.len() > 20 || nodes.len() > count {
                            panic!("VERIF-SEARCH-HIT C05/request/a_find_node_reply_never_names_more_than_20_nodes_whatever_count_was_asked request=FindNode count={} reply names {} nodes", count, nodes.len());
                        }
                    }
                    other => panic!("VERIF-SEARCH-HIT C05/request/a_find_node_reply_never_names_more_than_20_nodes_whatever_count_was_asked reply={:?}", other),
                }
            }
        });
    }

    /// C02 (reply to a remote find-node / find-value request): exactly the min(count, cap, size) closest table
    /// entries, ascending, each once -- whatever optional features (trust-weighted selection) are switched on.
    #[test]
    fn verif_search_c02_reply() {
        use crate::dht::network_integration::{DhtMessage, DhtResponse};
        let seed: u64 = std::env::var("VERIF_SEED").ok().and_then(|s| s.parse().ok()).unwrap_or(0);
        let mut r = Rng(0x51ed_2701_9e37_79b9 ^ seed.wrapping_mul(0x1000_0000_01b3) | 1);
        let rt = tokio::runtime::Builder::new_current_thread().enable_all().build().expect("runtime");
        rt.block_on(async {
            for round in 0..12usize {
                let mut e = DhtCoreEngine::new_for_tests(NodeId::from_bytes([0u8; 32])).expect("engine");
                let mut ids: Vec<[u8; 32]> = Vec::new();
                for i in 0..36u8 {
                    let mut id = [0u8; 32];
                    let bit = (i as usize / 3) % 12;
                    id[bit / 8] |= 0x80 >> (bit % 8);
                    id[31] = 1 + i % 3;
                    if round % 2 == 1 { id[16] = r.below(256) as u8; id[20] = r.below(256) as u8; }
                    let mut n = mk_node(id);
                    n.address = format!("10.{}.0.1:9000", i + 1);
                    if e.add_node(n).await.is_ok() { ids.push(id); }
                }
                let with_trust = round % 3 != 2;
                if with_trust {
                    // some peers that are not the closest to the keys asked about are well trusted
                    let mut pre = std::collections::HashSet::new();
                    for id in ids.iter() {
                        if r.below(4) == 0 {
                            pre.insert(crate::dht::trust_peer_selector::dht_node_to_adaptive_id(&NodeId::from_bytes(*id)));
                        }
                    }
                    let trust = std::sync::Arc::new(crate::adaptive::EigenTrustEngine::new(pre));
                    e.enable_trust_selection(trust, crate::dht::TrustSelectionConfig::default());
                }
                for q in 0..10usize {
                    let target: [u8; 32] = match q { 0 => [0u8; 32], 1 => [0xffu8; 32], 2 | 3 if !ids.is_empty() => { let mut t = ids[r.below(ids.len() as u64) as usize]; t[31] ^= 1 + r.below(3) as u8; t }, _ => r.bytes() };
                    let mut sorted = ids.clone();
                    sorted.sort_by_key(|id| { let mut d = [0u8; 32]; for k in 0..32 { d[k] = id[k] ^ target[k]; } d });
                    for count in [0usize, 1, 2, 3, 8, 19, 20, 21, 64] {
                        let fr = e.handle_request(DhtRequestWrapper { id: "q".into(), message: DhtMessage::FindNode { target: DhtKey::from_bytes(target), count } }).await;
                        let got: Vec<[u8; 32]> = match fr.response { DhtResponse::FindNodeReply { nodes, .. } => nodes.iter().map(|n| *n.id.as_bytes()).collect(), other => panic!("VERIF-SEARCH-HIT C02/reply/find_node_reply_is_the_closest_min_count_20_entries_never_more_than_the_cap reply={:?}", other) };
                        let want: Vec<[u8; 32]> = sorted.iter().take(count.min(20)).cloned().collect();
                        if got != want {
                            panic!("VERIF-SEARCH-HIT C02/reply/find_node_reply_is_the_closest_min_count_20_entries_never_more_than_the_cap trust_selection={} round={} target={} count={} reply=[{}] closest=[{}]",
                                   with_trust, round, hex(&target), count, got.iter().map(|x| hex(x)[..6].to_string()).collect::<Vec<_>>().join(","), want.iter().map(|x| hex(x)[..6].to_string()).collect::<Vec<_>>().join(","));
                        }
                    }
                    let fv = e.handle_request(DhtRequestWrapper { id: "q".into(), message: DhtMessage::FindValue { key: DhtKey::from_bytes(target) } }).await;
                    if let DhtResponse::FindValueReply { value: None, nodes } = fv.response {
                        let got: Vec<[u8; 32]> = nodes.iter().map(|n| *n.id.as_bytes()).collect();
                        let want: Vec<[u8; 32]> = sorted.iter().take(8).cloned().collect();
                        if got != want {
                            panic!("VERIF-SEARCH-HIT C02/reply/find_value_reply_names_at_most_k_closest_entries trust_selection={} round={} key={} reply=[{}] closest=[{}]",
                                   with_trust, round, hex(&target), got.iter().map(|x| hex(x)[..6].to_string()).collect::<Vec<_>>().join(","), want.iter().map(|x| hex(x)[..6].to_string()).collect::<Vec<_>>().join(","));
                        }
                    }
                }
            }
        });
    }

    /// C16 (selection with trust selection disabled): the choice is exactly the closest candidates in distance
    /// order -- ids that differ from the key only in low-order bytes included.
    #[test]
    fn verif_search_c16_route_closest() {
        let seed: u64 = std::env::var("VERIF_SEED").ok().and_then(|s| s.parse().ok()).unwrap_or(0);
        let mut r = Rng(0x7f4a_7c15_9e37_79b9 ^ seed.wrapping_mul(0x1000_0000_01b3) | 1);
        let rt = tokio::runtime::Builder::new_current_thread().enable_all().build().expect("runtime");
        rt.block_on(async {
            for round in 0..16usize {
                let mut e = DhtCoreEngine::new_for_tests(NodeId::from_bytes([0u8; 32])).expect("engine");
                let mut ids: Vec<[u8; 32]> = Vec::new();
                let low = round % 2 == 0;
                for i in 0..16u8 {
                    let mut id = [0u8; 32];
                    if low { id[31] = 1 + i; id[30] = (r.below(3)) as u8; } else { id = r.bytes(); id[0] |= 0x10; }
                    if ids.contains(&id) { continue; }
                    let mut n = mk_node(id);
                    n.address = format!("10.{}.0.1:9000", i + 1);
                    if e.add_node(n).await.is_ok() { ids.push(id); }
                }
                for q in 0..8usize {
                    let mut key = [0u8; 32];
                    if low { key[31] = r.below(20) as u8; key[30] = r.below(3) as u8; } else { key = r.bytes(); }
                    let _ = q;
                    let mut sorted = ids.clone();
                    sorted.sort_by_key(|id| { let mut d = [0u8; 32]; for k in 0..32 { d[k] = id[k] ^ key[k]; } d });
                    for n in [1usize, 2, 3, 5, 8] {
                        let got: Vec<[u8; 32]> = match e.find_nodes(&DhtKey::from_bytes(key), n).await { Ok(v) => v.iter().map(|x| *x.id.as_bytes()).collect(), Err(_) => continue };
                        let want: Vec<[u8; 32]> = sorted.iter().take(n).cloned().collect();
                        if got != want {
                            panic!("VERIF-SEARCH-HIT C16/select/with_trust_selection_disabled_the_choice_is_exactly_the_closest_candidates_in_distance_order round={} key={} count={} chosen=[{}] closest=[{}]",
                                   round, hex(&key), n, got.iter().map(|x| hex(x)[58..].to_string()).collect::<Vec<_>>().join(","), want.iter().map(|x| hex(x)[58..].to_string()).collect::<Vec<_>>().join(","));
                        }
                    }
                }
            }
        });
    }

    /// C16 (routing): a failed / evicted peer leaves the routing table, nobody else does.
    #[test]
    fn verif_search_c16_route() {
        let seed: u64 = std::env::var("VERIF_SEED").ok().and_then(|s| s.parse().ok()).unwrap_or(0);
        let mut r = Rng(0x9e37_79b9_7f4a_7c15 ^ seed.wrapping_mul(0x1000_0000_01b3) | 1);
        let rt = tokio::runtime::Builder::new_current_thread().enable_all().build().expect("runtime");
        rt.block_on(async {
            for round in 0..20usize {
                let mut e = DhtCoreEngine::new_for_tests(NodeId::from_bytes([0u8; 32])).expect("engine");
                let mut ids: Vec<[u8; 32]> = Vec::new();
                for i in 0..24u8 {
                    let mut id = r.bytes();
                    id[0] = 0x80 >> (i % 6);
                    id[31] = i;
                    let mut n = mk_node(id);
                    n.address = format!("10.{}.0.1:9000", i + 1);
                    if e.add_node(n).await.is_ok() { ids.push(id); }
                }
                for step in 0..ids.len() {
                    let victim = ids[r.below(ids.len() as u64) as usize];
                    let before = { let t = e.routing_table.read().await; all_ids(&t) };
                    let by_failure = r.below(2) == 0;
                    if by_failure {
                        let _ = e.handle_node_failure(NodeId::from_bytes(victim)).await;
                    } else {
                        let _ = e.evict_node(&NodeId::from_bytes(victim), crate::dht::routing_maintenance::EvictionReason::ConsecutiveFailures(3)).await;
                    }
                    let after = { let t = e.routing_table.read().await; all_ids(&t) };
                    let what = if by_failure { "a_failed_peer_is_no_longer_listed_in_the_routing_table" } else { "an_evicted_peer_is_no_longer_listed_in_the_routing_table" };
                    if after.contains(&victim) {
                        panic!("VERIF-SEARCH-HIT C16/route/{} round={} step={} victim={}", what, round, step, hex(&victim));
                    }
                    let what2 = if by_failure { "a_failure_removes_no_other_peer" } else { "eviction_removes_no_other_peer" };
                    if before.iter().any(|x| *x != victim && !after.contains(x)) || after.iter().any(|x| !before.contains(x)) {
                        panic!("VERIF-SEARCH-HIT C16/route/{} round={} step={} victim={} before={} after={}", what2, round, step, hex(&victim), before.len(), after.len());
                    }
                }
            }
        });
    }
}

// Native replay slot: `cargo kani playback` compiles the crate with cfg(test)+cfg(kani);
// the driver writes the generated concrete-playback unit test here before running it.
#[cfg(test)]
include!("/verif/.build/replay/core_engine.rs");
