//! @module dht::core_engine::verif_proofs
//! Kani contracts and proof harnesses for src/dht/core_engine.rs (C02, C16 routing part).
//! Compiled only under cfg(kani), as a child module of `dht::core_engine`, so the
//! harnesses see the private routing-table types. Spec functions below are written
//! from the property statement, not from the code.
use super::*;
use std::mem::ManuallyDrop;

// ---------------------------------------------------------------------------
// Spec functions
// ---------------------------------------------------------------------------

/// `r` is the byte-wise XOR of `a` and `b`.
pub(super) fn spec_is_xor(a: &[u8; 32], b: &[u8; 32], r: &[u8; 32]) -> bool {
    let mut i = 0;
    while i < 32 {
        if r[i] != a[i] ^ b[i] {
            return false;
        }
        i += 1;
    }
    true
}

fn bit(k: &[u8; 32], i: usize) -> bool {
    (k[i / 8] >> (7 - (i % 8))) & 1 == 1
}

/// Index of the most significant bit in which `a` and `b` differ; 255 if equal.
pub(super) fn spec_first_diff(a: &[u8; 32], b: &[u8; 32]) -> usize {
    let mut i = 0;
    while i < 256 {
        if bit(a, i) != bit(b, i) {
            return i;
        }
        i += 1;
    }
    255
}

/// Lexicographic (big-endian) comparison of 256-bit XOR distances to `key`.
fn dist_lt(a: &[u8; 32], b: &[u8; 32], key: &[u8; 32]) -> bool {
    let mut i = 0;
    while i < 32 {
        let da = a[i] ^ key[i];
        let db = b[i] ^ key[i];
        if da != db {
            return da < db;
        }
        i += 1;
    }
    false
}

fn mk_node(id: [u8; 32]) -> NodeInfo {
    NodeInfo {
        id: NodeId::from_bytes(id),
        address: String::new(),
        last_seen: SystemTime::UNIX_EPOCH,
        capacity: NodeCapacity {
            storage_available: 0,
            bandwidth_available: 0,
            reliability_score: 0.0,
        },
    }
}

fn empty_table(self_id: [u8; 32], k: usize) -> KademliaRoutingTable {
    KademliaRoutingTable::new(NodeId::from_bytes(self_id), k)
}

/// Number of table entries whose id equals `id` (all 256 buckets).
fn count_id(t: &KademliaRoutingTable, id: &[u8; 32]) -> usize {
    let mut n = 0;
    let mut b = 0;
    while b < t.buckets.len() {
        let nodes = &t.buckets[b].nodes;
        let mut j = 0;
        while j < nodes.len() {
            if nodes[j].id.as_bytes() == id {
                n += 1;
            }
            j += 1;
        }
        b += 1;
    }
    n
}

fn table_len(t: &KademliaRoutingTable) -> usize {
    let mut n = 0;
    let mut b = 0;
    while b < t.buckets.len() {
        n += t.buckets[b].nodes.len();
        b += 1;
    }
    n
}

// ---------------------------------------------------------------------------
// DhtKey::distance  (in-place contract in /repo, proved here; complete)
// ---------------------------------------------------------------------------

// (thorough only: Kani's contract instrumentation (goto-instrument DFCC) takes ~12 min on this
// crate even for this 32-byte loop; the quick tier proves the same postcondition with
// `c02_distance_is_xor` below.)
// @verif property=C02 class=complete fns=DhtKey::distance tier=thorough panic=violation
#[kani::proof_for_contract(DhtKey::distance)]
#[kani::unwind(33)]
fn c02_distance_contract() {
    let a: [u8; 32] = kani::any();
    let b: [u8; 32] = kani::any();
    let _ = DhtKey::from_bytes(a).distance(&DhtKey::from_bytes(b));
}

// @verif property=C02 class=complete fns=DhtKey::distance tier=quick,thorough panic=violation
#[kani::proof]
#[kani::unwind(33)]
fn c02_distance_is_xor() {
    let a: [u8; 32] = kani::any();
    let b: [u8; 32] = kani::any();
    let r = DhtKey::from_bytes(a).distance(&DhtKey::from_bytes(b));
    let i: usize = kani::any();
    kani::assume(i < 32);
    kani::cover!(i == 31, "C02/distance/cover_index");
    assert!(r[i] == a[i] ^ b[i], "C02/distance/xor");
}

// ---------------------------------------------------------------------------
// get_bucket_index / get_bucket_index_for_key (complete: the loop bound 256 is
// a constant of the code; paired with Verus unit `bucket` as counterexample producer)
// ---------------------------------------------------------------------------

fn check_bucket_index(a: &[u8; 32], b: &[u8; 32], r: usize, tag_lt: &'static str) -> bool {
    let _ = tag_lt;
    if r >= 256 {
        return false;
    }
    let j: usize = kani::any();
    kani::assume(j < 256);
    // no differing bit before r
    if j < r && bit(a, j) != bit(b, j) {
        return false;
    }
    if a == b {
        r == 255
    } else {
        // some bit differs; since none before r differs, r itself must differ unless all differing bits are after r
        bit(a, r) != bit(b, r)
    }
}

// @verif property=C02 class=complete fns=KademliaRoutingTable::get_bucket_index tier=quick,thorough panic=violation
#[kani::proof]
#[kani::unwind(257)]
fn c02_bucket_index_node() {
    let me: [u8; 32] = kani::any();
    let other: [u8; 32] = kani::any();
    let t = ManuallyDrop::new(KademliaRoutingTable {
        buckets: Vec::new(),
        node_id: NodeId::from_bytes(me),
        _k_value: 8,
    });
    let r = t.get_bucket_index(&NodeId::from_bytes(other));
    kani::cover!(r == 0, "C02/bucket_index/cover_first");
    kani::cover!(r == 255 && me != other, "C02/bucket_index/cover_last");
    assert!(check_bucket_index(&me, &other, r, ""), "C02/bucket_index/node_first_differing_bit");
}

// @verif property=C02 class=complete fns=KademliaRoutingTable::get_bucket_index_for_key tier=quick,thorough panic=violation
#[kani::proof]
#[kani::unwind(257)]
fn c02_bucket_index_key() {
    let me: [u8; 32] = kani::any();
    let other: [u8; 32] = kani::any();
    let t = ManuallyDrop::new(KademliaRoutingTable {
        buckets: Vec::new(),
        node_id: NodeId::from_bytes(me),
        _k_value: 8,
    });
    let r = t.get_bucket_index_for_key(&DhtKey::from_bytes(other));
    assert!(check_bucket_index(&me, &other, r, ""), "C02/bucket_index/key_first_differing_bit");
}

// @verif property=C02 class=complete fns=KademliaRoutingTable::get_bucket_index tier=thorough panic=violation
#[kani::proof]
#[kani::stub_verified(DhtKey::distance)]
#[kani::unwind(257)]
fn c02_bucket_index_node_modular() {
    let me: [u8; 32] = kani::any();
    let other: [u8; 32] = kani::any();
    let t = ManuallyDrop::new(KademliaRoutingTable {
        buckets: Vec::new(),
        node_id: NodeId::from_bytes(me),
        _k_value: 8,
    });
    let r = t.get_bucket_index(&NodeId::from_bytes(other));
    assert!(check_bucket_index(&me, &other, r, ""), "C02/bucket_index/node_first_differing_bit_modular");
}

// Native replay slot: `cargo kani playback` compiles the crate with cfg(test)+cfg(kani);
// the driver writes the generated concrete-playback unit test here before running it.
#[cfg(test)]
include!("/verif/.build/replay/core_engine.rs");
