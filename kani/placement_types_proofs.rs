//! @module placement::types::verif_proofs
//! Kani contracts for placement types (C17): ReplicationFactor::new over all u8 triples.
use super::*;

fn stub_format(_args: std::fmt::Arguments<'_>) -> String {
    String::new()
}

// @verif property=C17 class=complete fns=ReplicationFactor::new tier=quick,thorough panic=violation
#[kani::proof]
#[kani::stub(alloc::fmt::format, stub_format)]
#[kani::unwind(4)]
fn c17_replication_factor_new() {
    let (min, d, max): (u8, u8, u8) = (kani::any(), kani::any(), kani::any());
    let r = std::mem::ManuallyDrop::new(ReplicationFactor::new(min, d, max));
    kani::cover!(r.is_ok(), "C17/replication/cover_ok");
    assert!(r.is_ok() == (min >= 1 && min <= d && d <= max), "C17/replication/ok_iff_one_le_min_le_default_le_max");
    if let Ok(f) = &*r {
        assert!(f.min == min && f.default == d && f.max == max, "C17/replication/fields_as_given");
    }
}

#[cfg(test)]
include!("/verif/.build/replay/placement_types.rs");
