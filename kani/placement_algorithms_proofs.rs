//! @module placement::algorithms::verif_proofs
//! Kani contracts for the placement sampler / weight function (C17).
use super::*;
use std::mem::ManuallyDrop;

fn stub_format(_args: std::fmt::Arguments<'_>) -> String {
    String::new()
}
/// `powf` has no exact model in CBMC: replaced by an arbitrary f64 (any value incl. NaN/inf), which
/// only enlarges the set of behaviours the obligations must survive.
fn stub_powf(_x: f64, _y: f64) -> f64 {
    kani::any()
}
/// The sampler's random choices become universally quantified inputs.
fn stub_fastrand_f64() -> f64 {
    let u: f64 = kani::any();
    kani::assume(u >= 0.0 && u < 1.0);
    u
}

fn nid(b: u8) -> NodeId {
    NodeId { hash: [b; 32] }
}

// @verif property=C17 class=complete fns=WeightedSampler::calculate_weight tier=quick,thorough panic=violation
#[kani::proof]
#[kani::stub(alloc::fmt::format, stub_format)]
#[kani::stub(f64::powf, stub_powf)]
#[kani::unwind(34)]
fn c17_weight_is_finite_positive_or_error() {
    // calculate_weight never reads `self`
    let s: ManuallyDrop<WeightedSampler> = ManuallyDrop::new(unsafe { std::mem::MaybeUninit::uninit().assume_init() });
    let id = nid(1);
    let (t, p, c, d, a, b, g): (f64, f64, f64, f64, f64, f64, f64) =
        (kani::any(), kani::any(), kani::any(), kani::any(), kani::any(), kani::any(), kani::any());
    let r = ManuallyDrop::new(s.calculate_weight(&id, t, p, c, d, a, b, g));
    kani::cover!(r.is_ok(), "C17/weight/cover_ok");
    kani::cover!(r.is_err() && t.is_nan(), "C17/weight/cover_nan_rejected");
    if let Ok(w) = &*r {
        assert!(w.is_finite() && *w > 0.0, "C17/weight/ok_weight_is_finite_and_positive");
        // trust/stability outside [0,1] (incl. NaN), negative capacity and negative or NaN diversity
        // never yield a weight. (A NaN capacity with gamma == 0 contributes the factor 1 and is not an
        // error; the property only demands "no panic, finite positive weight or error".)
        assert!(t >= 0.0 && t <= 1.0 && p >= 0.0 && p <= 1.0 && !(c < 0.0) && d >= 0.0, "C17/weight/ok_only_for_scores_in_range");
    }
}

fn check_sample(n: usize) {
    let mut s: ManuallyDrop<WeightedSampler> = ManuallyDrop::new(unsafe { std::mem::MaybeUninit::uninit().assume_init() });
    let mut c: Vec<(NodeId, f64)> = Vec::with_capacity(n + 1);
    let mut i = 0;
    while i < n {
        c.push((nid(i as u8 + 1), kani::any()));
        i += 1;
    }
    let c = ManuallyDrop::new(c);
    let k: usize = kani::any();
    kani::assume(k <= n + 2);
    let r = ManuallyDrop::new(s.sample_nodes(&c, k));
    let mut nonpos = false;
    let mut i = 0;
    while i < n {
        if c[i].1 <= 0.0 {
            nonpos = true;
        }
        i += 1;
    }
    kani::cover!(r.is_ok() && k > 1, "C17/sample/cover_ok");
    kani::cover!(r.is_err() && k <= n, "C17/sample/cover_err_weight");
    match &*r {
        Ok(sel) => {
            assert!(sel.len() == k, "C17/sample/exactly_k_nodes");
            assert!(k <= n, "C17/sample/never_more_than_available");
            if k > 0 {
                assert!(!nonpos, "C17/sample/non_positive_weight_is_an_error");
            }
            let mut a = 0;
            while a < n {
                if a < sel.len() {
                    // member of the candidates
                    let mut member = false;
                    let mut j = 0;
                    while j < n {
                        if sel[a] == c[j].0 {
                            member = true;
                        }
                        j += 1;
                    }
                    assert!(member, "C17/sample/only_supplied_candidates");
                    let mut b = a + 1;
                    while b < n {
                        if b < sel.len() {
                            assert!(sel[a] != sel[b], "C17/sample/drawn_without_replacement");
                        }
                        b += 1;
                    }
                }
                a += 1;
            }
        }
        Err(_) => {
            assert!(n == 0 || k > n || nonpos, "C17/sample/error_only_for_empty_short_or_bad_weight");
        }
    }
}

macro_rules! sample_harness {
    ($name:ident, $n:expr) => {
        #[kani::proof]
        #[kani::stub(alloc::fmt::format, stub_format)]
        #[kani::stub(f64::powf, stub_powf)]
        #[kani::stub(fastrand::f64, stub_fastrand_f64)]
        #[kani::unwind(7)]
        fn $name() {
            check_sample($n);
        }
    };
}
// @verif property=C17 class=bounded bound="0 candidates, k in 0..=2, weights any f64 incl. NaN/inf/negative, every random draw in [0,1)" fns=WeightedSampler::sample_nodes uses=check_sample,sample_harness unwindset="memcmp:33" tier=quick,thorough panic=violation
sample_harness!(c17_sample_nodes_0, 0);
// @verif property=C17 class=bounded bound="1 candidates, k in 0..=3, weights any f64 incl. NaN/inf/negative, every random draw in [0,1)" fns=WeightedSampler::sample_nodes uses=check_sample,sample_harness unwindset="memcmp:33" tier=quick,thorough panic=violation
sample_harness!(c17_sample_nodes_1, 1);
// @verif property=C17 class=bounded bound="2 candidates, k in 0..=4, weights any f64 incl. NaN/inf/negative, every random draw in [0,1)" fns=WeightedSampler::sample_nodes uses=check_sample,sample_harness unwindset="memcmp:33" tier=quick,thorough panic=violation
sample_harness!(c17_sample_nodes_2, 2);
// @verif property=C17 class=bounded bound="3 candidates, k in 0..=5, weights any f64 incl. NaN/inf/negative, every random draw in [0,1)" fns=WeightedSampler::sample_nodes uses=check_sample,sample_harness unwindset="memcmp:33" tier=quick,thorough panic=violation
sample_harness!(c17_sample_nodes_3, 3);
// @verif property=C17 class=bounded bound="4 candidates, k in 0..=6, weights any f64 incl. NaN/inf/negative, every random draw in [0,1)" fns=WeightedSampler::sample_nodes uses=check_sample,sample_harness unwindset="memcmp:33" tier=thorough panic=violation
sample_harness!(c17_sample_nodes_4, 4);

#[cfg(test)]
include!("/verif/.build/replay/placement_algorithms.rs");
