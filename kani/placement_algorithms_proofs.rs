//! @module placement::algorithms::verif_proofs
//! Kani contracts for the placement sampler / weight function (C17).
use super::*;
use std::mem::ManuallyDrop;

fn stub_format(_args: std::fmt::Arguments<'_>) -> String {
    String::new()
}
/// `powf` has no exact model in CBMC: replaced by an arbitrary f64 (any value incl. NaN/inf), which
/// only enlarges the set of behaviours the obligations must survive.
fn stub_powf(_x: f64, _y: f64) -> f64 {
    kani::any()
}
/// The sampler's random choices become universally quantified inputs.
fn stub_fastrand_f64() -> f64 {
    let u: f64 = kani::any();
    kani::assume(u >= 0.0 && u < 1.0);
    u
}

fn nid(b: u8) -> NodeId {
    NodeId { hash: [b; 32] }
}

// @verif property=C17 class=complete fns=WeightedSampler::calculate_weight tier=quick,thorough panic=violation
#[kani::proof]
#[kani::stub(alloc::fmt::format, stub_format)]
#[kani::stub(f64::powf, stub_powf)]
#[kani::unwind(34)]
fn c17_weight_is_finite_positive_or_error() {
    // calculate_weight never reads `self`
    let s: ManuallyDrop<WeightedSampler> = ManuallyDrop::new(unsafe { std::mem::MaybeUninit::uninit().assume_init() });
    let id = nid(1);
    let (t, p, c, d, a, b, g): (f64, f64, f64, f64, f64, f64, f64) =
        (kani::any(), kani::any(), kani::any(), kani::any(), kani::any(), kani::any(), kani::any());
    let r = ManuallyDrop::new(s.calculate_weight(&id, t, p, c, d, a, b, g));
    kani::cover!(r.is_ok(), "C17/weight/cover_ok");
    kani::cover!(r.is_err() && t.is_nan(), "C17/weight/cover_nan_rejected");
    if let Ok(w) = &*r {
        assert!(w.is_finite() && *w > 0.0, "C17/weight/ok_weight_is_finite_and_positive");
        // trust/stability outside [0,1] (incl. NaN), negative capacity and negative or NaN diversity
        // never yield a weight. (A NaN capacity with gamma == 0 contributes the factor 1 and is not an
        // error; the property only demands "no panic, finite positive weight or error".)
        assert!(t >= 0.0 && t <= 1.0 && p >= 0.0 && p <= 1.0 && !(c < 0.0) && d >= 0.0, "C17/weight/ok_only_for_scores_in_range");
    }
}

fn check_sample(n: usize) {
    let mut s: ManuallyDrop<WeightedSampler> = ManuallyDrop::new(unsafe { std::mem::MaybeUninit::uninit().assume_init() });
    let mut c: Vec<(NodeId, f64)> = Vec::with_capacity(n + 1);
    let mut i = 0;
    while i < n {
        c.push((nid(i as u8 + 1), kani::any()));
        i += 1;
    }
    let c = ManuallyDrop::new(c);
    let k: usize = kani::any();
    kani::assume(k <= n + 2);
    let r = ManuallyDrop::new(s.sample_nodes(&c, k));
    let mut nonpos = false;
    let mut i = 0;
    while i < n {
        if c[i].1 <= 0.0 {
            nonpos = true;
        }
        i += 1;
    }
    kani::cover!(r.is_ok() && k > 1, "C17/sample/cover_ok");
    kani::cover!(r.is_err() && k <= n, "C17/sample/cover_err_weight");
    match &*r {
        Ok(sel) => {
            assert!(sel.len() == k, "C17/sample/exactly_k_nodes");
            assert!(k <= n, "C17/sample/never_more_than_available");
            if k > 0 {
                assert!(!nonpos, "C17/sample/non_positive_weight_is_an_error");
            }
            let mut a = 0;
            while a < n {
                if a < sel.len() {
                    // member of the candidates
                    let mut member = false;
                    let mut j = 0;
                    while j < n {
                        if sel[a] == c[j].0 {
                            member = true;
                        }
                        j += 1;
                    }
                    assert!(member, "C17/sample/only_supplied_candidates");
                    let mut b = a + 1;
                    while b < n {
                        if b < sel.len() {
                            assert!(sel[a] != sel[b], "C17/sample/drawn_without_replacement");
                        }
                        b += 1;
                    }
                }
                a += 1;
            }
        }
        Err(_) => {
            assert!(n == 0 || k > n || nonpos, "C17/sample/error_only_for_empty_short_or_bad_weight");
        }
    }
}

macro_rules! sample_harness {
    ($name:ident, $n:expr) => {
        #[kani::proof]
        #[kani::stub(alloc::fmt::format, stub_format)]
        #[kani::stub(f64::powf, stub_powf)]
        #[kani::stub(fastrand::f64, stub_fastrand_f64)]
        #[kani::unwind(7)]
        fn $name() {
            check_sample($n);
        }
    };
}
// @verif property=C17 class=bounded bound="0 candidates, k in 0..=2, weights any f64 incl. NaN/inf/negative, every random draw in [0,1)" fns=WeightedSampler::sample_nodes uses=check_sample,sample_harness unwindset="memcmp:33" tier=parked panic=violation
sample_harness!(c17_sample_nodes_0, 0);
// @verif property=C17 class=bounded bound="1 candidates, k in 0..=3, weights any f64 incl. NaN/inf/negative, every random draw in [0,1)" fns=WeightedSampler::sample_nodes uses=check_sample,sample_harness unwindset="memcmp:33" tier=parked panic=violation
sample_harness!(c17_sample_nodes_1, 1);
// @verif property=C17 class=bounded bound="2 candidates, k in 0..=4, weights any f64 incl. NaN/inf/negative, every random draw in [0,1)" fns=WeightedSampler::sample_nodes uses=check_sample,sample_harness unwindset="memcmp:33" tier=parked panic=violation
sample_harness!(c17_sample_nodes_2, 2);
// @verif property=C17 class=bounded bound="3 candidates, k in 0..=5, weights any f64 incl. NaN/inf/negative, every random draw in [0,1)" fns=WeightedSampler::sample_nodes uses=check_sample,sample_harness unwindset="memcmp:33" tier=parked panic=violation
sample_harness!(c17_sample_nodes_3, 3);
// @verif property=C17 class=bounded bound="4 candidates, k in 0..=6, weights any f64 incl. NaN/inf/negative, every random draw in [0,1)" fns=WeightedSampler::sample_nodes uses=check_sample,sample_harness unwindset="memcmp:33" tier=parked panic=violation
sample_harness!(c17_sample_nodes_4, 4);


// ---------------------------------------------------------------------------------------------
// NATIVE FAILING-INPUT SEARCH for C17 (pairs with the Verus unit `placement`): an executable reading of
// the property against the real validate_selection / sample_nodes / select_nodes. A hit is a panic line
// starting with VERIF-SEARCH-HIT; no hit proves nothing.
// ---------------------------------------------------------------------------------------------
#[cfg(test)]
mod verif_search {
    use super::*;
    use crate::placement::PlacementStrategy;

    struct Rng(u64);
    impl Rng {
        fn next(&mut self) -> u64 {
            self.0 ^= self.0 << 13;
            self.0 ^= self.0 >> 7;
            self.0 ^= self.0 << 17;
            self.0
        }
        fn below(&mut self, n: u64) -> u64 {
            self.next() % n
        }
    }
    const REGIONS: [NetworkRegion; 4] = [NetworkRegion::Europe, NetworkRegion::NorthAmerica, NetworkRegion::AsiaPacific, NetworkRegion::Unknown];

    /// the three constraints, read off the property (2 per region, 3 per autonomous system, 50 km)
    fn violates(sel: &[(NodeId, GeographicLocation, u32, NetworkRegion)], max_region: usize, max_asn: usize, min_km: f64) -> Option<String> {
        for (i, a) in sel.iter().enumerate() {
            for (j, b) in sel.iter().enumerate() {
                if i != j && a.1.distance_km(&b.1) < min_km {
                    return Some(format!("entries {} and {} are {:.1} km apart", i, j, a.1.distance_km(&b.1)));
                }
            }
            if sel.iter().filter(|x| x.3 == a.3).count() > max_region {
                return Some(format!("region {:?} holds {} entries", a.3, sel.iter().filter(|x| x.3 == a.3).count()));
            }
            if sel.iter().filter(|x| x.2 == a.2).count() > max_asn {
                return Some(format!("autonomous system {} holds {} entries", a.2, sel.iter().filter(|x| x.2 == a.2).count()));
            }
        }
        None
    }

    fn loc(r: &mut Rng, spread: bool) -> GeographicLocation {
        // a coarse grid (far apart) or a cluster (a few km apart); clusters sit at mid latitudes, at high latitudes
        // (where a degree of longitude is short), next to a pole, or across the +/-180 meridian
        if spread {
            GeographicLocation { latitude: -60.0 + 10.0 * r.below(13) as f64, longitude: -170.0 + 20.0 * r.below(17) as f64 }
        } else {
            match r.below(5) {
                0 => GeographicLocation { latitude: 48.0 + 0.1 * r.below(12) as f64, longitude: 11.0 + 0.1 * r.below(12) as f64 },
                1 => GeographicLocation { latitude: 70.0 + 0.05 * r.below(8) as f64, longitude: 20.0 + 0.4 * r.below(8) as f64 },
                2 => GeographicLocation { latitude: -17.0 + 0.05 * r.below(4) as f64, longitude: if r.below(2) == 0 { 179.9 - 0.05 * r.below(3) as f64 } else { -179.9 + 0.05 * r.below(3) as f64 } },
                3 => GeographicLocation { latitude: 89.8 + 0.05 * r.below(4) as f64, longitude: -180.0 + 45.0 * r.below(8) as f64 },
                _ => GeographicLocation { latitude: -78.2 + 0.02 * r.below(5) as f64, longitude: 15.0 + 0.5 * r.below(6) as f64 },
            }
        }
    }

    #[test]
    fn verif_search_c17() {
        let seed: u64 = std::env::var("VERIF_SEED").ok().and_then(|s| s.parse().ok()).unwrap_or(0);
        let rounds: usize = std::env::var("VERIF_SEARCH_ROUNDS").ok().and_then(|s| s.parse().ok()).unwrap_or(400);
        let mut r = Rng(0x9e37_79b9_7f4a_7c15 ^ seed.wrapping_mul(0x1000_0000_01b3) | 1);
        let enforcer = DiversityEnforcer::new();
        if enforcer.max_nodes_per_region != 2 || enforcer.max_nodes_per_asn != 3 || enforcer.min_geographic_distance / 2.0 != 50.0 {
            panic!("VERIF-SEARCH-HIT C17/config/default_caps_are_two_per_region_and_three_per_autonomous_system region={} asn={} min_km={}", enforcer.max_nodes_per_region, enforcer.max_nodes_per_asn, enforcer.min_geographic_distance / 2.0);
        }
        // 1. validate_selection: an accepted selection satisfies the three constraints
        for round in 0..rounds * 5 {
            let n = r.below(10) as usize;
            let spread = r.below(3) != 0;
            let many_regions = r.below(2) == 0;
            let sel: Vec<(NodeId, GeographicLocation, u32, NetworkRegion)> = (0..n).map(|i| {
                let mut l = loc(&mut r, spread);
                if spread { l.latitude += i as f64 * 0.7; }     // distinct grid points stay far apart; equal ones are 70+ km apart
                (nid(i as u8), l, if many_regions { 100 + r.below(6) as u32 } else { 100 + r.below(2) as u32 }, REGIONS[r.below(if many_regions { 4 } else { 2 }) as usize])
            }).collect();
            if enforcer.validate_selection(&sel).is_ok() {
                if let Some(why) = violates(&sel, 2, 3, 50.0) {
                    let what = if why.starts_with("entries") { "accepted_only_if_no_two_nodes_are_closer_than_half_the_configured_distance" } else if why.starts_with("region") { "accepted_only_if_no_region_holds_more_than_its_cap" } else { "accepted_only_if_no_autonomous_system_holds_more_than_its_cap" };
                    panic!("VERIF-SEARCH-HIT C17/validate/{} round={} accepted a selection of {} entries in which {}: {:?}", what, round, n, why, sel.iter().map(|x| (x.1.latitude, x.1.longitude, x.2, x.3)).collect::<Vec<_>>());
                }
            }
        }
        // 2. sample_nodes: k names taken from the candidates, each position once
        let mut sampler = WeightedSampler::new();
        for round in 0..rounds {
            let n = 1 + r.below(8) as usize;
            let cands: Vec<(NodeId, f64)> = (0..n).map(|i| (nid(i as u8), match r.below(6) { 0 => 1e-9, 1 => 1e9, _ => 0.1 + r.below(100) as f64 / 10.0 })).collect();
            let k = r.below(n as u64 + 2) as usize;
            match sampler.sample_nodes(&cands, k) {
                Ok(v) => {
                    let distinct = v.iter().enumerate().all(|(i, a)| v.iter().skip(i + 1).all(|b| a != b));
                    if v.len() != k || k > n || !distinct || v.iter().any(|x| !cands.iter().any(|c| c.0 == *x)) {
                        panic!("VERIF-SEARCH-HIT C17/sample/k_names_taken_from_the_candidates_each_once round={} candidates={} k={} returned={} distinct={}", round, n, k, v.len(), distinct);
                    }
                }
                Err(_) => {
                    if k <= n {
                        panic!("VERIF-SEARCH-HIT C17/sample/an_error_only_when_there_are_too_few_candidates_or_a_bad_weight round={} candidates={} k={}", round, n, k);
                    }
                }
            }
        }
        // 3. select_nodes: a decision names exactly k distinct candidates satisfying the constraints, or the call fails
        let rt = tokio::runtime::Builder::new_current_thread().enable_all().build().expect("runtime");
        rt.block_on(async {
            let trust = crate::adaptive::trust::EigenTrustEngine::new(std::collections::HashSet::new());
            let perf = crate::adaptive::performance::PerformanceMonitor::new();
            for round in 0..rounds {
                let n = 1 + r.below(14) as usize;
                let spread = r.below(4) != 0;
                let many = r.below(3) != 0;
                let mut meta = HashMap::new();
                let mut cands = HashSet::new();
                for i in 0..n {
                    let mut l = loc(&mut r, spread);
                    if spread { l.latitude += i as f64 * 0.7; }
                    meta.insert(nid(i as u8), (l, if many { 100 + i as u32 / 2 } else { 100 + r.below(2) as u32 }, REGIONS[if many { i % 4 } else { r.below(2) as usize }]));
                    cands.insert(nid(i as u8));
                }
                let k = r.below(n as u64 + 2) as u8;
                let mut strategy = WeightedPlacementStrategy::new(PlacementConfig::default());
                match strategy.select_nodes(&cands, k, &trust, &perf, &meta).await {
                    Ok(d) => {
                        let v = &d.selected_nodes;
                        let distinct = v.iter().enumerate().all(|(i, a)| v.iter().skip(i + 1).all(|b| a != b));
                        if v.len() != k as usize {
                            panic!("VERIF-SEARCH-HIT C17/select/a_decision_names_exactly_the_requested_number_of_nodes round={} candidates={} k={} named={}", round, n, k, v.len());
                        }
                        if !distinct {
                            panic!("VERIF-SEARCH-HIT C17/select/no_node_is_named_twice round={} candidates={} k={}", round, n, k);
                        }
                        if v.iter().any(|x| !cands.contains(x)) {
                            panic!("VERIF-SEARCH-HIT C17/select/every_named_node_is_one_of_the_supplied_candidates round={} candidates={} k={}", round, n, k);
                        }
                        let sel: Vec<_> = v.iter().map(|x| { let m = meta[x]; (x.clone(), m.0, m.1, m.2) }).collect();
                        if let Some(why) = violates(&sel, 2, 3, 50.0) {
                            let what = if why.starts_with("entries") { "no_two_named_nodes_are_closer_than_half_the_configured_distance" } else if why.starts_with("region") { "no_region_holds_more_named_nodes_than_its_cap" } else { "no_autonomous_system_holds_more_named_nodes_than_its_cap" };
                            panic!("VERIF-SEARCH-HIT C17/select/{} round={} candidates={} k={}: {}", what, round, n, k, why);
                        }
                    }
                    Err(_) => {}
                }
            }
        });
    }
}

#[cfg(test)]
include!("/verif/.build/replay/placement_algorithms.rs");
