//! @module dht::routing_maintenance::eviction::verif_proofs
//! EvictionManager (C16). The deciding engine for this module is the Verus unit `evict` (contracts
//! on the mechanically extracted functions, unbounded maps). The Kani harnesses that used to live
//! here (hashbrown tables with 1-2 entries) never finished within 900 s and were removed (see
//! DESIGN.md section 0.3).
//!
//! What remains is the NATIVE FAILING-INPUT SEARCH used when the deductive route cannot decide
//! (a spliced closure contract / loop invariant no longer proves): random event histories on the
//! real EvictionManager, checked against the executable form of the property's policy predicate.
//! A hit is reported with the concrete history; no hit leaves the run UNDECIDED. The search is never
//! counted as evidence that the property holds.
#[allow(unused_imports)]
use super::*;

#[cfg(test)]
mod search {
    use super::*;

    struct Rng(u64);
    impl Rng {
        fn next(&mut self) -> u64 {
            self.0 ^= self.0 << 13;
            self.0 ^= self.0 >> 7;
            self.0 ^= self.0 << 17;
            self.0
        }
        fn below(&mut self, n: u64) -> u64 {
            self.next() % n
        }
    }

    /// scores and thresholds come from one small grid so that equality at the threshold is common
    const GRID: [f64; 9] = [f64::NAN, -1.0, 0.0, 0.1, 0.15, 0.2, 0.5, 1.0, 2.0];

    #[derive(Clone)]
    struct Model {
        cf: std::collections::HashMap<u8, u32>, // tracked liveness states: consecutive failures
        trust: std::collections::HashMap<u8, f64>,
        marked: std::collections::HashMap<u8, EvictionReason>,
    }

    fn id(b: u8) -> DhtNodeId {
        DhtNodeId::from_bytes([b; 32])
    }

    fn policy(m: &Model, x: u8, max: u32, thr: f64) -> Option<u8> {
        // 0 = explicit rejection, 1 = failures, 2 = trust (precedence in this order)
        if m.marked.contains_key(&x) {
            Some(0)
        } else if m.cf.get(&x).is_some_and(|c| *c >= max) {
            Some(1)
        } else if m.trust.get(&x).is_some_and(|s| *s < thr) {
            Some(2)
        } else {
            None
        }
    }

    fn check(mgr: &EvictionManager, m: &Model, max: u32, thr: f64, hist: &str) {
        for x in 0u8..6 {
            let want = policy(m, x, max, thr);
            let got = mgr.get_eviction_reason(&id(x));
            let got_kind = match &got {
                None => None,
                Some(r) if m.marked.get(&x) == Some(r) && want == Some(0) => Some(0),
                Some(EvictionReason::ConsecutiveFailures(n)) if want == Some(1) && Some(n) == m.cf.get(&x) => Some(1),
                Some(EvictionReason::LowTrust(_)) if want == Some(2) => Some(2),
                Some(_) => Some(9),
            };
            if got_kind != want {
                panic!("VERIF-SEARCH-HIT C16/evict/candidate_exactly_when_failures_or_low_trust_or_rejected peer={} want={:?} got={:?} max={} thr={} history=[{}]", x, want, got, max, thr, hist);
            }
            if mgr.should_evict(&id(x)) != m.cf.get(&x).is_some_and(|c| *c >= max) {
                panic!("VERIF-SEARCH-HIT C16/evict/failure_candidate_iff_max_consecutive_failures peer={} max={} history=[{}]", x, max, hist);
            }
            if mgr.should_evict_for_trust(&id(x)) != m.trust.get(&x).is_some_and(|s| *s < thr) {
                panic!("VERIF-SEARCH-HIT C16/evict/trust_candidate_iff_score_below_threshold peer={} thr={} score={:?} history=[{}]", x, thr, m.trust.get(&x), hist);
            }
            if mgr.get_consecutive_failures(&id(x)) != m.cf.get(&x).copied().unwrap_or(0) {
                panic!("VERIF-SEARCH-HIT C16/evict/failure_count_reported peer={} history=[{}]", x, hist);
            }
        }
        let list = mgr.get_eviction_candidates();
        for x in 0u8..6 {
            let n = list.iter().filter(|(i, _)| *i == id(x)).count();
            let want = policy(m, x, max, thr).is_some();
            if n != usize::from(want) {
                panic!("VERIF-SEARCH-HIT C16/evict/candidate_list_is_exactly_the_candidates_each_once_with_the_policy_reason peer={} listed={}x want_listed={} max={} thr={} history=[{}]", x, n, want, max, thr, hist);
            }
        }
        for (i, r) in &list {
            if mgr.get_eviction_reason(i).as_ref() != Some(r) {
                panic!("VERIF-SEARCH-HIT C16/evict/candidate_list_is_exactly_the_candidates_each_once_with_the_policy_reason reason mismatch history=[{}]", hist);
            }
        }
    }

    /// Random interleavings of failure/success/trust-update/mark/forget over 6 peers.
    #[test]
    fn verif_search_c16_evict() {
        let seed: u64 = std::env::var("VERIF_SEED").ok().and_then(|s| s.parse().ok()).unwrap_or(0);
        let mut r = Rng(0x9e37_79b9_7f4a_7c15 ^ seed.wrapping_mul(0x1000_0000_01b3) | 1);
        let rounds: usize = std::env::var("VERIF_SEARCH_ROUNDS").ok().and_then(|s| s.parse().ok()).unwrap_or(600);
        for _ in 0..rounds {
            let max = 1 + r.below(4) as u32;
            let thr = GRID[r.below(GRID.len() as u64) as usize];
            let cfg = MaintenanceConfig { max_consecutive_failures: max, min_trust_threshold: thr, ..Default::default() };
            let mut mgr = EvictionManager::new(cfg);
            let mut m = Model { cf: Default::default(), trust: Default::default(), marked: Default::default() };
            let mut hist = String::new();
            check(&mgr, &m, max, thr, &hist);
            for _ in 0..(1 + r.below(30)) {
                let x = r.below(6) as u8;
                match r.below(6) {
                    0 | 1 => {
                        mgr.record_failure(&id(x));
                        *m.cf.entry(x).or_insert(0) += 1;
                        hist.push_str(&format!("fail({}) ", x));
                    }
                    2 => {
                        mgr.record_success(&id(x));
                        m.cf.insert(x, 0);
                        hist.push_str(&format!("ok({}) ", x));
                        if mgr.should_evict(&id(x)) {
                            panic!("VERIF-SEARCH-HIT C16/evict/one_success_clears_failure_based_candidacy peer={} max={} history=[{}]", x, max, hist);
                        }
                    }
                    3 => {
                        let s = GRID[r.below(GRID.len() as u64) as usize];
                        mgr.update_trust_score(&id(x), s);
                        m.trust.insert(x, s);
                        hist.push_str(&format!("trust({},{}) ", x, s));
                    }
                    4 => {
                        let reason = if r.below(2) == 0 { EvictionReason::CloseGroupRejection } else { EvictionReason::Stale };
                        mgr.record_eviction(&id(x), reason.clone());
                        m.marked.insert(x, reason);
                        hist.push_str(&format!("mark({}) ", x));
                    }
                    _ => {
                        mgr.remove_node(&id(x));
                        m.cf.remove(&x);
                        m.trust.remove(&x);
                        m.marked.remove(&x);
                        hist.push_str(&format!("forget({}) ", x));
                    }
                }
                check(&mgr, &m, max, thr, &hist);
            }
        }
    }
}

#[cfg(test)]
include!("/verif/.build/replay/eviction.rs");
