//! @module dht::routing_maintenance::eviction::verif_proofs
//! Kani harnesses for EvictionManager (C16): a peer is an eviction candidate exactly when it was
//! explicitly rejected, or has >= max consecutive failures since its last success, or its trust
//! score is below the threshold. Map sizes are concrete per check call (presence flags are
//! enumerated), all counters, scores and thresholds are symbolic.
use super::*;
use std::mem::ManuallyDrop;
use std::time::Instant;

fn stub_instant_now() -> Instant {
    unsafe { std::mem::transmute::<(i64, u32), Instant>((1_000_000, 0)) }
}
fn stub_random_state() -> std::hash::RandomState {
    unsafe { std::mem::transmute::<(u64, u64), std::hash::RandomState>((0x0123_4567_89ab_cdef, 0x0f1e_2d3c_4b5a_6978)) }
}
fn stub_format(_args: std::fmt::Arguments<'_>) -> String {
    // the rendered text of EvictionReason::LowTrust is not part of any obligation
    String::new()
}

fn id(b: u8) -> DhtNodeId {
    DhtNodeId::from_bytes([b; 32])
}

fn any_reason() -> EvictionReason {
    if kani::any() {
        EvictionReason::CloseGroupRejection
    } else {
        EvictionReason::Stale
    }
}

struct Sym {
    cf: u32,
    score: f64,
    reason: EvictionReason,
}

/// Manager tracking node X with the given presence flags plus (optionally) another node Y with
/// arbitrary state in all three maps.
fn mk_manager(l: bool, t: bool, m: bool, with_y: bool) -> (EvictionManager, Sym, Sym) {
    let cfg = MaintenanceConfig {
        max_consecutive_failures: kani::any(),
        min_trust_threshold: kani::any(),
        ..Default::default()
    };
    // same state as EvictionManager::new(cfg) (checked by c16_eviction_new_is_empty), but with
    // room for the entries so that hashbrown never rehashes inside the harness
    let mut mgr = EvictionManager {
        config: cfg,
        liveness_states: HashMap::with_capacity(3),
        trust_scores: HashMap::with_capacity(3),
        marked_for_eviction: HashMap::with_capacity(3),
    };
    let x = Sym { cf: kani::any(), score: kani::any(), reason: any_reason() };
    let y = Sym { cf: kani::any(), score: kani::any(), reason: any_reason() };
    kani::assume(x.cf < u32::MAX && y.cf < u32::MAX);
    if l {
        let mut s = NodeLivenessState::new();
        s.consecutive_failures = x.cf;
        mgr.liveness_states.insert(id(1), s);
    }
    if t {
        mgr.trust_scores.insert(id(1), x.score);
    }
    if m {
        mgr.marked_for_eviction.insert(id(1), x.reason.clone());
    }
    if with_y {
        let mut s = NodeLivenessState::new();
        s.consecutive_failures = y.cf;
        mgr.liveness_states.insert(id(2), s);
        mgr.trust_scores.insert(id(2), y.score);
    }
    (mgr, x, y)
}

fn spec_candidate(mgr: &EvictionManager, s: &Sym, l: bool, t: bool, m: bool) -> bool {
    m || (l && s.cf >= mgr.config.max_consecutive_failures) || (t && s.score < mgr.config.min_trust_threshold)
}

fn check_reason(l: bool, t: bool, m: bool) {
    let (mgr, x, _y) = mk_manager(l, t, m, true);
    let mgr = ManuallyDrop::new(mgr);
    let max = mgr.config.max_consecutive_failures;
    let thr = mgr.config.min_trust_threshold;
    assert!(mgr.should_evict(&id(1)) == (l && x.cf >= max), "C16/evict/failure_candidate_iff_max_consecutive_failures");
    assert!(mgr.should_evict_for_trust(&id(1)) == (t && x.score < thr), "C16/evict/trust_candidate_iff_below_threshold");
    assert!(mgr.get_consecutive_failures(&id(1)) == if l { x.cf } else { 0 }, "C16/evict/failure_count_reported");
    let r = ManuallyDrop::new(mgr.get_eviction_reason(&id(1)));
    assert!(r.is_some() == spec_candidate(&mgr, &x, l, t, m), "C16/evict/candidate_exactly_when_policy_says");
    if let Some(reason) = &*r {
        if m {
            assert!(*reason == x.reason, "C16/evict/explicit_rejection_takes_precedence");
        } else if l && x.cf >= max {
            assert!(*reason == EvictionReason::ConsecutiveFailures(x.cf), "C16/evict/failures_before_trust");
        } else {
            assert!(matches!(reason, EvictionReason::LowTrust(_)), "C16/evict/low_trust_reason");
        }
    }
    // an unknown peer is never a candidate
    let u = ManuallyDrop::new(mgr.get_eviction_reason(&id(9)));
    assert!(u.is_none(), "C16/evict/unknown_peer_never_candidate");
}

macro_rules! evict_harness {
    ($name:ident, $f:ident, $k:expr) => {
        #[kani::proof]
        #[kani::stub(std::time::Instant::now, stub_instant_now)]
        #[kani::stub(std::hash::RandomState::new, stub_random_state)]
        #[kani::stub(alloc::fmt::format, stub_format)]
        #[kani::unwind(5)]
        fn $name() {
            $f($k & 1 != 0, $k & 2 != 0, $k & 4 != 0);
        }
    };
}

// @verif property=C16 class=bounded bound="peer X tracked in: liveness=no, trust=no, marked=no; plus 1 other tracked peer; all u32 counts, all f64 scores/thresholds incl. NaN" fns=EvictionManager::get_eviction_reason,EvictionManager::should_evict,EvictionManager::should_evict_for_trust,EvictionManager::get_consecutive_failures uses=check_reason,mk_manager,evict_harness unwindset="memcmp:34,simd_bitmask_impl:18,Hasher>::write:7,rehash_in_place:10,resize_inner:10,prepare_rehash_in_place:10,FullBucketsIndices:10" tier=quick,thorough panic=violation
evict_harness!(c16_eviction_reason_policy_0, check_reason, 0u8);
// @verif property=C16 class=bounded bound="peer X tracked in: liveness=yes, trust=no, marked=no; plus 1 other tracked peer; all u32 counts, all f64 scores/thresholds incl. NaN" fns=EvictionManager::get_eviction_reason,EvictionManager::should_evict,EvictionManager::should_evict_for_trust,EvictionManager::get_consecutive_failures uses=check_reason,mk_manager,evict_harness unwindset="memcmp:34,simd_bitmask_impl:18,Hasher>::write:7,rehash_in_place:10,resize_inner:10,prepare_rehash_in_place:10,FullBucketsIndices:10" tier=quick,thorough panic=violation
evict_harness!(c16_eviction_reason_policy_1, check_reason, 1u8);
// @verif property=C16 class=bounded bound="peer X tracked in: liveness=no, trust=yes, marked=no; plus 1 other tracked peer; all u32 counts, all f64 scores/thresholds incl. NaN" fns=EvictionManager::get_eviction_reason,EvictionManager::should_evict,EvictionManager::should_evict_for_trust,EvictionManager::get_consecutive_failures uses=check_reason,mk_manager,evict_harness unwindset="memcmp:34,simd_bitmask_impl:18,Hasher>::write:7,rehash_in_place:10,resize_inner:10,prepare_rehash_in_place:10,FullBucketsIndices:10" tier=quick,thorough panic=violation
evict_harness!(c16_eviction_reason_policy_2, check_reason, 2u8);
// @verif property=C16 class=bounded bound="peer X tracked in: liveness=yes, trust=yes, marked=no; plus 1 other tracked peer; all u32 counts, all f64 scores/thresholds incl. NaN" fns=EvictionManager::get_eviction_reason,EvictionManager::should_evict,EvictionManager::should_evict_for_trust,EvictionManager::get_consecutive_failures uses=check_reason,mk_manager,evict_harness unwindset="memcmp:34,simd_bitmask_impl:18,Hasher>::write:7,rehash_in_place:10,resize_inner:10,prepare_rehash_in_place:10,FullBucketsIndices:10" tier=quick,thorough panic=violation
evict_harness!(c16_eviction_reason_policy_3, check_reason, 3u8);
// @verif property=C16 class=bounded bound="peer X tracked in: liveness=no, trust=no, marked=yes; plus 1 other tracked peer; all u32 counts, all f64 scores/thresholds incl. NaN" fns=EvictionManager::get_eviction_reason,EvictionManager::should_evict,EvictionManager::should_evict_for_trust,EvictionManager::get_consecutive_failures uses=check_reason,mk_manager,evict_harness unwindset="memcmp:34,simd_bitmask_impl:18,Hasher>::write:7,rehash_in_place:10,resize_inner:10,prepare_rehash_in_place:10,FullBucketsIndices:10" tier=quick,thorough panic=violation
evict_harness!(c16_eviction_reason_policy_4, check_reason, 4u8);
// @verif property=C16 class=bounded bound="peer X tracked in: liveness=yes, trust=no, marked=yes; plus 1 other tracked peer; all u32 counts, all f64 scores/thresholds incl. NaN" fns=EvictionManager::get_eviction_reason,EvictionManager::should_evict,EvictionManager::should_evict_for_trust,EvictionManager::get_consecutive_failures uses=check_reason,mk_manager,evict_harness unwindset="memcmp:34,simd_bitmask_impl:18,Hasher>::write:7,rehash_in_place:10,resize_inner:10,prepare_rehash_in_place:10,FullBucketsIndices:10" tier=quick,thorough panic=violation
evict_harness!(c16_eviction_reason_policy_5, check_reason, 5u8);
// @verif property=C16 class=bounded bound="peer X tracked in: liveness=no, trust=yes, marked=yes; plus 1 other tracked peer; all u32 counts, all f64 scores/thresholds incl. NaN" fns=EvictionManager::get_eviction_reason,EvictionManager::should_evict,EvictionManager::should_evict_for_trust,EvictionManager::get_consecutive_failures uses=check_reason,mk_manager,evict_harness unwindset="memcmp:34,simd_bitmask_impl:18,Hasher>::write:7,rehash_in_place:10,resize_inner:10,prepare_rehash_in_place:10,FullBucketsIndices:10" tier=quick,thorough panic=violation
evict_harness!(c16_eviction_reason_policy_6, check_reason, 6u8);
// @verif property=C16 class=bounded bound="peer X tracked in: liveness=yes, trust=yes, marked=yes; plus 1 other tracked peer; all u32 counts, all f64 scores/thresholds incl. NaN" fns=EvictionManager::get_eviction_reason,EvictionManager::should_evict,EvictionManager::should_evict_for_trust,EvictionManager::get_consecutive_failures uses=check_reason,mk_manager,evict_harness unwindset="memcmp:34,simd_bitmask_impl:18,Hasher>::write:7,rehash_in_place:10,resize_inner:10,prepare_rehash_in_place:10,FullBucketsIndices:10" tier=quick,thorough panic=violation
evict_harness!(c16_eviction_reason_policy_7, check_reason, 7u8);

fn check_events(l: bool, t: bool, m: bool) {
    let (mgr, x, y) = mk_manager(l, t, m, true);
    let mut mgr = ManuallyDrop::new(mgr);
    let max = mgr.config.max_consecutive_failures;
    let ev: u8 = kani::any();
    kani::assume(ev < 5);
    let new_score: f64 = kani::any();
    match ev {
        0 => {
            mgr.record_failure(&id(1));
            let want = if l { x.cf + 1 } else { 1 };
            assert!(mgr.get_consecutive_failures(&id(1)) == want, "C16/evict/failure_counts_since_last_success");
        }
        1 => {
            mgr.record_success(&id(1));
            assert!(mgr.get_consecutive_failures(&id(1)) == 0, "C16/evict/one_success_clears_failures");
            assert!(mgr.should_evict(&id(1)) == (max == 0), "C16/evict/one_success_clears_failure_candidacy");
        }
        2 => {
            mgr.update_trust_score(&id(1), new_score);
            assert!(
                mgr.should_evict_for_trust(&id(1)) == (new_score < mgr.config.min_trust_threshold),
                "C16/evict/trust_update_takes_effect"
            );
        }
        3 => {
            mgr.record_eviction(&id(1), EvictionReason::CloseGroupRejection);
            let r = ManuallyDrop::new(mgr.get_eviction_reason(&id(1)));
            assert!(*r == Some(EvictionReason::CloseGroupRejection), "C16/evict/explicit_rejection_makes_candidate");
        }
        _ => {
            mgr.remove_node(&id(1));
            let r = ManuallyDrop::new(mgr.get_eviction_reason(&id(1)));
            assert!(r.is_none() && mgr.get_consecutive_failures(&id(1)) == 0 && mgr.get_trust_score(&id(1)).is_none(),
                "C16/evict/forgotten_peer_has_no_state");
        }
    }
    // frame: events about X never change what is known about Y
    assert!(mgr.get_consecutive_failures(&id(2)) == y.cf, "C16/evict/other_peer_failures_unchanged");
    let ys = mgr.get_trust_score(&id(2));
    assert!(ys.is_some() && ys.unwrap().to_bits() == y.score.to_bits(), "C16/evict/other_peer_trust_unchanged");
    assert!(!mgr.marked_for_eviction.contains_key(&id(2)), "C16/evict/other_peer_not_marked");
}

// @verif property=C16 class=bounded bound="one event (failure/success/trust update/mark/forget) on peer X tracked in: liveness=no, trust=no, marked=no; one other tracked peer" fns=EvictionManager::record_failure,EvictionManager::record_success,EvictionManager::update_trust_score,EvictionManager::record_eviction,EvictionManager::remove_node uses=check_events,mk_manager,evict_harness unwindset="memcmp:34,simd_bitmask_impl:18,Hasher>::write:7,rehash_in_place:10,resize_inner:10,prepare_rehash_in_place:10,FullBucketsIndices:10" tier=quick,thorough panic=violation
evict_harness!(c16_eviction_events_0, check_events, 0u8);
// @verif property=C16 class=bounded bound="one event (failure/success/trust update/mark/forget) on peer X tracked in: liveness=yes, trust=no, marked=no; one other tracked peer" fns=EvictionManager::record_failure,EvictionManager::record_success,EvictionManager::update_trust_score,EvictionManager::record_eviction,EvictionManager::remove_node uses=check_events,mk_manager,evict_harness unwindset="memcmp:34,simd_bitmask_impl:18,Hasher>::write:7,rehash_in_place:10,resize_inner:10,prepare_rehash_in_place:10,FullBucketsIndices:10" tier=quick,thorough panic=violation
evict_harness!(c16_eviction_events_1, check_events, 1u8);
// @verif property=C16 class=bounded bound="one event (failure/success/trust update/mark/forget) on peer X tracked in: liveness=no, trust=yes, marked=no; one other tracked peer" fns=EvictionManager::record_failure,EvictionManager::record_success,EvictionManager::update_trust_score,EvictionManager::record_eviction,EvictionManager::remove_node uses=check_events,mk_manager,evict_harness unwindset="memcmp:34,simd_bitmask_impl:18,Hasher>::write:7,rehash_in_place:10,resize_inner:10,prepare_rehash_in_place:10,FullBucketsIndices:10" tier=quick,thorough panic=violation
evict_harness!(c16_eviction_events_2, check_events, 2u8);
// @verif property=C16 class=bounded bound="one event (failure/success/trust update/mark/forget) on peer X tracked in: liveness=yes, trust=yes, marked=no; one other tracked peer" fns=EvictionManager::record_failure,EvictionManager::record_success,EvictionManager::update_trust_score,EvictionManager::record_eviction,EvictionManager::remove_node uses=check_events,mk_manager,evict_harness unwindset="memcmp:34,simd_bitmask_impl:18,Hasher>::write:7,rehash_in_place:10,resize_inner:10,prepare_rehash_in_place:10,FullBucketsIndices:10" tier=quick,thorough panic=violation
evict_harness!(c16_eviction_events_3, check_events, 3u8);
// @verif property=C16 class=bounded bound="one event (failure/success/trust update/mark/forget) on peer X tracked in: liveness=no, trust=no, marked=yes; one other tracked peer" fns=EvictionManager::record_failure,EvictionManager::record_success,EvictionManager::update_trust_score,EvictionManager::record_eviction,EvictionManager::remove_node uses=check_events,mk_manager,evict_harness unwindset="memcmp:34,simd_bitmask_impl:18,Hasher>::write:7,rehash_in_place:10,resize_inner:10,prepare_rehash_in_place:10,FullBucketsIndices:10" tier=quick,thorough panic=violation
evict_harness!(c16_eviction_events_4, check_events, 4u8);
// @verif property=C16 class=bounded bound="one event (failure/success/trust update/mark/forget) on peer X tracked in: liveness=yes, trust=no, marked=yes; one other tracked peer" fns=EvictionManager::record_failure,EvictionManager::record_success,EvictionManager::update_trust_score,EvictionManager::record_eviction,EvictionManager::remove_node uses=check_events,mk_manager,evict_harness unwindset="memcmp:34,simd_bitmask_impl:18,Hasher>::write:7,rehash_in_place:10,resize_inner:10,prepare_rehash_in_place:10,FullBucketsIndices:10" tier=quick,thorough panic=violation
evict_harness!(c16_eviction_events_5, check_events, 5u8);
// @verif property=C16 class=bounded bound="one event (failure/success/trust update/mark/forget) on peer X tracked in: liveness=no, trust=yes, marked=yes; one other tracked peer" fns=EvictionManager::record_failure,EvictionManager::record_success,EvictionManager::update_trust_score,EvictionManager::record_eviction,EvictionManager::remove_node uses=check_events,mk_manager,evict_harness unwindset="memcmp:34,simd_bitmask_impl:18,Hasher>::write:7,rehash_in_place:10,resize_inner:10,prepare_rehash_in_place:10,FullBucketsIndices:10" tier=quick,thorough panic=violation
evict_harness!(c16_eviction_events_6, check_events, 6u8);
// @verif property=C16 class=bounded bound="one event (failure/success/trust update/mark/forget) on peer X tracked in: liveness=yes, trust=yes, marked=yes; one other tracked peer" fns=EvictionManager::record_failure,EvictionManager::record_success,EvictionManager::update_trust_score,EvictionManager::record_eviction,EvictionManager::remove_node uses=check_events,mk_manager,evict_harness unwindset="memcmp:34,simd_bitmask_impl:18,Hasher>::write:7,rehash_in_place:10,resize_inner:10,prepare_rehash_in_place:10,FullBucketsIndices:10" tier=quick,thorough panic=violation
evict_harness!(c16_eviction_events_7, check_events, 7u8);

fn check_candidates(l: bool, t: bool, m: bool) {
    let (mgr, x, y) = mk_manager(l, t, m, true);
    let mgr = ManuallyDrop::new(mgr);
    let c = ManuallyDrop::new(mgr.get_eviction_candidates());
    let x_is = spec_candidate(&mgr, &x, l, t, m);
    let y_is = spec_candidate(&mgr, &y, true, true, false);
    let mut nx = 0;
    let mut ny = 0;
    let mut other = 0;
    let mut i = 0;
    while i < 4 {
        if i < c.len() {
            if c[i].0 == id(1) {
                nx += 1;
            } else if c[i].0 == id(2) {
                ny += 1;
            } else {
                other += 1;
            }
        }
        i += 1;
    }
    assert!(c.len() <= 4 && other == 0, "C16/evict/candidates_are_tracked_peers");
    assert!(nx == if x_is { 1 } else { 0 }, "C16/evict/candidate_list_has_each_candidate_once");
    assert!(ny == if y_is { 1 } else { 0 }, "C16/evict/candidate_list_exact_for_other_peer");
}

// @verif property=C16 class=bounded bound="2 tracked peers; first tracked in: liveness=no, trust=no, marked=no" fns=EvictionManager::get_eviction_candidates uses=check_candidates,mk_manager,evict_harness unwindset="memcmp:34,simd_bitmask_impl:18,Hasher>::write:7,rehash_in_place:10,resize_inner:10,prepare_rehash_in_place:10,FullBucketsIndices:10" tier=quick,thorough panic=violation
evict_harness!(c16_eviction_candidates_0, check_candidates, 0u8);
// @verif property=C16 class=bounded bound="2 tracked peers; first tracked in: liveness=yes, trust=no, marked=no" fns=EvictionManager::get_eviction_candidates uses=check_candidates,mk_manager,evict_harness unwindset="memcmp:34,simd_bitmask_impl:18,Hasher>::write:7,rehash_in_place:10,resize_inner:10,prepare_rehash_in_place:10,FullBucketsIndices:10" tier=quick,thorough panic=violation
evict_harness!(c16_eviction_candidates_1, check_candidates, 1u8);
// @verif property=C16 class=bounded bound="2 tracked peers; first tracked in: liveness=no, trust=yes, marked=no" fns=EvictionManager::get_eviction_candidates uses=check_candidates,mk_manager,evict_harness unwindset="memcmp:34,simd_bitmask_impl:18,Hasher>::write:7,rehash_in_place:10,resize_inner:10,prepare_rehash_in_place:10,FullBucketsIndices:10" tier=quick,thorough panic=violation
evict_harness!(c16_eviction_candidates_2, check_candidates, 2u8);
// @verif property=C16 class=bounded bound="2 tracked peers; first tracked in: liveness=yes, trust=yes, marked=no" fns=EvictionManager::get_eviction_candidates uses=check_candidates,mk_manager,evict_harness unwindset="memcmp:34,simd_bitmask_impl:18,Hasher>::write:7,rehash_in_place:10,resize_inner:10,prepare_rehash_in_place:10,FullBucketsIndices:10" tier=quick,thorough panic=violation
evict_harness!(c16_eviction_candidates_3, check_candidates, 3u8);
// @verif property=C16 class=bounded bound="2 tracked peers; first tracked in: liveness=no, trust=no, marked=yes" fns=EvictionManager::get_eviction_candidates uses=check_candidates,mk_manager,evict_harness unwindset="memcmp:34,simd_bitmask_impl:18,Hasher>::write:7,rehash_in_place:10,resize_inner:10,prepare_rehash_in_place:10,FullBucketsIndices:10" tier=quick,thorough panic=violation
evict_harness!(c16_eviction_candidates_4, check_candidates, 4u8);
// @verif property=C16 class=bounded bound="2 tracked peers; first tracked in: liveness=yes, trust=no, marked=yes" fns=EvictionManager::get_eviction_candidates uses=check_candidates,mk_manager,evict_harness unwindset="memcmp:34,simd_bitmask_impl:18,Hasher>::write:7,rehash_in_place:10,resize_inner:10,prepare_rehash_in_place:10,FullBucketsIndices:10" tier=quick,thorough panic=violation
evict_harness!(c16_eviction_candidates_5, check_candidates, 5u8);
// @verif property=C16 class=bounded bound="2 tracked peers; first tracked in: liveness=no, trust=yes, marked=yes" fns=EvictionManager::get_eviction_candidates uses=check_candidates,mk_manager,evict_harness unwindset="memcmp:34,simd_bitmask_impl:18,Hasher>::write:7,rehash_in_place:10,resize_inner:10,prepare_rehash_in_place:10,FullBucketsIndices:10" tier=quick,thorough panic=violation
evict_harness!(c16_eviction_candidates_6, check_candidates, 6u8);
// @verif property=C16 class=bounded bound="2 tracked peers; first tracked in: liveness=yes, trust=yes, marked=yes" fns=EvictionManager::get_eviction_candidates uses=check_candidates,mk_manager,evict_harness unwindset="memcmp:34,simd_bitmask_impl:18,Hasher>::write:7,rehash_in_place:10,resize_inner:10,prepare_rehash_in_place:10,FullBucketsIndices:10" tier=quick,thorough panic=violation
evict_harness!(c16_eviction_candidates_7, check_candidates, 7u8);

#[cfg(test)]
include!("/verif/.build/replay/eviction.rs");
