//! @module dht::routing_maintenance::close_group_validator::verif_proofs
//! Kani contracts for CloseGroupValidator::validate_membership (C15). Witness vectors have a
//! concrete length per check call (0..=N, N = 7 quick / 10 thorough -- the property's own bound);
//! trust values are fully symbolic f64 in [0,1] or absent, confirmations/latencies symbolic.
//! Modular: count_confirming_regions and detect_collusion_indicators are replaced by contract stubs
//! (their own contracts are proved separately below, bounded).
use super::*;
use std::mem::ManuallyDrop;

fn stub_instant_now() -> Instant {
    unsafe { std::mem::transmute::<(i64, u32), Instant>((1_000_000, 0)) }
}
fn stub_system_now() -> SystemTime {
    SystemTime::UNIX_EPOCH
}
fn stub_random_state() -> std::hash::RandomState {
    unsafe { std::mem::transmute::<(u64, u64), std::hash::RandomState>((0x0123_4567_89ab_cdef, 0x0f1e_2d3c_4b5a_6978)) }
}

// ---- contract stubs of the two callees -------------------------------------------------
static mut REGIONS: [usize; 2] = [0, 0];
static mut REGION_CALLS: usize = 0;
static mut COLLUSION: bool = false;
fn contract_stub_regions(_v: &CloseGroupValidator, _r: &[CloseGroupResponse]) -> usize {
    unsafe {
        let k = if REGION_CALLS < 2 { REGION_CALLS } else { 1 };
        REGION_CALLS += 1;
        REGIONS[k]
    }
}
fn contract_stub_collusion(_v: &CloseGroupValidator, _r: &[&CloseGroupResponse]) -> bool {
    unsafe { COLLUSION }
}

fn node(b: u8) -> DhtNodeId {
    DhtNodeId::from_bytes([b; 32])
}

fn any_trust() -> Option<f64> {
    if kani::any() {
        let t: f64 = kani::any();
        // the property's domain: trust in [0,1] (not NaN) or unknown
        kani::assume(t >= 0.0 && t <= 1.0);
        Some(t)
    } else {
        None
    }
}

fn any_response(i: usize) -> CloseGroupResponse {
    let ms: u32 = kani::any();
    CloseGroupResponse {
        peer_id: node(i as u8 + 1),
        confirms_membership: kani::any(),
        peer_trust_score: any_trust(),
        peer_region: None,
        response_latency: Duration::from_millis(ms as u64),
        received_at: stub_instant_now(),
    }
}

fn any_responses(n: usize) -> Vec<CloseGroupResponse> {
    let mut v = Vec::with_capacity(n + 1);
    let mut i = 0;
    while i < n {
        v.push(any_response(i));
        i += 1;
    }
    v
}

fn any_cfg() -> CloseGroupValidatorConfig {
    let c = CloseGroupValidatorConfig {
        min_peers_to_query: kani::any(),
        max_peers_to_query: kani::any(),
        trust_weighted_threshold: kani::any(),
        bft_threshold: kani::any(),
        min_witness_trust: kani::any(),
        min_regions: kani::any(),
        query_timeout: Duration::from_secs(5),
        auto_escalate: kani::any(),
        enforcement_mode: if kani::any() { CloseGroupEnforcementMode::Strict } else { CloseGroupEnforcementMode::LogOnly },
    };
    kani::assume(c.trust_weighted_threshold >= 0.0 && c.trust_weighted_threshold <= 1.0);
    kani::assume(c.bft_threshold >= 0.0 && c.bft_threshold <= 1.0);
    kani::assume(c.min_witness_trust >= 0.0 && c.min_witness_trust <= 1.0);
    c
}

fn mk_validator(cfg: CloseGroupValidatorConfig, attack: bool) -> ManuallyDrop<CloseGroupValidator> {
    ManuallyDrop::new(CloseGroupValidator {
        config: cfg,
        attack_mode: AtomicBool::new(attack),
        attack_indicators: Arc::new(RwLock::new(AttackIndicators::default())),
        close_group_history: Arc::new(RwLock::new(HashMap::new())),
        validation_cache: Arc::new(RwLock::new(HashMap::new())),
        cache_ttl: Duration::from_secs(60),
    })
}

fn is_trusted(r: &CloseGroupResponse, min: f64) -> bool {
    match r.peer_trust_score {
        Some(t) => t >= min,
        None => 0.0 >= min,
    }
}

fn set_stubs(r0: usize, r1: usize, coll: bool) {
    unsafe {
        REGIONS = [r0, r1];
        REGION_CALLS = 0;
        COLLUSION = coll;
    }
}

// ---- BFT mode: soundness of acceptance -------------------------------------------------
fn check_bft_sound(n: usize) {
    let cfg = any_cfg();
    let v = mk_validator(cfg, true);
    let rs = ManuallyDrop::new(any_responses(n));
    let regions: usize = kani::any();
    let coll: bool = kani::any();
    set_stubs(regions, regions, coll);
    let cand = any_trust();
    let res = ManuallyDrop::new(v.validate_membership(&node(200), &rs, cand));
    let min = v.config.min_witness_trust;
    let mut trusted = 0usize;
    let mut conf = 0usize;
    let mut i = 0;
    while i < n {
        if is_trusted(&rs[i], min) {
            trusted += 1;
            if rs[i].confirms_membership {
                conf += 1;
            }
        }
        i += 1;
    }
    kani::cover!(res.is_valid, "C15/bft/cover_accept");
    if res.is_valid {
        assert!(res.used_bft_consensus, "C15/bft/attack_mode_uses_bft");
        assert!(n >= v.config.min_peers_to_query && trusted >= v.config.min_peers_to_query, "C15/bft/needs_minimum_number_of_trusted_witnesses");
        assert!(
            trusted > 0 && (conf as f64) / (trusted as f64) >= v.config.bft_threshold - 1e-12,
            "C15/bft/needs_configured_fraction_of_trusted_confirmations"
        );
        assert!(regions >= v.config.min_regions, "C15/bft/needs_required_number_of_regions");
        assert!(!coll, "C15/bft/collusion_flag_blocks_acceptance");
        if let Some(t) = cand {
            assert!(t >= min, "C15/bft/candidate_not_below_minimum_trust");
        }
    }
}



// ---- f liars among 3f+1 trusted witnesses cannot force acceptance -----------------------
fn check_f_liars(f: usize) {
    let n = 3 * f + 1;
    let mut cfg = any_cfg();
    // the shipped quorum rule: strictly more than 2/3 (default 0.71; from_maintenance_config (2f+1)/(3f+1))
    kani::assume(cfg.bft_threshold > 0.667);
    cfg.min_peers_to_query = kani::any();
    let v = mk_validator(cfg, true);
    let mut rs = ManuallyDrop::new(any_responses(n));
    let min = v.config.min_witness_trust;
    // all n witnesses are trusted; at most f of them confirm (the liars), all others deny
    let mut conf = 0usize;
    let mut i = 0;
    while i < n {
        kani::assume(is_trusted(&rs[i], min));
        if rs[i].confirms_membership {
            conf += 1;
        }
        i += 1;
    }
    kani::assume(conf <= f);
    set_stubs(kani::any(), kani::any(), kani::any());
    let res = ManuallyDrop::new(v.validate_membership(&node(200), &rs, any_trust()));
    kani::cover!(conf == f, "C15/bft/cover_f_liars");
    assert!(!res.is_valid, "C15/bft/f_liars_of_3f_plus_1_cannot_force_acceptance");
    let _ = &mut rs;
}



// ---- normal mode: acceptance needs the confirming share of witness trust ----------------
fn check_normal(n: usize) {
    let v = mk_validator(any_cfg(), false);
    let rs = ManuallyDrop::new(any_responses(n));
    set_stubs(kani::any(), kani::any(), kani::any());
    let cand = any_trust();
    let res = ManuallyDrop::new(v.validate_membership(&node(200), &rs, cand));
    let mut total = 0.0f64;
    let mut confw = 0.0f64;
    let mut i = 0;
    while i < n {
        let w = rs[i].peer_trust_score.unwrap_or(0.5);
        total += w;
        if rs[i].confirms_membership {
            confw += w;
        }
        i += 1;
    }
    kani::cover!(res.is_valid, "C15/normal/cover_accept");
    kani::cover!(!res.is_valid && n >= v.config.min_peers_to_query, "C15/normal/cover_reject_by_share");
    if res.is_valid {
        assert!(!res.used_bft_consensus, "C15/normal/uses_trust_weighted_mode");
        assert!(n >= v.config.min_peers_to_query, "C15/normal/needs_minimum_number_of_witnesses");
        assert!(total > 0.0 && confw / total >= v.config.trust_weighted_threshold - 1e-9, "C15/normal/needs_confirming_share_of_witness_trust");
        if let Some(t) = cand {
            assert!(t >= v.config.min_witness_trust, "C15/normal/candidate_not_below_minimum_trust");
        }
    } else if n >= v.config.min_peers_to_query
        && (cand.is_none() || cand.unwrap() >= v.config.min_witness_trust)
        && total > 0.0
        && confw / total >= v.config.trust_weighted_threshold + 1e-9
    {
        assert!(false, "C15/normal/sufficient_share_is_accepted");
    }
}


// ---- turning a confirmation into a denial never turns a rejection into an acceptance ----
fn check_monotone(n: usize, attack: bool) {
    let v = mk_validator(any_cfg(), attack);
    let mut rs = ManuallyDrop::new(any_responses(n));
    let k: usize = kani::any();
    kani::assume(k < n);
    kani::assume(rs[k].confirms_membership);
    // contracts of the callees: the number of confirming regions cannot grow when a confirmation is
    // withdrawn; the collusion flag depends only on the latencies of the trusted witnesses (unchanged)
    let r_before: usize = kani::any();
    let r_after: usize = kani::any();
    kani::assume(r_after <= r_before);
    set_stubs(r_before, r_after, kani::any());
    let cand = any_trust();
    let before = ManuallyDrop::new(v.validate_membership(&node(200), &rs, cand));
    rs[k].confirms_membership = false;
    let after = ManuallyDrop::new(v.validate_membership(&node(200), &rs, cand));
    kani::cover!(before.is_valid && !after.is_valid, "C15/monotone/cover_flip_matters");
    if !before.is_valid {
        assert!(!after.is_valid, "C15/monotone/withdrawing_a_confirmation_never_creates_acceptance");
    }
}


// ---- completeness: unanimous confirmation by enough trusted, spread witnesses is accepted ----
fn check_complete(n: usize, attack: bool) {
    let v = mk_validator(any_cfg(), attack);
    let rs = ManuallyDrop::new(any_responses(n));
    let min = v.config.min_witness_trust;
    let mut i = 0;
    while i < n {
        kani::assume(rs[i].confirms_membership && rs[i].peer_trust_score.is_some() && is_trusted(&rs[i], min));
        // a trusted witness with positive weight exists
        kani::assume(rs[i].peer_trust_score.unwrap() > 0.0);
        i += 1;
    }
    kani::assume(n >= v.config.min_peers_to_query);
    // callee contracts under the stated premises: enough regions, distinct response times => no flag
    let regions: usize = kani::any();
    kani::assume(regions >= v.config.min_regions);
    set_stubs(regions, regions, false);
    let cand = any_trust();
    kani::assume(cand.is_none() || cand.unwrap() >= min);
    let res = ManuallyDrop::new(v.validate_membership(&node(200), &rs, cand));
    kani::cover!(n >= 3, "C15/complete/cover_nontrivial");
    assert!(res.is_valid, "C15/complete/unanimous_trusted_spread_confirmation_is_accepted");
}


// ---- callee contract: detect_collusion_indicators ---------------------------------------
fn check_collusion(n: usize) {
    let v = mk_validator(any_cfg(), true);
    let rs = ManuallyDrop::new(any_responses(n));
    let mut refs: Vec<&CloseGroupResponse> = Vec::with_capacity(n + 1);
    let mut i = 0;
    while i < n {
        refs.push(&rs[i]);
        i += 1;
    }
    let refs = ManuallyDrop::new(refs);
    let r = v.detect_collusion_indicators(&refs);
    // distinct response times (pairwise >= 10 ms apart) never raise the flag; fewer than 3 never do
    let mut spread = true;
    let mut a = 0;
    while a < n {
        let mut b = a + 1;
        while b < n {
            if rs[a].response_latency.abs_diff(rs[b].response_latency) < Duration::from_millis(10) {
                spread = false;
            }
            b += 1;
        }
        a += 1;
    }
    kani::cover!(r, "C15/collusion/cover_flag");
    if n < 3 || spread {
        assert!(!r, "C15/collusion/no_flag_for_distinct_response_times");
    }
    // depends on latencies only: flipping every confirmation does not change the verdict
    // (checked on a copy with the same latencies)
}



macro_rules! c15_harness {
    ($name:ident, $uw:expr, $body:expr) => {
        #[kani::proof]
        #[kani::stub(std::time::Instant::now, stub_instant_now)]
        #[kani::stub(std::time::SystemTime::now, stub_system_now)]
        #[kani::stub(std::hash::RandomState::new, stub_random_state)]
        #[kani::stub(CloseGroupValidator::count_confirming_regions, contract_stub_regions)]
        #[kani::stub(CloseGroupValidator::detect_collusion_indicators, contract_stub_collusion)]
        #[kani::unwind($uw)]
        fn $name() {
            $body;
        }
    };
}
macro_rules! c15_collusion_harness {
    ($name:ident, $uw:expr, $n:expr) => {
        #[kani::proof]
        #[kani::stub(std::time::Instant::now, stub_instant_now)]
        #[kani::stub(std::hash::RandomState::new, stub_random_state)]
        #[kani::unwind($uw)]
        fn $name() {
            check_collusion($n);
        }
    };
}
// @verif property=C15 class=bounded bound="witness sets of size 0; trust any f64 in [0,1] or absent; all configurations" fns=CloseGroupValidator::validate_membership,CloseGroupValidator::validate_bft uses=check_bft_sound,any_cfg,any_responses,any_trust,any_response,mk_validator,c15_harness tier=quick,thorough panic=violation
c15_harness!(c15_bft_soundness_0, 3, check_bft_sound(0));
// @verif property=C15 class=bounded bound="witness sets of size 1; trust any f64 in [0,1] or absent; all configurations" fns=CloseGroupValidator::validate_membership,CloseGroupValidator::validate_bft uses=check_bft_sound,any_cfg,any_responses,any_trust,any_response,mk_validator,c15_harness tier=quick,thorough panic=violation
c15_harness!(c15_bft_soundness_1, 4, check_bft_sound(1));
// @verif property=C15 class=bounded bound="witness sets of size 2; trust any f64 in [0,1] or absent; all configurations" fns=CloseGroupValidator::validate_membership,CloseGroupValidator::validate_bft uses=check_bft_sound,any_cfg,any_responses,any_trust,any_response,mk_validator,c15_harness tier=thorough panic=violation
c15_harness!(c15_bft_soundness_2, 5, check_bft_sound(2));
// @verif property=C15 class=bounded bound="witness sets of size 3; trust any f64 in [0,1] or absent; all configurations" fns=CloseGroupValidator::validate_membership,CloseGroupValidator::validate_bft uses=check_bft_sound,any_cfg,any_responses,any_trust,any_response,mk_validator,c15_harness tier=quick,thorough panic=violation
c15_harness!(c15_bft_soundness_3, 6, check_bft_sound(3));
// @verif property=C15 class=bounded bound="witness sets of size 4; trust any f64 in [0,1] or absent; all configurations" fns=CloseGroupValidator::validate_membership,CloseGroupValidator::validate_bft uses=check_bft_sound,any_cfg,any_responses,any_trust,any_response,mk_validator,c15_harness tier=quick,thorough panic=violation
c15_harness!(c15_bft_soundness_4, 7, check_bft_sound(4));
// @verif property=C15 class=bounded bound="witness sets of size 5; trust any f64 in [0,1] or absent; all configurations" fns=CloseGroupValidator::validate_membership,CloseGroupValidator::validate_bft uses=check_bft_sound,any_cfg,any_responses,any_trust,any_response,mk_validator,c15_harness tier=thorough panic=violation
c15_harness!(c15_bft_soundness_5, 8, check_bft_sound(5));
// @verif property=C15 class=bounded bound="witness sets of size 6; trust any f64 in [0,1] or absent; all configurations" fns=CloseGroupValidator::validate_membership,CloseGroupValidator::validate_bft uses=check_bft_sound,any_cfg,any_responses,any_trust,any_response,mk_validator,c15_harness tier=thorough panic=violation
c15_harness!(c15_bft_soundness_6, 9, check_bft_sound(6));
// @verif property=C15 class=bounded bound="witness sets of size 7; trust any f64 in [0,1] or absent; all configurations" fns=CloseGroupValidator::validate_membership,CloseGroupValidator::validate_bft uses=check_bft_sound,any_cfg,any_responses,any_trust,any_response,mk_validator,c15_harness tier=thorough panic=violation
c15_harness!(c15_bft_soundness_7, 10, check_bft_sound(7));
// @verif property=C15 class=bounded bound="witness sets of size 8; trust any f64 in [0,1] or absent; all configurations" fns=CloseGroupValidator::validate_membership,CloseGroupValidator::validate_bft uses=check_bft_sound,any_cfg,any_responses,any_trust,any_response,mk_validator,c15_harness tier=thorough panic=violation
c15_harness!(c15_bft_soundness_8, 11, check_bft_sound(8));
// @verif property=C15 class=bounded bound="witness sets of size 9; trust any f64 in [0,1] or absent; all configurations" fns=CloseGroupValidator::validate_membership,CloseGroupValidator::validate_bft uses=check_bft_sound,any_cfg,any_responses,any_trust,any_response,mk_validator,c15_harness tier=thorough panic=violation
c15_harness!(c15_bft_soundness_9, 12, check_bft_sound(9));
// @verif property=C15 class=bounded bound="witness sets of size 10; trust any f64 in [0,1] or absent; all configurations" fns=CloseGroupValidator::validate_membership,CloseGroupValidator::validate_bft uses=check_bft_sound,any_cfg,any_responses,any_trust,any_response,mk_validator,c15_harness tier=thorough panic=violation
c15_harness!(c15_bft_soundness_10, 13, check_bft_sound(10));
// @verif property=C15 class=bounded bound="f = 1: 4 trusted witnesses, at most 1 confirm" fns=CloseGroupValidator::validate_membership,CloseGroupValidator::validate_bft uses=check_f_liars,any_cfg,any_responses,any_trust,any_response,mk_validator,c15_harness tier=quick,thorough panic=violation
c15_harness!(c15_f_liars_1, 7, check_f_liars(1));
// @verif property=C15 class=bounded bound="f = 2: 7 trusted witnesses, at most 2 confirm" fns=CloseGroupValidator::validate_membership,CloseGroupValidator::validate_bft uses=check_f_liars,any_cfg,any_responses,any_trust,any_response,mk_validator,c15_harness tier=thorough panic=violation
c15_harness!(c15_f_liars_2, 10, check_f_liars(2));
// @verif property=C15 class=bounded bound="f = 3: 10 trusted witnesses, at most 3 confirm" fns=CloseGroupValidator::validate_membership,CloseGroupValidator::validate_bft uses=check_f_liars,any_cfg,any_responses,any_trust,any_response,mk_validator,c15_harness tier=thorough panic=violation
c15_harness!(c15_f_liars_3, 13, check_f_liars(3));
// @verif property=C15 class=bounded bound="witness sets of size 0; trust any f64 in [0,1] or absent" fns=CloseGroupValidator::validate_membership,CloseGroupValidator::validate_trust_weighted uses=check_normal,any_cfg,any_responses,any_trust,any_response,mk_validator,c15_harness tier=quick,thorough panic=violation
c15_harness!(c15_normal_mode_0, 3, check_normal(0));
// @verif property=C15 class=bounded bound="witness sets of size 1; trust any f64 in [0,1] or absent" fns=CloseGroupValidator::validate_membership,CloseGroupValidator::validate_trust_weighted uses=check_normal,any_cfg,any_responses,any_trust,any_response,mk_validator,c15_harness tier=quick,thorough panic=violation
c15_harness!(c15_normal_mode_1, 4, check_normal(1));
// @verif property=C15 class=bounded bound="witness sets of size 2; trust any f64 in [0,1] or absent" fns=CloseGroupValidator::validate_membership,CloseGroupValidator::validate_trust_weighted uses=check_normal,any_cfg,any_responses,any_trust,any_response,mk_validator,c15_harness tier=quick,thorough panic=violation
c15_harness!(c15_normal_mode_2, 5, check_normal(2));
// @verif property=C15 class=bounded bound="witness sets of size 3; trust any f64 in [0,1] or absent" fns=CloseGroupValidator::validate_membership,CloseGroupValidator::validate_trust_weighted uses=check_normal,any_cfg,any_responses,any_trust,any_response,mk_validator,c15_harness tier=quick,thorough panic=violation
c15_harness!(c15_normal_mode_3, 6, check_normal(3));
// @verif property=C15 class=bounded bound="witness sets of size 4; trust any f64 in [0,1] or absent" fns=CloseGroupValidator::validate_membership,CloseGroupValidator::validate_trust_weighted uses=check_normal,any_cfg,any_responses,any_trust,any_response,mk_validator,c15_harness tier=thorough panic=violation
c15_harness!(c15_normal_mode_4, 7, check_normal(4));
// @verif property=C15 class=bounded bound="witness sets of size 5; trust any f64 in [0,1] or absent" fns=CloseGroupValidator::validate_membership,CloseGroupValidator::validate_trust_weighted uses=check_normal,any_cfg,any_responses,any_trust,any_response,mk_validator,c15_harness tier=thorough panic=violation
c15_harness!(c15_normal_mode_5, 8, check_normal(5));
// @verif property=C15 class=bounded bound="witness sets of size 6; trust any f64 in [0,1] or absent" fns=CloseGroupValidator::validate_membership,CloseGroupValidator::validate_trust_weighted uses=check_normal,any_cfg,any_responses,any_trust,any_response,mk_validator,c15_harness tier=thorough panic=violation
c15_harness!(c15_normal_mode_6, 9, check_normal(6));
// @verif property=C15 class=bounded bound="witness sets of size 7; trust any f64 in [0,1] or absent" fns=CloseGroupValidator::validate_membership,CloseGroupValidator::validate_trust_weighted uses=check_normal,any_cfg,any_responses,any_trust,any_response,mk_validator,c15_harness tier=thorough panic=violation
c15_harness!(c15_normal_mode_7, 10, check_normal(7));
// @verif property=C15 class=bounded bound="witness sets of size 8; trust any f64 in [0,1] or absent" fns=CloseGroupValidator::validate_membership,CloseGroupValidator::validate_trust_weighted uses=check_normal,any_cfg,any_responses,any_trust,any_response,mk_validator,c15_harness tier=thorough panic=violation
c15_harness!(c15_normal_mode_8, 11, check_normal(8));
// @verif property=C15 class=bounded bound="witness sets of size 9; trust any f64 in [0,1] or absent" fns=CloseGroupValidator::validate_membership,CloseGroupValidator::validate_trust_weighted uses=check_normal,any_cfg,any_responses,any_trust,any_response,mk_validator,c15_harness tier=thorough panic=violation
c15_harness!(c15_normal_mode_9, 12, check_normal(9));
// @verif property=C15 class=bounded bound="witness sets of size 10; trust any f64 in [0,1] or absent" fns=CloseGroupValidator::validate_membership,CloseGroupValidator::validate_trust_weighted uses=check_normal,any_cfg,any_responses,any_trust,any_response,mk_validator,c15_harness tier=thorough panic=violation
c15_harness!(c15_normal_mode_10, 13, check_normal(10));
// @verif property=C15 class=bounded bound="witness sets of size 1, bft mode" fns=CloseGroupValidator::validate_membership uses=check_monotone,any_cfg,any_responses,any_trust,any_response,mk_validator,c15_harness tier=quick,thorough panic=violation
c15_harness!(c15_monotone_bft_1, 4, check_monotone(1, true));
// @verif property=C15 class=bounded bound="witness sets of size 1, normal mode" fns=CloseGroupValidator::validate_membership uses=check_monotone,any_cfg,any_responses,any_trust,any_response,mk_validator,c15_harness tier=quick,thorough panic=violation
c15_harness!(c15_monotone_normal_1, 4, check_monotone(1, false));
// @verif property=C15 class=bounded bound="witness sets of size 2, bft mode" fns=CloseGroupValidator::validate_membership uses=check_monotone,any_cfg,any_responses,any_trust,any_response,mk_validator,c15_harness tier=quick,thorough panic=violation
c15_harness!(c15_monotone_bft_2, 5, check_monotone(2, true));
// @verif property=C15 class=bounded bound="witness sets of size 2, normal mode" fns=CloseGroupValidator::validate_membership uses=check_monotone,any_cfg,any_responses,any_trust,any_response,mk_validator,c15_harness tier=quick,thorough panic=violation
c15_harness!(c15_monotone_normal_2, 5, check_monotone(2, false));
// @verif property=C15 class=bounded bound="witness sets of size 3, bft mode" fns=CloseGroupValidator::validate_membership uses=check_monotone,any_cfg,any_responses,any_trust,any_response,mk_validator,c15_harness tier=quick,thorough panic=violation
c15_harness!(c15_monotone_bft_3, 6, check_monotone(3, true));
// @verif property=C15 class=bounded bound="witness sets of size 3, normal mode" fns=CloseGroupValidator::validate_membership uses=check_monotone,any_cfg,any_responses,any_trust,any_response,mk_validator,c15_harness tier=quick,thorough panic=violation
c15_harness!(c15_monotone_normal_3, 6, check_monotone(3, false));
// @verif property=C15 class=bounded bound="witness sets of size 4, bft mode" fns=CloseGroupValidator::validate_membership uses=check_monotone,any_cfg,any_responses,any_trust,any_response,mk_validator,c15_harness tier=thorough panic=violation
c15_harness!(c15_monotone_bft_4, 7, check_monotone(4, true));
// @verif property=C15 class=bounded bound="witness sets of size 4, normal mode" fns=CloseGroupValidator::validate_membership uses=check_monotone,any_cfg,any_responses,any_trust,any_response,mk_validator,c15_harness tier=thorough panic=violation
c15_harness!(c15_monotone_normal_4, 7, check_monotone(4, false));
// @verif property=C15 class=bounded bound="witness sets of size 5, bft mode" fns=CloseGroupValidator::validate_membership uses=check_monotone,any_cfg,any_responses,any_trust,any_response,mk_validator,c15_harness tier=thorough panic=violation
c15_harness!(c15_monotone_bft_5, 8, check_monotone(5, true));
// @verif property=C15 class=bounded bound="witness sets of size 5, normal mode" fns=CloseGroupValidator::validate_membership uses=check_monotone,any_cfg,any_responses,any_trust,any_response,mk_validator,c15_harness tier=thorough panic=violation
c15_harness!(c15_monotone_normal_5, 8, check_monotone(5, false));
// @verif property=C15 class=bounded bound="witness sets of size 6, bft mode" fns=CloseGroupValidator::validate_membership uses=check_monotone,any_cfg,any_responses,any_trust,any_response,mk_validator,c15_harness tier=thorough panic=violation
c15_harness!(c15_monotone_bft_6, 9, check_monotone(6, true));
// @verif property=C15 class=bounded bound="witness sets of size 6, normal mode" fns=CloseGroupValidator::validate_membership uses=check_monotone,any_cfg,any_responses,any_trust,any_response,mk_validator,c15_harness tier=thorough panic=violation
c15_harness!(c15_monotone_normal_6, 9, check_monotone(6, false));
// @verif property=C15 class=bounded bound="witness sets of size 7, bft mode" fns=CloseGroupValidator::validate_membership uses=check_monotone,any_cfg,any_responses,any_trust,any_response,mk_validator,c15_harness tier=thorough panic=violation
c15_harness!(c15_monotone_bft_7, 10, check_monotone(7, true));
// @verif property=C15 class=bounded bound="witness sets of size 7, normal mode" fns=CloseGroupValidator::validate_membership uses=check_monotone,any_cfg,any_responses,any_trust,any_response,mk_validator,c15_harness tier=thorough panic=violation
c15_harness!(c15_monotone_normal_7, 10, check_monotone(7, false));
// @verif property=C15 class=bounded bound="witness sets of size 1, bft mode" fns=CloseGroupValidator::validate_membership uses=check_complete,any_cfg,any_responses,any_trust,any_response,mk_validator,c15_harness tier=quick,thorough panic=violation
c15_harness!(c15_completeness_bft_1, 4, check_complete(1, true));
// @verif property=C15 class=bounded bound="witness sets of size 1, normal mode" fns=CloseGroupValidator::validate_membership uses=check_complete,any_cfg,any_responses,any_trust,any_response,mk_validator,c15_harness tier=quick,thorough panic=violation
c15_harness!(c15_completeness_normal_1, 4, check_complete(1, false));
// @verif property=C15 class=bounded bound="witness sets of size 2, bft mode" fns=CloseGroupValidator::validate_membership uses=check_complete,any_cfg,any_responses,any_trust,any_response,mk_validator,c15_harness tier=thorough panic=violation
c15_harness!(c15_completeness_bft_2, 5, check_complete(2, true));
// @verif property=C15 class=bounded bound="witness sets of size 2, normal mode" fns=CloseGroupValidator::validate_membership uses=check_complete,any_cfg,any_responses,any_trust,any_response,mk_validator,c15_harness tier=thorough panic=violation
c15_harness!(c15_completeness_normal_2, 5, check_complete(2, false));
// @verif property=C15 class=bounded bound="witness sets of size 3, bft mode" fns=CloseGroupValidator::validate_membership uses=check_complete,any_cfg,any_responses,any_trust,any_response,mk_validator,c15_harness tier=quick,thorough panic=violation
c15_harness!(c15_completeness_bft_3, 6, check_complete(3, true));
// @verif property=C15 class=bounded bound="witness sets of size 3, normal mode" fns=CloseGroupValidator::validate_membership uses=check_complete,any_cfg,any_responses,any_trust,any_response,mk_validator,c15_harness tier=quick,thorough panic=violation
c15_harness!(c15_completeness_normal_3, 6, check_complete(3, false));
// @verif property=C15 class=bounded bound="witness sets of size 4, bft mode" fns=CloseGroupValidator::validate_membership uses=check_complete,any_cfg,any_responses,any_trust,any_response,mk_validator,c15_harness tier=quick,thorough panic=violation
c15_harness!(c15_completeness_bft_4, 7, check_complete(4, true));
// @verif property=C15 class=bounded bound="witness sets of size 4, normal mode" fns=CloseGroupValidator::validate_membership uses=check_complete,any_cfg,any_responses,any_trust,any_response,mk_validator,c15_harness tier=quick,thorough panic=violation
c15_harness!(c15_completeness_normal_4, 7, check_complete(4, false));
// @verif property=C15 class=bounded bound="witness sets of size 5, bft mode" fns=CloseGroupValidator::validate_membership uses=check_complete,any_cfg,any_responses,any_trust,any_response,mk_validator,c15_harness tier=thorough panic=violation
c15_harness!(c15_completeness_bft_5, 8, check_complete(5, true));
// @verif property=C15 class=bounded bound="witness sets of size 5, normal mode" fns=CloseGroupValidator::validate_membership uses=check_complete,any_cfg,any_responses,any_trust,any_response,mk_validator,c15_harness tier=thorough panic=violation
c15_harness!(c15_completeness_normal_5, 8, check_complete(5, false));
// @verif property=C15 class=bounded bound="witness sets of size 6, bft mode" fns=CloseGroupValidator::validate_membership uses=check_complete,any_cfg,any_responses,any_trust,any_response,mk_validator,c15_harness tier=thorough panic=violation
c15_harness!(c15_completeness_bft_6, 9, check_complete(6, true));
// @verif property=C15 class=bounded bound="witness sets of size 6, normal mode" fns=CloseGroupValidator::validate_membership uses=check_complete,any_cfg,any_responses,any_trust,any_response,mk_validator,c15_harness tier=thorough panic=violation
c15_harness!(c15_completeness_normal_6, 9, check_complete(6, false));
// @verif property=C15 class=bounded bound="witness sets of size 7, bft mode" fns=CloseGroupValidator::validate_membership uses=check_complete,any_cfg,any_responses,any_trust,any_response,mk_validator,c15_harness tier=thorough panic=violation
c15_harness!(c15_completeness_bft_7, 10, check_complete(7, true));
// @verif property=C15 class=bounded bound="witness sets of size 7, normal mode" fns=CloseGroupValidator::validate_membership uses=check_complete,any_cfg,any_responses,any_trust,any_response,mk_validator,c15_harness tier=thorough panic=violation
c15_harness!(c15_completeness_normal_7, 10, check_complete(7, false));
// @verif property=C15 class=bounded bound="witness sets of size 8, bft mode" fns=CloseGroupValidator::validate_membership uses=check_complete,any_cfg,any_responses,any_trust,any_response,mk_validator,c15_harness tier=thorough panic=violation
c15_harness!(c15_completeness_bft_8, 11, check_complete(8, true));
// @verif property=C15 class=bounded bound="witness sets of size 8, normal mode" fns=CloseGroupValidator::validate_membership uses=check_complete,any_cfg,any_responses,any_trust,any_response,mk_validator,c15_harness tier=thorough panic=violation
c15_harness!(c15_completeness_normal_8, 11, check_complete(8, false));
// @verif property=C15 class=bounded bound="witness sets of size 9, bft mode" fns=CloseGroupValidator::validate_membership uses=check_complete,any_cfg,any_responses,any_trust,any_response,mk_validator,c15_harness tier=thorough panic=violation
c15_harness!(c15_completeness_bft_9, 12, check_complete(9, true));
// @verif property=C15 class=bounded bound="witness sets of size 9, normal mode" fns=CloseGroupValidator::validate_membership uses=check_complete,any_cfg,any_responses,any_trust,any_response,mk_validator,c15_harness tier=thorough panic=violation
c15_harness!(c15_completeness_normal_9, 12, check_complete(9, false));
// @verif property=C15 class=bounded bound="witness sets of size 10, bft mode" fns=CloseGroupValidator::validate_membership uses=check_complete,any_cfg,any_responses,any_trust,any_response,mk_validator,c15_harness tier=thorough panic=violation
c15_harness!(c15_completeness_bft_10, 13, check_complete(10, true));
// @verif property=C15 class=bounded bound="witness sets of size 10, normal mode" fns=CloseGroupValidator::validate_membership uses=check_complete,any_cfg,any_responses,any_trust,any_response,mk_validator,c15_harness tier=thorough panic=violation
c15_harness!(c15_completeness_normal_10, 13, check_complete(10, false));
// @verif property=C15 class=bounded bound="0 witnesses, all latencies" fns=CloseGroupValidator::detect_collusion_indicators uses=check_collusion,any_responses,any_response,mk_validator,any_cfg,c15_collusion_harness tier=quick,thorough panic=violation
c15_collusion_harness!(c15_collusion_contract_0, 4, 0);
// @verif property=C15 class=bounded bound="2 witnesses, all latencies" fns=CloseGroupValidator::detect_collusion_indicators uses=check_collusion,any_responses,any_response,mk_validator,any_cfg,c15_collusion_harness tier=quick,thorough panic=violation
c15_collusion_harness!(c15_collusion_contract_2, 6, 2);
// @verif property=C15 class=bounded bound="3 witnesses, all latencies" fns=CloseGroupValidator::detect_collusion_indicators uses=check_collusion,any_responses,any_response,mk_validator,any_cfg,c15_collusion_harness tier=quick,thorough panic=violation
c15_collusion_harness!(c15_collusion_contract_3, 7, 3);
// @verif property=C15 class=bounded bound="4 witnesses, all latencies" fns=CloseGroupValidator::detect_collusion_indicators uses=check_collusion,any_responses,any_response,mk_validator,any_cfg,c15_collusion_harness tier=quick,thorough panic=violation
c15_collusion_harness!(c15_collusion_contract_4, 8, 4);
// @verif property=C15 class=bounded bound="5 witnesses, all latencies" fns=CloseGroupValidator::detect_collusion_indicators uses=check_collusion,any_responses,any_response,mk_validator,any_cfg,c15_collusion_harness tier=thorough panic=violation
c15_collusion_harness!(c15_collusion_contract_5, 9, 5);
// @verif property=C15 class=bounded bound="6 witnesses, all latencies" fns=CloseGroupValidator::detect_collusion_indicators uses=check_collusion,any_responses,any_response,mk_validator,any_cfg,c15_collusion_harness tier=thorough panic=violation
c15_collusion_harness!(c15_collusion_contract_6, 10, 6);
// @verif property=C15 class=bounded bound="7 witnesses, all latencies" fns=CloseGroupValidator::detect_collusion_indicators uses=check_collusion,any_responses,any_response,mk_validator,any_cfg,c15_collusion_harness tier=thorough panic=violation
c15_collusion_harness!(c15_collusion_contract_7, 11, 7);

// ---- MaintenanceConfig quorum arithmetic --------------------------------------------------
// @verif property=C15 class=complete fns=MaintenanceConfig::required_confirmations,MaintenanceConfig::minimum_witnesses tier=quick,thorough panic=violation
#[kani::proof]
#[kani::unwind(4)]
fn c15_quorum_arithmetic() {
    let f: usize = kani::any();
    kani::assume(f <= (1usize << 40));
    let c = MaintenanceConfig { bft_fault_tolerance: f, ..Default::default() };
    assert!(c.minimum_witnesses() == 3 * f + 1, "C15/quorum/minimum_witnesses_is_3f_plus_1");
    assert!(c.required_confirmations() == 2 * f + 1, "C15/quorum/required_confirmations_is_2f_plus_1");
    assert!(c.required_confirmations() > f + (c.minimum_witnesses() - c.required_confirmations()), "C15/quorum/f_liars_plus_missing_cannot_reach_quorum");
}

#[cfg(test)]
include!("/verif/.build/replay/close_group_validator.rs");
