//! @module dht::routing_maintenance::close_group_validator::verif_proofs
//! Kani contracts for CloseGroupValidator::validate_membership (C15). Witness vectors have a
//! concrete length per check call (0..=N, N = 7 quick / 10 thorough -- the property's own bound);
//! trust values are fully symbolic f64 in [0,1] or absent, confirmations/latencies symbolic.
//! Modular: count_confirming_regions and detect_collusion_indicators are replaced by contract stubs
//! (their own contracts are proved separately below, bounded).
use super::*;
use std::mem::ManuallyDrop;

fn stub_instant_now() -> Instant {
    unsafe { std::mem::transmute::<(i64, u32), Instant>((1_000_000, 0)) }
}
fn stub_system_now() -> SystemTime {
    SystemTime::UNIX_EPOCH
}
fn stub_random_state() -> std::hash::RandomState {
    unsafe { std::mem::transmute::<(u64, u64), std::hash::RandomState>((0x0123_4567_89ab_cdef, 0x0f1e_2d3c_4b5a_6978)) }
}

// ---- contract stubs of the two callees -------------------------------------------------
static mut REGIONS: [usize; 2] = [0, 0];
static mut REGION_CALLS: usize = 0;
static mut COLLUSION: bool = false;
fn contract_stub_regions(_v: &CloseGroupValidator, _r: &[CloseGroupResponse]) -> usize {
    unsafe {
        let k = if REGION_CALLS < 2 { REGION_CALLS } else { 1 };
        REGION_CALLS += 1;
        REGIONS[k]
    }
}
fn contract_stub_collusion(_v: &CloseGroupValidator, _r: &[&CloseGroupResponse]) -> bool {
    unsafe { COLLUSION }
}

fn node(b: u8) -> DhtNodeId {
    DhtNodeId::from_bytes([b; 32])
}

fn any_trust() -> Option<f64> {
    if kani::any() {
        let t: f64 = kani::any();
        // the property's domain: trust in [0,1] (not NaN) or unknown
        kani::assume(t >= 0.0 && t <= 1.0);
        Some(t)
    } else {
        None
    }
}

fn any_response(i: usize) -> CloseGroupResponse {
    let ms: u32 = kani::any();
    CloseGroupResponse {
        peer_id: node(i as u8 + 1),
        confirms_membership: kani::any(),
        peer_trust_score: any_trust(),
        peer_region: None,
        response_latency: Duration::from_millis(ms as u64),
        received_at: stub_instant_now(),
    }
}

fn any_responses(n: usize) -> Vec<CloseGroupResponse> {
    let mut v = Vec::with_capacity(n + 1);
    let mut i = 0;
    while i < n {
        v.push(any_response(i));
        i += 1;
    }
    v
}

fn any_cfg() -> CloseGroupValidatorConfig {
    let c = CloseGroupValidatorConfig {
        min_peers_to_query: kani::any(),
        max_peers_to_query: kani::any(),
        trust_weighted_threshold: kani::any(),
        bft_threshold: kani::any(),
        min_witness_trust: kani::any(),
        min_regions: kani::any(),
        query_timeout: Duration::from_secs(5),
        auto_escalate: kani::any(),
        enforcement_mode: if kani::any() { CloseGroupEnforcementMode::Strict } else { CloseGroupEnforcementMode::LogOnly },
    };
    kani::assume(c.trust_weighted_threshold >= 0.0 && c.trust_weighted_threshold <= 1.0);
    kani::assume(c.bft_threshold >= 0.0 && c.bft_threshold <= 1.0);
    kani::assume(c.min_witness_trust >= 0.0 && c.min_witness_trust <= 1.0);
    c
}

fn mk_validator(cfg: CloseGroupValidatorConfig, attack: bool) -> ManuallyDrop<CloseGroupValidator> {
    ManuallyDrop::new(CloseGroupValidator {
        config: cfg,
        attack_mode: AtomicBool::new(attack),
        attack_indicators: Arc::new(RwLock::new(AttackIndicators::default())),
        close_group_history: Arc::new(RwLock::new(HashMap::new())),
        validation_cache: Arc::new(RwLock::new(HashMap::new())),
        cache_ttl: Duration::from_secs(60),
    })
}

fn is_trusted(r: &CloseGroupResponse, min: f64) -> bool {
    match r.peer_trust_score {
        Some(t) => t >= min,
        None => 0.0 >= min,
    }
}

fn set_stubs(r0: usize, r1: usize, coll: bool) {
    unsafe {
        REGIONS = [r0, r1];
        REGION_CALLS = 0;
        COLLUSION = coll;
    }
}

// ---- BFT mode: soundness of acceptance -------------------------------------------------
fn check_bft_sound(n: usize) {
    let cfg = any_cfg();
    let v = mk_validator(cfg, true);
    let rs = ManuallyDrop::new(any_responses(n));
    let regions: usize = kani::any();
    let coll: bool = kani::any();
    set_stubs(regions, regions, coll);
    let cand = any_trust();
    let res = ManuallyDrop::new(v.validate_membership(&node(200), &rs, cand));
    let min = v.config.min_witness_trust;
    let mut trusted = 0usize;
    let mut conf = 0usize;
    let mut i = 0;
    while i < n {
        if is_trusted(&rs[i], min) {
            trusted += 1;
            if rs[i].confirms_membership {
                conf += 1;
            }
        }
        i += 1;
    }
    kani::cover!(res.is_valid, "C15/bft/cover_accept");
    if res.is_valid {
        assert!(res.used_bft_consensus, "C15/bft/attack_mode_uses_bft");
        assert!(n >= v.config.min_peers_to_query && trusted >= v.config.min_peers_to_query, "C15/bft/needs_minimum_number_of_trusted_witnesses");
        assert!(
            trusted > 0 && (conf as f64) / (trusted as f64) >= v.config.bft_threshold - 1e-12,
            "C15/bft/needs_configured_fraction_of_trusted_confirmations"
        );
        assert!(regions >= v.config.min_regions, "C15/bft/needs_required_number_of_regions");
        assert!(!coll, "C15/bft/collusion_flag_blocks_acceptance");
        if let Some(t) = cand {
            assert!(t >= min, "C15/bft/candidate_not_below_minimum_trust");
        }
    }
}



// ---- f liars among 3f+1 trusted witnesses cannot force acceptance -----------------------
fn check_f_liars(f: usize) {
    let n = 3 * f + 1;
    let mut cfg = any_cfg();
    // the shipped quorum rule: strictly more than 2/3 (default 0.71; from_maintenance_config (2f+1)/(3f+1))
    kani::assume(cfg.bft_threshold > 0.667);
    cfg.min_peers_to_query = kani::any();
    let v = mk_validator(cfg, true);
    let mut rs = ManuallyDrop::new(any_responses(n));
    let min = v.config.min_witness_trust;
    // all n witnesses are trusted; at most f of them confirm (the liars), all others deny
    let mut conf = 0usize;
    let mut i = 0;
    while i < n {
        kani::assume(is_trusted(&rs[i], min));
        if rs[i].confirms_membership {
            conf += 1;
        }
        i += 1;
    }
    kani::assume(conf <= f);
    set_stubs(kani::any(), kani::any(), kani::any());
    let res = ManuallyDrop::new(v.validate_membership(&node(200), &rs, any_trust()));
    kani::cover!(conf == f, "C15/bft/cover_f_liars");
    assert!(!res.is_valid, "C15/bft/f_liars_of_3f_plus_1_cannot_force_acceptance");
    let _ = &mut rs;
}



// ---- normal mode: acceptance needs the confirming share of witness trust ----------------
fn check_normal(n: usize) {
    let v = mk_validator(any_cfg(), false);
    let rs = ManuallyDrop::new(any_responses(n));
    set_stubs(kani::any(), kani::any(), kani::any());
    let cand = any_trust();
    let res = ManuallyDrop::new(v.validate_membership(&node(200), &rs, cand));
    let mut total = 0.0f64;
    let mut confw = 0.0f64;
    let mut i = 0;
    while i < n {
        let w = rs[i].peer_trust_score.unwrap_or(0.5);
        total += w;
        if rs[i].confirms_membership {
            confw += w;
        }
        i += 1;
    }
    kani::cover!(res.is_valid, "C15/normal/cover_accept");
    kani::cover!(!res.is_valid && n >= v.config.min_peers_to_query, "C15/normal/cover_reject_by_share");
    if res.is_valid {
        assert!(!res.used_bft_consensus, "C15/normal/uses_trust_weighted_mode");
        assert!(n >= v.config.min_peers_to_query, "C15/normal/needs_minimum_number_of_witnesses");
        assert!(total > 0.0 && confw / total >= v.config.trust_weighted_threshold - 1e-9, "C15/normal/needs_confirming_share_of_witness_trust");
        if let Some(t) = cand {
            assert!(t >= v.config.min_witness_trust, "C15/normal/candidate_not_below_minimum_trust");
        }
    } else if n >= v.config.min_peers_to_query
        && (cand.is_none() || cand.unwrap() >= v.config.min_witness_trust)
        && total > 0.0
        && confw / total >= v.config.trust_weighted_threshold + 1e-9
    {
        assert!(false, "C15/normal/sufficient_share_is_accepted");
    }
}


// ---- turning a confirmation into a denial never turns a rejection into an acceptance ----
fn check_monotone(n: usize, attack: bool) {
    let v = mk_validator(any_cfg(), attack);
    let mut rs = ManuallyDrop::new(any_responses(n));
    let k: usize = kani::any();
    kani::assume(k < n);
    kani::assume(rs[k].confirms_membership);
    // contracts of the callees: the number of confirming regions cannot grow when a confirmation is
    // withdrawn; the collusion flag depends only on the latencies of the trusted witnesses (unchanged)
    let r_before: usize = kani::any();
    let r_after: usize = kani::any();
    kani::assume(r_after <= r_before);
    set_stubs(r_before, r_after, kani::any());
    let cand = any_trust();
    let before = ManuallyDrop::new(v.validate_membership(&node(200), &rs, cand));
    rs[k].confirms_membership = false;
    let after = ManuallyDrop::new(v.validate_membership(&node(200), &rs, cand));
    kani::cover!(before.is_valid && !after.is_valid, "C15/monotone/cover_flip_matters");
    if !before.is_valid {
        assert!(!after.is_valid, "C15/monotone/withdrawing_a_confirmation_never_creates_acceptance");
    }
}


// ---- completeness: unanimous confirmation by enough trusted, spread witnesses is accepted ----
fn check_complete(n: usize, attack: bool) {
    let v = mk_validator(any_cfg(), attack);
    let rs = ManuallyDrop::new(any_responses(n));
    let min = v.config.min_witness_trust;
    let mut i = 0;
    while i < n {
        kani::assume(rs[i].confirms_membership && rs[i].peer_trust_score.is_some() && is_trusted(&rs[i], min));
        // a trusted witness with positive weight exists
        kani::assume(rs[i].peer_trust_score.unwrap() > 0.0);
        i += 1;
    }
    kani::assume(n >= v.config.min_peers_to_query);
    // callee contracts under the stated premises: enough regions, distinct response times => no flag
    let regions: usize = kani::any();
    kani::assume(regions >= v.config.min_regions);
    set_stubs(regions, regions, false);
    let cand = any_trust();
    kani::assume(cand.is_none() || cand.unwrap() >= min);
    let res = ManuallyDrop::new(v.validate_membership(&node(200), &rs, cand));
    kani::cover!(n >= 3, "C15/complete/cover_nontrivial");
    assert!(res.is_valid, "C15/complete/unanimous_trusted_spread_confirmation_is_accepted");
}


// ---- callee contract: detect_collusion_indicators ---------------------------------------
fn check_collusion(n: usize) {
    let v = mk_validator(any_cfg(), true);
    let rs = ManuallyDrop::new(any_responses(n));
    let mut refs: Vec<&CloseGroupResponse> = Vec::with_capacity(n + 1);
    let mut i = 0;
    while i < n {
        refs.push(&rs[i]);
        i += 1;
    }
    let refs = ManuallyDrop::new(refs);
    let r = v.detect_collusion_indicators(&refs);
    // distinct response times (pairwise >= 10 ms apart) never raise the flag; fewer than 3 never do
    let mut spread = true;
    let mut a = 0;
    while a < n {
        let mut b = a + 1;
        while b < n {
            if rs[a].response_latency.abs_diff(rs[b].response_latency) < Duration::from_millis(10) {
                spread = false;
            }
            b += 1;
        }
        a += 1;
    }
    kani::cover!(r, "C15/collusion/cover_flag");
    if n < 3 || spread {
        assert!(!r, "C15/collusion/no_flag_for_distinct_response_times");
    }
    // the flag is a function of the latencies only: other witnesses with the same latencies get the same flag
    let mut rs2 = ManuallyDrop::new(any_responses(n));
    let mut i = 0;
    while i < n {
        rs2[i].response_latency = rs[i].response_latency;
        i += 1;
    }
    let mut refs2: Vec<&CloseGroupResponse> = Vec::with_capacity(n + 1);
    let mut i = 0;
    while i < n {
        refs2.push(&rs2[i]);
        i += 1;
    }
    let refs2 = ManuallyDrop::new(refs2);
    let r2 = v.detect_collusion_indicators(&refs2);
    assert!(r2 == r, "C15/collusion/flag_depends_on_latencies_only");
}



macro_rules! c15_harness {
    ($name:ident, $uw:expr, $body:expr) => {
        #[kani::proof]
        #[kani::stub(std::time::Instant::now, stub_instant_now)]
        #[kani::stub(std::time::SystemTime::now, stub_system_now)]
        #[kani::stub(std::hash::RandomState::new, stub_random_state)]
        #[kani::stub(CloseGroupValidator::count_confirming_regions, contract_stub_regions)]
        #[kani::stub(CloseGroupValidator::detect_collusion_indicators, contract_stub_collusion)]
        #[kani::unwind($uw)]
        fn $name() {
            $body;
        }
    };
}
macro_rules! c15_collusion_harness {
    ($name:ident, $uw:expr, $n:expr) => {
        #[kani::proof]
        #[kani::stub(std::time::Instant::now, stub_instant_now)]
        #[kani::stub(std::hash::RandomState::new, stub_random_state)]
        #[kani::unwind($uw)]
        fn $name() {
            check_collusion($n);
        }
    };
}
// @verif property=C15 class=bounded bound="witness sets of size 0; trust any f64 in [0,1] or absent; all configurations" fns=CloseGroupValidator::validate_membership,CloseGroupValidator::validate_bft uses=check_bft_sound,any_cfg,any_responses,any_trust,any_response,mk_validator,c15_harness tier=parked panic=violation
c15_harness!(c15_bft_soundness_0, 3, check_bft_sound(0));
// @verif property=C15 class=bounded bound="witness sets of size 1; trust any f64 in [0,1] or absent; all configurations" fns=CloseGroupValidator::validate_membership,CloseGroupValidator::validate_bft uses=check_bft_sound,any_cfg,any_responses,any_trust,any_response,mk_validator,c15_harness tier=parked panic=violation
c15_harness!(c15_bft_soundness_1, 4, check_bft_sound(1));
// @verif property=C15 class=bounded bound="witness sets of size 2; trust any f64 in [0,1] or absent; all configurations" fns=CloseGroupValidator::validate_membership,CloseGroupValidator::validate_bft uses=check_bft_sound,any_cfg,any_responses,any_trust,any_response,mk_validator,c15_harness tier=parked panic=violation
c15_harness!(c15_bft_soundness_2, 5, check_bft_sound(2));
// @verif property=C15 class=bounded bound="witness sets of size 3; trust any f64 in [0,1] or absent; all configurations" fns=CloseGroupValidator::validate_membership,CloseGroupValidator::validate_bft uses=check_bft_sound,any_cfg,any_responses,any_trust,any_response,mk_validator,c15_harness tier=parked panic=violation
c15_harness!(c15_bft_soundness_3, 6, check_bft_sound(3));
// @verif property=C15 class=bounded bound="witness sets of size 4; trust any f64 in [0,1] or absent; all configurations" fns=CloseGroupValidator::validate_membership,CloseGroupValidator::validate_bft uses=check_bft_sound,any_cfg,any_responses,any_trust,any_response,mk_validator,c15_harness tier=parked panic=violation
c15_harness!(c15_bft_soundness_4, 7, check_bft_sound(4));
// @verif property=C15 class=bounded bound="witness sets of size 5; trust any f64 in [0,1] or absent; all configurations" fns=CloseGroupValidator::validate_membership,CloseGroupValidator::validate_bft uses=check_bft_sound,any_cfg,any_responses,any_trust,any_response,mk_validator,c15_harness tier=parked panic=violation
c15_harness!(c15_bft_soundness_5, 8, check_bft_sound(5));
// @verif property=C15 class=bounded bound="witness sets of size 6; trust any f64 in [0,1] or absent; all configurations" fns=CloseGroupValidator::validate_membership,CloseGroupValidator::validate_bft uses=check_bft_sound,any_cfg,any_responses,any_trust,any_response,mk_validator,c15_harness tier=parked panic=violation
c15_harness!(c15_bft_soundness_6, 9, check_bft_sound(6));
// @verif property=C15 class=bounded bound="witness sets of size 7; trust any f64 in [0,1] or absent; all configurations" fns=CloseGroupValidator::validate_membership,CloseGroupValidator::validate_bft uses=check_bft_sound,any_cfg,any_responses,any_trust,any_response,mk_validator,c15_harness tier=parked panic=violation
c15_harness!(c15_bft_soundness_7, 10, check_bft_sound(7));
// @verif property=C15 class=bounded bound="witness sets of size 8; trust any f64 in [0,1] or absent; all configurations" fns=CloseGroupValidator::validate_membership,CloseGroupValidator::validate_bft uses=check_bft_sound,any_cfg,any_responses,any_trust,any_response,mk_validator,c15_harness tier=parked panic=violation
c15_harness!(c15_bft_soundness_8, 11, check_bft_sound(8));
// @verif property=C15 class=bounded bound="witness sets of size 9; trust any f64 in [0,1] or absent; all configurations" fns=CloseGroupValidator::validate_membership,CloseGroupValidator::validate_bft uses=check_bft_sound,any_cfg,any_responses,any_trust,any_response,mk_validator,c15_harness tier=parked panic=violation
c15_harness!(c15_bft_soundness_9, 12, check_bft_sound(9));
// @verif property=C15 class=bounded bound="witness sets of size 10; trust any f64 in [0,1] or absent; all configurations" fns=CloseGroupValidator::validate_membership,CloseGroupValidator::validate_bft uses=check_bft_sound,any_cfg,any_responses,any_trust,any_response,mk_validator,c15_harness tier=parked panic=violation
c15_harness!(c15_bft_soundness_10, 13, check_bft_sound(10));
// @verif property=C15 class=bounded bound="f = 1: 4 trusted witnesses, at most 1 confirm" fns=CloseGroupValidator::validate_membership,CloseGroupValidator::validate_bft uses=check_f_liars,any_cfg,any_responses,any_trust,any_response,mk_validator,c15_harness tier=parked panic=violation
c15_harness!(c15_f_liars_1, 7, check_f_liars(1));
// @verif property=C15 class=bounded bound="f = 2: 7 trusted witnesses, at most 2 confirm" fns=CloseGroupValidator::validate_membership,CloseGroupValidator::validate_bft uses=check_f_liars,any_cfg,any_responses,any_trust,any_response,mk_validator,c15_harness tier=parked panic=violation
c15_harness!(c15_f_liars_2, 10, check_f_liars(2));
// @verif property=C15 class=bounded bound="f = 3: 10 trusted witnesses, at most 3 confirm" fns=CloseGroupValidator::validate_membership,CloseGroupValidator::validate_bft uses=check_f_liars,any_cfg,any_responses,any_trust,any_response,mk_validator,c15_harness tier=parked panic=violation
c15_harness!(c15_f_liars_3, 13, check_f_liars(3));
// @verif property=C15 class=bounded bound="witness sets of size 0; trust any f64 in [0,1] or absent" fns=CloseGroupValidator::validate_membership,CloseGroupValidator::validate_trust_weighted uses=check_normal,any_cfg,any_responses,any_trust,any_response,mk_validator,c15_harness tier=parked panic=violation
c15_harness!(c15_normal_mode_0, 3, check_normal(0));
// @verif property=C15 class=bounded bound="witness sets of size 1; trust any f64 in [0,1] or absent" fns=CloseGroupValidator::validate_membership,CloseGroupValidator::validate_trust_weighted uses=check_normal,any_cfg,any_responses,any_trust,any_response,mk_validator,c15_harness tier=parked panic=violation
c15_harness!(c15_normal_mode_1, 4, check_normal(1));
// @verif property=C15 class=bounded bound="witness sets of size 2; trust any f64 in [0,1] or absent" fns=CloseGroupValidator::validate_membership,CloseGroupValidator::validate_trust_weighted uses=check_normal,any_cfg,any_responses,any_trust,any_response,mk_validator,c15_harness tier=parked panic=violation
c15_harness!(c15_normal_mode_2, 5, check_normal(2));
// @verif property=C15 class=bounded bound="witness sets of size 3; trust any f64 in [0,1] or absent" fns=CloseGroupValidator::validate_membership,CloseGroupValidator::validate_trust_weighted uses=check_normal,any_cfg,any_responses,any_trust,any_response,mk_validator,c15_harness tier=parked panic=violation
c15_harness!(c15_normal_mode_3, 6, check_normal(3));
// @verif property=C15 class=bounded bound="witness sets of size 4; trust any f64 in [0,1] or absent" fns=CloseGroupValidator::validate_membership,CloseGroupValidator::validate_trust_weighted uses=check_normal,any_cfg,any_responses,any_trust,any_response,mk_validator,c15_harness tier=parked panic=violation
c15_harness!(c15_normal_mode_4, 7, check_normal(4));
// @verif property=C15 class=bounded bound="witness sets of size 5; trust any f64 in [0,1] or absent" fns=CloseGroupValidator::validate_membership,CloseGroupValidator::validate_trust_weighted uses=check_normal,any_cfg,any_responses,any_trust,any_response,mk_validator,c15_harness tier=parked panic=violation
c15_harness!(c15_normal_mode_5, 8, check_normal(5));
// @verif property=C15 class=bounded bound="witness sets of size 6; trust any f64 in [0,1] or absent" fns=CloseGroupValidator::validate_membership,CloseGroupValidator::validate_trust_weighted uses=check_normal,any_cfg,any_responses,any_trust,any_response,mk_validator,c15_harness tier=parked panic=violation
c15_harness!(c15_normal_mode_6, 9, check_normal(6));
// @verif property=C15 class=bounded bound="witness sets of size 7; trust any f64 in [0,1] or absent" fns=CloseGroupValidator::validate_membership,CloseGroupValidator::validate_trust_weighted uses=check_normal,any_cfg,any_responses,any_trust,any_response,mk_validator,c15_harness tier=parked panic=violation
c15_harness!(c15_normal_mode_7, 10, check_normal(7));
// @verif property=C15 class=bounded bound="witness sets of size 8; trust any f64 in [0,1] or absent" fns=CloseGroupValidator::validate_membership,CloseGroupValidator::validate_trust_weighted uses=check_normal,any_cfg,any_responses,any_trust,any_response,mk_validator,c15_harness tier=parked panic=violation
c15_harness!(c15_normal_mode_8, 11, check_normal(8));
// @verif property=C15 class=bounded bound="witness sets of size 9; trust any f64 in [0,1] or absent" fns=CloseGroupValidator::validate_membership,CloseGroupValidator::validate_trust_weighted uses=check_normal,any_cfg,any_responses,any_trust,any_response,mk_validator,c15_harness tier=parked panic=violation
c15_harness!(c15_normal_mode_9, 12, check_normal(9));
// @verif property=C15 class=bounded bound="witness sets of size 10; trust any f64 in [0,1] or absent" fns=CloseGroupValidator::validate_membership,CloseGroupValidator::validate_trust_weighted uses=check_normal,any_cfg,any_responses,any_trust,any_response,mk_validator,c15_harness tier=parked panic=violation
c15_harness!(c15_normal_mode_10, 13, check_normal(10));
// @verif property=C15 class=bounded bound="witness sets of size 1, bft mode" fns=CloseGroupValidator::validate_membership uses=check_monotone,any_cfg,any_responses,any_trust,any_response,mk_validator,c15_harness tier=parked panic=violation
c15_harness!(c15_monotone_bft_1, 4, check_monotone(1, true));
// @verif property=C15 class=bounded bound="witness sets of size 1, normal mode" fns=CloseGroupValidator::validate_membership uses=check_monotone,any_cfg,any_responses,any_trust,any_response,mk_validator,c15_harness tier=parked panic=violation
c15_harness!(c15_monotone_normal_1, 4, check_monotone(1, false));
// @verif property=C15 class=bounded bound="witness sets of size 2, bft mode" fns=CloseGroupValidator::validate_membership uses=check_monotone,any_cfg,any_responses,any_trust,any_response,mk_validator,c15_harness tier=parked panic=violation
c15_harness!(c15_monotone_bft_2, 5, check_monotone(2, true));
// @verif property=C15 class=bounded bound="witness sets of size 2, normal mode" fns=CloseGroupValidator::validate_membership uses=check_monotone,any_cfg,any_responses,any_trust,any_response,mk_validator,c15_harness tier=parked panic=violation
c15_harness!(c15_monotone_normal_2, 5, check_monotone(2, false));
// @verif property=C15 class=bounded bound="witness sets of size 3, bft mode" fns=CloseGroupValidator::validate_membership uses=check_monotone,any_cfg,any_responses,any_trust,any_response,mk_validator,c15_harness tier=parked panic=violation
c15_harness!(c15_monotone_bft_3, 6, check_monotone(3, true));
// @verif property=C15 class=bounded bound="witness sets of size 3, normal mode" fns=CloseGroupValidator::validate_membership uses=check_monotone,any_cfg,any_responses,any_trust,any_response,mk_validator,c15_harness tier=parked panic=violation
c15_harness!(c15_monotone_normal_3, 6, check_monotone(3, false));
// @verif property=C15 class=bounded bound="witness sets of size 4, bft mode" fns=CloseGroupValidator::validate_membership uses=check_monotone,any_cfg,any_responses,any_trust,any_response,mk_validator,c15_harness tier=parked panic=violation
c15_harness!(c15_monotone_bft_4, 7, check_monotone(4, true));
// @verif property=C15 class=bounded bound="witness sets of size 4, normal mode" fns=CloseGroupValidator::validate_membership uses=check_monotone,any_cfg,any_responses,any_trust,any_response,mk_validator,c15_harness tier=parked panic=violation
c15_harness!(c15_monotone_normal_4, 7, check_monotone(4, false));
// @verif property=C15 class=bounded bound="witness sets of size 5, bft mode" fns=CloseGroupValidator::validate_membership uses=check_monotone,any_cfg,any_responses,any_trust,any_response,mk_validator,c15_harness tier=parked panic=violation
c15_harness!(c15_monotone_bft_5, 8, check_monotone(5, true));
// @verif property=C15 class=bounded bound="witness sets of size 5, normal mode" fns=CloseGroupValidator::validate_membership uses=check_monotone,any_cfg,any_responses,any_trust,any_response,mk_validator,c15_harness tier=parked panic=violation
c15_harness!(c15_monotone_normal_5, 8, check_monotone(5, false));
// @verif property=C15 class=bounded bound="witness sets of size 6, bft mode" fns=CloseGroupValidator::validate_membership uses=check_monotone,any_cfg,any_responses,any_trust,any_response,mk_validator,c15_harness tier=parked panic=violation
c15_harness!(c15_monotone_bft_6, 9, check_monotone(6, true));
// @verif property=C15 class=bounded bound="witness sets of size 6, normal mode" fns=CloseGroupValidator::validate_membership uses=check_monotone,any_cfg,any_responses,any_trust,any_response,mk_validator,c15_harness tier=parked panic=violation
c15_harness!(c15_monotone_normal_6, 9, check_monotone(6, false));
// @verif property=C15 class=bounded bound="witness sets of size 7, bft mode" fns=CloseGroupValidator::validate_membership uses=check_monotone,any_cfg,any_responses,any_trust,any_response,mk_validator,c15_harness tier=parked panic=violation
c15_harness!(c15_monotone_bft_7, 10, check_monotone(7, true));
// @verif property=C15 class=bounded bound="witness sets of size 7, normal mode" fns=CloseGroupValidator::validate_membership uses=check_monotone,any_cfg,any_responses,any_trust,any_response,mk_validator,c15_harness tier=parked panic=violation
c15_harness!(c15_monotone_normal_7, 10, check_monotone(7, false));
// @verif property=C15 class=bounded bound="witness sets of size 1, bft mode" fns=CloseGroupValidator::validate_membership uses=check_complete,any_cfg,any_responses,any_trust,any_response,mk_validator,c15_harness tier=parked panic=violation
c15_harness!(c15_completeness_bft_1, 4, check_complete(1, true));
// @verif property=C15 class=bounded bound="witness sets of size 1, normal mode" fns=CloseGroupValidator::validate_membership uses=check_complete,any_cfg,any_responses,any_trust,any_response,mk_validator,c15_harness tier=parked panic=violation
c15_harness!(c15_completeness_normal_1, 4, check_complete(1, false));
// @verif property=C15 class=bounded bound="witness sets of size 2, bft mode" fns=CloseGroupValidator::validate_membership uses=check_complete,any_cfg,any_responses,any_trust,any_response,mk_validator,c15_harness tier=parked panic=violation
c15_harness!(c15_completeness_bft_2, 5, check_complete(2, true));
// @verif property=C15 class=bounded bound="witness sets of size 2, normal mode" fns=CloseGroupValidator::validate_membership uses=check_complete,any_cfg,any_responses,any_trust,any_response,mk_validator,c15_harness tier=parked panic=violation
c15_harness!(c15_completeness_normal_2, 5, check_complete(2, false));
// @verif property=C15 class=bounded bound="witness sets of size 3, bft mode" fns=CloseGroupValidator::validate_membership uses=check_complete,any_cfg,any_responses,any_trust,any_response,mk_validator,c15_harness tier=parked panic=violation
c15_harness!(c15_completeness_bft_3, 6, check_complete(3, true));
// @verif property=C15 class=bounded bound="witness sets of size 3, normal mode" fns=CloseGroupValidator::validate_membership uses=check_complete,any_cfg,any_responses,any_trust,any_response,mk_validator,c15_harness tier=parked panic=violation
c15_harness!(c15_completeness_normal_3, 6, check_complete(3, false));
// @verif property=C15 class=bounded bound="witness sets of size 4, bft mode" fns=CloseGroupValidator::validate_membership uses=check_complete,any_cfg,any_responses,any_trust,any_response,mk_validator,c15_harness tier=parked panic=violation
c15_harness!(c15_completeness_bft_4, 7, check_complete(4, true));
// @verif property=C15 class=bounded bound="witness sets of size 4, normal mode" fns=CloseGroupValidator::validate_membership uses=check_complete,any_cfg,any_responses,any_trust,any_response,mk_validator,c15_harness tier=parked panic=violation
c15_harness!(c15_completeness_normal_4, 7, check_complete(4, false));
// @verif property=C15 class=bounded bound="witness sets of size 5, bft mode" fns=CloseGroupValidator::validate_membership uses=check_complete,any_cfg,any_responses,any_trust,any_response,mk_validator,c15_harness tier=parked panic=violation
c15_harness!(c15_completeness_bft_5, 8, check_complete(5, true));
// @verif property=C15 class=bounded bound="witness sets of size 5, normal mode" fns=CloseGroupValidator::validate_membership uses=check_complete,any_cfg,any_responses,any_trust,any_response,mk_validator,c15_harness tier=parked panic=violation
c15_harness!(c15_completeness_normal_5, 8, check_complete(5, false));
// @verif property=C15 class=bounded bound="witness sets of size 6, bft mode" fns=CloseGroupValidator::validate_membership uses=check_complete,any_cfg,any_responses,any_trust,any_response,mk_validator,c15_harness tier=parked panic=violation
c15_harness!(c15_completeness_bft_6, 9, check_complete(6, true));
// @verif property=C15 class=bounded bound="witness sets of size 6, normal mode" fns=CloseGroupValidator::validate_membership uses=check_complete,any_cfg,any_responses,any_trust,any_response,mk_validator,c15_harness tier=parked panic=violation
c15_harness!(c15_completeness_normal_6, 9, check_complete(6, false));
// @verif property=C15 class=bounded bound="witness sets of size 7, bft mode" fns=CloseGroupValidator::validate_membership uses=check_complete,any_cfg,any_responses,any_trust,any_response,mk_validator,c15_harness tier=parked panic=violation
c15_harness!(c15_completeness_bft_7, 10, check_complete(7, true));
// @verif property=C15 class=bounded bound="witness sets of size 7, normal mode" fns=CloseGroupValidator::validate_membership uses=check_complete,any_cfg,any_responses,any_trust,any_response,mk_validator,c15_harness tier=parked panic=violation
c15_harness!(c15_completeness_normal_7, 10, check_complete(7, false));
// @verif property=C15 class=bounded bound="witness sets of size 8, bft mode" fns=CloseGroupValidator::validate_membership uses=check_complete,any_cfg,any_responses,any_trust,any_response,mk_validator,c15_harness tier=parked panic=violation
c15_harness!(c15_completeness_bft_8, 11, check_complete(8, true));
// @verif property=C15 class=bounded bound="witness sets of size 8, normal mode" fns=CloseGroupValidator::validate_membership uses=check_complete,any_cfg,any_responses,any_trust,any_response,mk_validator,c15_harness tier=parked panic=violation
c15_harness!(c15_completeness_normal_8, 11, check_complete(8, false));
// @verif property=C15 class=bounded bound="witness sets of size 9, bft mode" fns=CloseGroupValidator::validate_membership uses=check_complete,any_cfg,any_responses,any_trust,any_response,mk_validator,c15_harness tier=parked panic=violation
c15_harness!(c15_completeness_bft_9, 12, check_complete(9, true));
// @verif property=C15 class=bounded bound="witness sets of size 9, normal mode" fns=CloseGroupValidator::validate_membership uses=check_complete,any_cfg,any_responses,any_trust,any_response,mk_validator,c15_harness tier=parked panic=violation
c15_harness!(c15_completeness_normal_9, 12, check_complete(9, false));
// @verif property=C15 class=bounded bound="witness sets of size 10, bft mode" fns=CloseGroupValidator::validate_membership uses=check_complete,any_cfg,any_responses,any_trust,any_response,mk_validator,c15_harness tier=parked panic=violation
c15_harness!(c15_completeness_bft_10, 13, check_complete(10, true));
// @verif property=C15 class=bounded bound="witness sets of size 10, normal mode" fns=CloseGroupValidator::validate_membership uses=check_complete,any_cfg,any_responses,any_trust,any_response,mk_validator,c15_harness tier=parked panic=violation
c15_harness!(c15_completeness_normal_10, 13, check_complete(10, false));
// @verif property=C15 class=bounded bound="0 witnesses, all latencies" fns=CloseGroupValidator::detect_collusion_indicators uses=check_collusion,any_responses,any_response,mk_validator,any_cfg,c15_collusion_harness vacuous_ok=C15/collusion/cover_flag tier=quick,thorough panic=violation
c15_collusion_harness!(c15_collusion_contract_0, 4, 0);
// @verif property=C15 class=bounded bound="2 witnesses, all latencies" fns=CloseGroupValidator::detect_collusion_indicators uses=check_collusion,any_responses,any_response,mk_validator,any_cfg,c15_collusion_harness vacuous_ok=C15/collusion/cover_flag tier=quick,thorough panic=violation
c15_collusion_harness!(c15_collusion_contract_2, 6, 2);
// @verif property=C15 class=bounded bound="3 witnesses, all latencies" fns=CloseGroupValidator::detect_collusion_indicators uses=check_collusion,any_responses,any_response,mk_validator,any_cfg,c15_collusion_harness tier=quick,thorough panic=violation
c15_collusion_harness!(c15_collusion_contract_3, 7, 3);
// @verif property=C15 class=bounded bound="4 witnesses, all latencies" fns=CloseGroupValidator::detect_collusion_indicators uses=check_collusion,any_responses,any_response,mk_validator,any_cfg,c15_collusion_harness tier=quick,thorough panic=violation
c15_collusion_harness!(c15_collusion_contract_4, 8, 4);
// @verif property=C15 class=bounded bound="5 witnesses, all latencies" fns=CloseGroupValidator::detect_collusion_indicators uses=check_collusion,any_responses,any_response,mk_validator,any_cfg,c15_collusion_harness tier=thorough panic=violation
c15_collusion_harness!(c15_collusion_contract_5, 9, 5);
// @verif property=C15 class=bounded bound="6 witnesses, all latencies" fns=CloseGroupValidator::detect_collusion_indicators uses=check_collusion,any_responses,any_response,mk_validator,any_cfg,c15_collusion_harness tier=thorough panic=violation
c15_collusion_harness!(c15_collusion_contract_6, 10, 6);
// @verif property=C15 class=bounded bound="7 witnesses, all latencies" fns=CloseGroupValidator::detect_collusion_indicators uses=check_collusion,any_responses,any_response,mk_validator,any_cfg,c15_collusion_harness tier=parked panic=violation
c15_collusion_harness!(c15_collusion_contract_7, 11, 7);

// ---- MaintenanceConfig quorum arithmetic --------------------------------------------------
// @verif property=C15 class=complete fns=MaintenanceConfig::required_confirmations,MaintenanceConfig::minimum_witnesses tier=quick,thorough panic=violation
#[kani::proof]
#[kani::unwind(4)]
fn c15_quorum_arithmetic() {
    let f: usize = kani::any();
    kani::assume(f <= (1usize << 40));
    let c = MaintenanceConfig { bft_fault_tolerance: f, ..Default::default() };
    assert!(c.minimum_witnesses() == 3 * f + 1, "C15/quorum/minimum_witnesses_is_3f_plus_1");
    assert!(c.required_confirmations() == 2 * f + 1, "C15/quorum/required_confirmations_is_2f_plus_1");
    assert!(c.required_confirmations() > f + (c.minimum_witnesses() - c.required_confirmations()), "C15/quorum/f_liars_plus_missing_cannot_reach_quorum");
}

// ---------------------------------------------------------------------------------------------
// IEEE-754 order facts assumed by the Verus float prelude (verus/float.spec.rs): each axiom there is
// proved here on the real f64 operators, bit-precisely, over the full domain (loop-free => complete).
// ---------------------------------------------------------------------------------------------
fn fl_nn_fin(x: f64) -> bool {
    0.0 <= x && x <= f64::MAX
}
fn fl_is_unit(w: f64) -> bool {
    0.0 <= w && w <= 1.0
}

// @verif property=C15 class=complete fns=f64::partial_cmp tier=quick,thorough
#[kani::proof]
fn c15_float_order_laws() {
    let a: f64 = kani::any();
    let b: f64 = kani::any();
    let c: f64 = kani::any();
    assert!(!(a <= b && b <= c) || a <= c, "C15/float/le_is_transitive");
    assert!(!(a < b && b <= c) || a < c, "C15/float/lt_le_chain");
    assert!(!(a <= b && b < c) || a < c, "C15/float/le_lt_chain");
    assert!(!(a < b) || (!(b <= a) && a <= b), "C15/float/lt_excludes_the_converse");
    assert!(!(a <= b) || (a <= a && b <= b), "C15/float/compared_values_are_not_nan");
    assert!((a > b) == (b < a) && (a >= b) == (b <= a), "C15/float/gt_ge_are_the_flipped_lt_le");
}

// @verif property=C15 class=complete fns=f64::partial_cmp tier=quick,thorough
#[kani::proof]
fn c15_float_literal_facts() {
    assert!(fl_nn_fin(0.0) && fl_is_unit(0.0) && fl_is_unit(0.5) && fl_is_unit(1.0) && 0.0 < 0.5 && 0.5 < 1.0 && 1.0 <= f64::MAX, "C15/float/literal_facts");
    assert!(f64::MAX == 1.7976931348623157e308f64, "C15/float/f_max_is_f64_max");
}

// @verif property=C15 class=complete fns=f64::add tier=quick,thorough
#[kani::proof]
fn c15_float_add_monotone() {
    let a: f64 = kani::any();
    let b: f64 = kani::any();
    let w: f64 = kani::any();
    kani::assume(fl_nn_fin(a) && fl_nn_fin(b) && a <= b && fl_is_unit(w));
    assert!(a + w <= b + w, "C15/float/add_is_monotone");
    assert!(a <= a + w, "C15/float/adding_a_unit_weight_never_decreases");
    assert!(fl_nn_fin(a + w), "C15/float/sum_stays_finite_and_nonnegative");
    assert!(!(0.0 < w || 0.0 < a) || 0.0 < a + w, "C15/float/positive_summand_gives_positive_sum");
    kani::cover!(a + w == b + w && a < b, "C15/float/cover_rounding_tie");
}

// NOT RUN (tier=parked): bit-blasting two 64-bit IEEE divisions did not finish within 15 minutes of SAT
// time in this sandbox; the corresponding axiom (correctly rounded division is monotone in the
// numerator) therefore stays an ASSUMPTION of the float prelude, listed as such in the evidence.
// @verif property=C15 class=complete fns=f64::div tier=parked
#[kani::proof]
fn c15_float_div_monotone() {
    let a: f64 = kani::any();
    let b: f64 = kani::any();
    let t: f64 = kani::any();
    kani::assume(fl_nn_fin(a) && fl_nn_fin(b) && a <= b && fl_nn_fin(t) && 0.0 < t);
    assert!(a / t <= b / t, "C15/float/div_is_monotone_in_the_numerator");
}

// NOT RUN (tier=parked): same reason (x / x == 1 needs the full divider circuit); stays an ASSUMPTION.
// @verif property=C15 class=complete fns=f64::div tier=parked
#[kani::proof]
fn c15_float_div_self() {
    let x: f64 = kani::any();
    kani::assume(fl_nn_fin(x) && 0.0 < x);
    assert!(1.0 <= x / x, "C15/float/x_over_x_is_at_least_one");
}

// @verif property=C15 class=complete fns=u64::as_f64 tier=quick,thorough
#[kani::proof]
fn c15_float_of_nat_monotone() {
    let a: u64 = kani::any();
    let b: u64 = kani::any();
    kani::assume(a <= b);
    assert!((a as f64) <= (b as f64), "C15/float/int_to_f64_is_monotone");
    assert!(fl_nn_fin(a as f64), "C15/float/int_to_f64_is_finite_and_nonnegative");
    assert!(a == 0 || 0.0 < (a as f64), "C15/float/positive_int_gives_positive_f64");
    assert!((a as usize) as f64 == a as f64, "C15/float/usize_and_u64_casts_agree");
}

// @verif property=C15 class=complete bound="" fns=f64::div,u64::as_f64 tier=quick,thorough
#[kani::proof]
fn c15_float_third_below_half() {
    let c: u32 = kani::any();
    let n: u32 = kani::any();
    kani::assume(3 * (c as u64) < n as u64);
    assert!(((c as u64) as f64) / ((n as u64) as f64) < 0.5, "C15/float/below_a_third_is_below_a_half");
}

// ---------------------------------------------------------------------------------------------
// NATIVE FAILING-INPUT SEARCH (used when the Verus unit `cgv` cannot decide, and to attach a concrete
// input to a failed obligation): the property's own grid (trust in {none, 0.1, 0.29, 0.3, 0.9}, region
// in {none, A..D}, latency classes), witness sets of size 0..=10, both modes.
// ---------------------------------------------------------------------------------------------
#[cfg(test)]
mod search {
    use super::*;

    struct Rng(u64);
    impl Rng {
        fn next(&mut self) -> u64 {
            self.0 ^= self.0 << 13;
            self.0 ^= self.0 >> 7;
            self.0 ^= self.0 << 17;
            self.0
        }
        fn below(&mut self, n: u64) -> u64 {
            self.next() % n
        }
    }
    const TRUST: [Option<f64>; 5] = [None, Some(0.1), Some(0.29), Some(0.3), Some(0.9)];
    const REGION: [Option<&str>; 5] = [None, Some("A"), Some("B"), Some("C"), Some("D")];
    const LAT_MS: [u64; 9] = [0, 4, 9, 10, 15, 20, 100, 111, 500];

    fn resp(confirms: bool, trust: Option<f64>, region: Option<&str>, lat_ms: u64) -> CloseGroupResponse {
        CloseGroupResponse {
            peer_id: DhtNodeId::from_bytes([7u8; 32]),
            confirms_membership: confirms,
            peer_trust_score: trust,
            peer_region: region.map(|s| s.to_string()),
            response_latency: Duration::from_millis(lat_ms),
            received_at: Instant::now(),
        }
    }
    fn validator(attack: bool, cfg: CloseGroupValidatorConfig) -> CloseGroupValidator {
        let v = CloseGroupValidator::new(cfg);
        v.set_attack_mode(attack);
        v
    }
    fn trusted(r: &CloseGroupResponse, min: f64) -> bool {
        r.peer_trust_score.unwrap_or(0.0) >= min
    }
    /// documented heuristic: >= 3 witnesses and more than half of the sorted adjacent latency gaps below 10 ms
    fn collusion(rs: &[&CloseGroupResponse]) -> bool {
        if rs.len() < 3 {
            return false;
        }
        let mut l: Vec<Duration> = rs.iter().map(|r| r.response_latency).collect();
        l.sort();
        let close = l.windows(2).filter(|w| w[1] - w[0] < Duration::from_millis(10)).count();
        close > rs.len() / 2
    }
    fn regions(rs: &[CloseGroupResponse]) -> usize {
        let mut seen: Vec<&String> = Vec::new();
        for r in rs.iter().filter(|r| r.confirms_membership) {
            if let Some(g) = &r.peer_region {
                if !seen.contains(&g) {
                    seen.push(g);
                }
            }
        }
        seen.len()
    }
    fn show(rs: &[CloseGroupResponse]) -> String {
        rs.iter().map(|r| format!("({} t={:?} g={:?} {}ms)", if r.confirms_membership { "yes" } else { "no" }, r.peer_trust_score, r.peer_region, r.response_latency.as_millis())).collect::<Vec<_>>().join(" ")
    }

    #[test]
    fn verif_search_c15() {
        let seed: u64 = std::env::var("VERIF_SEED").ok().and_then(|s| s.parse().ok()).unwrap_or(0);
        let mut r = Rng(0x9e37_79b9_7f4a_7c15 ^ seed.wrapping_mul(0x1000_0000_01b3) | 1);
        let rounds: usize = std::env::var("VERIF_SEARCH_ROUNDS").ok().and_then(|s| s.parse().ok()).unwrap_or(3000);
        for _ in 0..rounds {
            let n = r.below(11) as usize;
            let attack = r.below(2) == 0;
            let mut cfg = if r.below(2) == 0 { CloseGroupValidatorConfig::default() } else { CloseGroupValidatorConfig::log_only() };
            if r.below(3) == 0 {
                cfg.min_peers_to_query = r.below(8) as usize;
                cfg.min_regions = r.below(4) as usize;
                cfg.bft_threshold = [0.5, 0.6, 0.67, 0.71, 0.75, 1.0][r.below(6) as usize];
                cfg.trust_weighted_threshold = [0.5, 0.7, 0.9, 1.0][r.below(4) as usize];
            }
            let unanimous = r.below(6) == 0;
            let rs: Vec<CloseGroupResponse> = (0..n)
                .map(|i| {
                    if unanimous {
                        resp(true, [Some(0.3), Some(0.9)][r.below(2) as usize], REGION[1 + (i % 4)], 20 * i as u64 + r.below(5))
                    } else {
                        resp(r.below(3) != 0, TRUST[r.below(5) as usize], REGION[r.below(5) as usize], LAT_MS[r.below(9) as usize])
                    }
                })
                .collect();
            let cand = [None, Some(0.1), Some(0.9)][r.below(3) as usize];
            let v = validator(attack, cfg.clone());
            let res = v.validate_membership(&DhtNodeId::from_bytes([1u8; 32]), &rs, cand);
            let gates = rs.len() >= cfg.min_peers_to_query && !cand.is_some_and(|t| t < cfg.min_witness_trust);
            let tr: Vec<&CloseGroupResponse> = rs.iter().filter(|x| trusted(x, cfg.min_witness_trust)).collect();
            let conf = tr.iter().filter(|x| x.confirms_membership).count();
            let ctx = format!("attack={} cand={:?} min_peers={} min_regions={} bft_thr={} tw_thr={} witnesses=[{}]", attack, cand, cfg.min_peers_to_query, cfg.min_regions, cfg.bft_threshold, cfg.trust_weighted_threshold, show(&rs));
            if res.is_valid && !gates {
                panic!("VERIF-SEARCH-HIT C15/gates/needs_minimum_answers_and_a_candidate_not_below_minimum_trust {}", ctx);
            }
            if attack && res.is_valid {
                let quorum = tr.len() >= cfg.min_peers_to_query && !tr.is_empty() && (conf as f64 / tr.len() as f64) >= cfg.bft_threshold;
                if !(quorum && !collusion(&tr) && regions(&rs) >= cfg.min_regions) {
                    panic!("VERIF-SEARCH-HIT C15/bft/accepted_only_with_quorum_of_trusted_witnesses_regions_and_no_collusion {}", ctx);
                }
                // f liars: 3f+1 trusted witnesses, at most f confirm
                if cfg.bft_threshold >= 0.5 && tr.len() % 3 == 1 && conf <= (tr.len() - 1) / 3 {
                    panic!("VERIF-SEARCH-HIT C15/bft/f_liars_of_3f_plus_1_cannot_force_acceptance {}", ctx);
                }
            }
            if !attack && res.is_valid {
                let total: f64 = rs.iter().map(|x| x.peer_trust_score.unwrap_or(0.5)).sum();
                let confw: f64 = rs.iter().filter(|x| x.confirms_membership).map(|x| x.peer_trust_score.unwrap_or(0.5)).sum();
                if !(total > 0.0 && confw / total >= cfg.trust_weighted_threshold - 1e-12) {
                    panic!("VERIF-SEARCH-HIT C15/normal/accepted_only_if_confirming_share_reaches_threshold {}", ctx);
                }
            }
            // withdrawing one confirmation never creates an acceptance
            if !res.is_valid {
                continue;
            }
            // (res valid: check the converse direction on the withdrawn vectors below only for rejection -> nothing to do)
        }
        // monotonicity and unanimity, second pass
        for _ in 0..rounds {
            let n = 1 + r.below(10) as usize;
            let attack = r.below(2) == 0;
            let cfg = CloseGroupValidatorConfig::default();
            let rs: Vec<CloseGroupResponse> = (0..n).map(|_| resp(r.below(4) != 0, TRUST[r.below(5) as usize], REGION[r.below(5) as usize], LAT_MS[r.below(9) as usize])).collect();
            let k = r.below(n as u64) as usize;
            if !rs[k].confirms_membership {
                continue;
            }
            let mut rs2 = rs.clone();
            rs2[k].confirms_membership = false;
            let v = validator(attack, cfg.clone());
            let a = v.validate_membership(&DhtNodeId::from_bytes([1u8; 32]), &rs, None).is_valid;
            let b = v.validate_membership(&DhtNodeId::from_bytes([1u8; 32]), &rs2, None).is_valid;
            if b && !a {
                panic!("VERIF-SEARCH-HIT C15/{}/withdrawing_a_confirmation_never_creates_acceptance attack={} withdrawn_at={} witnesses=[{}]", if attack { "bft" } else { "normal" }, attack, k, show(&rs));
            }
        }
        for n in 5..=10usize {
            for attack in [false, true] {
                let cfg = CloseGroupValidatorConfig::default();
                let rs: Vec<CloseGroupResponse> = (0..n).map(|i| resp(true, Some(0.9), REGION[1 + (i % 4)], 25 * i as u64)).collect();
                let v = validator(attack, cfg);
                if !v.validate_membership(&DhtNodeId::from_bytes([1u8; 32]), &rs, Some(0.9)).is_valid {
                    panic!("VERIF-SEARCH-HIT C15/{}/unanimous_confirmation_is_accepted attack={} witnesses=[{}]", if attack { "bft" } else { "normal" }, attack, show(&rs));
                }
            }
        }
    }
}

#[cfg(test)]
include!("/verif/.build/replay/close_group_validator.rs");
