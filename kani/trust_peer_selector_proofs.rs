//! @module dht::trust_peer_selector::verif_proofs
//! Kani contracts for TrustAwarePeerSelector (C16 selection clauses). The trust provider is a
//! harness-defined table returning arbitrary f64 values (NaN, infinities, out-of-range included).
use super::*;
use std::mem::ManuallyDrop;
use std::time::SystemTime;

const MAXC: usize = 4;

struct SymTrust {
    ids: [[u8; 32]; MAXC],
    t: [f64; MAXC],
    n: usize,
}
impl TrustProvider for SymTrust {
    fn get_trust(&self, node: &AdaptiveNodeId) -> f64 {
        let mut i = 0;
        while i < MAXC {
            if i < self.n && self.ids[i] == node.hash {
                return self.t[i];
            }
            i += 1;
        }
        0.0
    }
    fn update_trust(&self, _from: &AdaptiveNodeId, _to: &AdaptiveNodeId, _success: bool) {}
    fn get_global_trust(&self) -> std::collections::HashMap<AdaptiveNodeId, f64> {
        unreachable!()
    }
    fn remove_node(&self, _node: &AdaptiveNodeId) {}
}

fn mk_node(id: [u8; 32]) -> NodeInfo {
    NodeInfo {
        id: NodeId::from_bytes(id),
        address: String::new(),
        last_seen: SystemTime::UNIX_EPOCH,
        capacity: crate::dht::core_engine::NodeCapacity { storage_available: 0, bandwidth_available: 0, reliability_score: 0.0 },
    }
}

/// full 256-bit XOR distance comparison: dist(a,key) < dist(b,key)
fn dist_lt(a: &[u8; 32], b: &[u8; 32], key: &[u8; 32]) -> bool {
    let mut i = 0;
    while i < 32 {
        let (da, db) = (a[i] ^ key[i], b[i] ^ key[i]);
        if da != db {
            return da < db;
        }
        i += 1;
    }
    false
}

fn any_cfg() -> TrustSelectionConfig {
    let c = TrustSelectionConfig { trust_weight: kani::any(), min_trust_threshold: kani::any(), exclude_untrusted: kani::any() };
    // documented range of the weight ("0.0-1.0")
    kani::assume(c.trust_weight >= 0.0 && c.trust_weight <= 1.0);
    c
}

struct Setup {
    sel: ManuallyDrop<TrustAwarePeerSelector<SymTrust>>,
    cands: ManuallyDrop<Vec<NodeInfo>>,
    ids: [[u8; 32]; MAXC],
    t: [f64; MAXC],
    key: [u8; 32],
}

fn setup(n: usize, low_bytes_only: bool) -> Setup {
    let key: [u8; 32] = kani::any();
    let mut ids = [[0u8; 32]; MAXC];
    let mut t = [0.0f64; MAXC];
    let mut cands = Vec::with_capacity(n + 1);
    let mut i = 0;
    while i < n {
        let id: [u8; 32] = kani::any();
        if low_bytes_only {
            // candidates that differ from the key only in the low-order 16 bytes
            let mut b = 0;
            while b < 16 {
                kani::assume(id[b] == key[b]);
                b += 1;
            }
        }
        let mut j = 0;
        while j < i {
            kani::assume(ids[j] != id);
            j += 1;
        }
        ids[i] = id;
        t[i] = kani::any();
        cands.push(mk_node(id));
        i += 1;
    }
    let prov = SymTrust { ids, t, n };
    let sel = TrustAwarePeerSelector { trust_provider: Arc::new(prov), config: any_cfg(), storage_config: any_cfg() };
    Setup { sel: ManuallyDrop::new(sel), cands: ManuallyDrop::new(cands), ids, t, key }
}

fn trust_of(s: &Setup, id: &[u8; 32], n: usize) -> f64 {
    let mut i = 0;
    while i < MAXC {
        if i < n && &s.ids[i] == id {
            return s.t[i];
        }
        i += 1;
    }
    0.0
}

fn check_result(s: &Setup, n: usize, res: &Vec<NodeInfo>, count: usize, cfg: &TrustSelectionConfig) {
    assert!(res.len() <= count && res.len() <= n, "C16/select/at_most_the_requested_number");
    let mut a = 0;
    while a < MAXC {
        if a < res.len() {
            let ia = res[a].id.as_bytes();
            let mut member = false;
            let mut j = 0;
            while j < MAXC {
                if j < n && &s.ids[j] == ia {
                    member = true;
                }
                j += 1;
            }
            assert!(member, "C16/select/members_of_the_candidates");
            let ta = trust_of(s, ia, n);
            if cfg.exclude_untrusted {
                assert!(!(ta < cfg.min_trust_threshold), "C16/select/never_below_the_trust_floor_when_excluding");
            }
            let mut b = a + 1;
            while b < MAXC {
                if b < res.len() {
                    assert!(res[b].id.as_bytes() != ia, "C16/select/distinct");
                }
                b += 1;
            }
            if a + 1 < res.len() {
                let ib = res[a + 1].id.as_bytes();
                let tb = trust_of(s, ib, n);
                // never a farther peer ahead of a closer one of equal trust
                if ta == tb {
                    assert!(!dist_lt(ib, ia, &s.key), "C16/select/closer_first_at_equal_trust");
                }
            }
        }
        a += 1;
    }
}

fn check_select(n: usize, low: bool) {
    let s = setup(n, low);
    let count: usize = kani::any();
    kani::assume(count <= MAXC + 1);
    let key = DhtKey::from_bytes(s.key);
    let res = ManuallyDrop::new(s.sel.select_peers(&key, &s.cands, count));
    kani::cover!(res.len() >= 2, "C16/select/cover_two_selected");
    check_result(&s, n, &res, count, &s.sel.config);
}

fn check_storage(n: usize) {
    let mut s = setup(n, false);
    // the shipped storage configuration (floor 0.2, exclusion on)
    s.sel.storage_config = TrustSelectionConfig::for_storage();
    let count: usize = kani::any();
    kani::assume(count <= MAXC + 1);
    let key = DhtKey::from_bytes(s.key);
    let res = ManuallyDrop::new(s.sel.select_storage_peers(&key, &s.cands, count));
    let mut a = 0;
    while a < MAXC {
        if a < res.len() {
            let ta = trust_of(&s, res[a].id.as_bytes(), n);
            assert!(!(ta < 0.2), "C16/select/storage_never_below_the_storage_floor");
        }
        a += 1;
    }
    check_result(&s, n, &res, count, &s.sel.storage_config);
}

// @verif property=C16 class=bounded bound="0..=3 candidates with distinct fully symbolic ids; trust any f64 incl. NaN/inf/out-of-range; count 0..=5; trust_weight in [0,1]" fns=TrustAwarePeerSelector::select_peers,TrustAwarePeerSelector::select_peers_with_config,TrustAwarePeerSelector::compute_score,TrustAwarePeerSelector::get_trust_for_node,xor_distance uses=check_select,check_result,setup,any_cfg tier=parked panic=violation
#[kani::proof]
#[kani::unwind(34)]
fn c16_select_peers_3() {
    let mut n = 0;
    while n <= 3 {
        check_select(n, false);
        n += 1;
    }
}

// @verif property=C16 class=bounded bound="2..=3 candidates whose ids differ from the key only in the low-order 16 bytes" fns=TrustAwarePeerSelector::select_peers,TrustAwarePeerSelector::compute_score,xor_distance uses=check_select,check_result,setup,any_cfg tier=parked panic=violation
#[kani::proof]
#[kani::unwind(34)]
fn c16_select_peers_low_order_ids() {
    check_select(2, true);
    check_select(3, true);
}

// @verif property=C16 class=bounded bound="0..=3 candidates; shipped storage configuration" fns=TrustAwarePeerSelector::select_storage_peers,TrustSelectionConfig::for_storage uses=check_storage,check_result,setup,any_cfg tier=parked panic=violation
#[kani::proof]
#[kani::unwind(34)]
fn c16_select_storage_peers_3() {
    let mut n = 0;
    while n <= 3 {
        check_storage(n);
        n += 1;
    }
}

// f64::clamp facts assumed by the Verus float prelude (axiom_f_clamp): proved here on the real method,
// bit-precisely, for every f64 and every pair of bounds (loop-free => complete).
// @verif property=C16 class=complete fns=f64::clamp tier=quick,thorough
#[kani::proof]
fn c16_float_clamp_facts() {
    let x: f64 = kani::any();
    let lo: f64 = kani::any();
    let hi: f64 = kani::any();
    kani::assume(lo <= hi);
    let r = x.clamp(lo, hi);
    assert!(!x.is_nan() || r.is_nan(), "C16/float/clamp_keeps_nan");
    assert!(x.is_nan() || (lo <= r && r <= hi), "C16/float/clamp_result_is_within_the_bounds");
    assert!(!(lo <= x && x <= hi) || r.to_bits() == x.to_bits(), "C16/float/clamp_is_identity_inside_the_bounds");
    assert!(!(x < lo) || r.to_bits() == lo.to_bits(), "C16/float/clamp_below_gives_the_lower_bound");
    assert!(!(hi < x) || r.to_bits() == hi.to_bits(), "C16/float/clamp_above_gives_the_upper_bound");
    assert!(x.is_nan() == !(x <= x), "C16/float/is_nan_iff_not_self_le");
}

// ---------------------------------------------------------------------------------------------
// NATIVE FAILING-INPUT SEARCH for the selection clauses of C16 (executable form of the statement):
// selections are distinct members of the candidates, at most the requested number; storage
// selections never include a peer below the storage floor; a farther peer is never ranked ahead of
// a closer one of equal trust (FULL 256-bit XOR distance), nor a less trusted ahead of a more trusted
// one at equal distance. Candidate ids include ones that differ only in low-order bytes; trust
// values include NaN and out-of-range values (the property's own quantifier).
// ---------------------------------------------------------------------------------------------
#[cfg(test)]
mod search {
    use super::*;

    struct Rng(u64);
    impl Rng {
        fn next(&mut self) -> u64 {
            self.0 ^= self.0 << 13;
            self.0 ^= self.0 >> 7;
            self.0 ^= self.0 << 17;
            self.0
        }
        fn below(&mut self, n: u64) -> u64 {
            self.next() % n
        }
    }
    struct TableTrust(Vec<([u8; 32], f64)>);
    impl TrustProvider for TableTrust {
        fn get_trust(&self, node: &AdaptiveNodeId) -> f64 {
            self.0.iter().find(|(i, _)| *i == node.hash).map(|(_, t)| *t).unwrap_or(0.0)
        }
        fn update_trust(&self, _from: &AdaptiveNodeId, _to: &AdaptiveNodeId, _success: bool) {}
        fn get_global_trust(&self) -> std::collections::HashMap<AdaptiveNodeId, f64> {
            Default::default()
        }
        fn remove_node(&self, _node: &AdaptiveNodeId) {}
    }
    const TRUST: [f64; 12] = [0.0, 0.1, 0.19, 0.2, 0.5, 0.9, 1.0, f64::NAN, -0.5, -3.0, 1.5, f64::INFINITY];
    fn hex(b: &[u8; 32]) -> String {
        b.iter().map(|x| format!("{:02x}", x)).collect()
    }

    #[test]
    fn verif_search_c16_select() {
        let seed: u64 = std::env::var("VERIF_SEED").ok().and_then(|s| s.parse().ok()).unwrap_or(0);
        let mut r = Rng(0x9e37_79b9_7f4a_7c15 ^ seed.wrapping_mul(0x1000_0000_01b3) | 1);
        let rounds: usize = std::env::var("VERIF_SEARCH_ROUNDS").ok().and_then(|s| s.parse().ok()).unwrap_or(4000);
        for round in 0..rounds {
            let mut key = [0u8; 32];
            for b in key.iter_mut() {
                *b = r.next() as u8;
            }
            let n = r.below(9) as usize;
            let mode = r.below(4);
            let low_only = mode == 0; // ids that differ from the key only in the low-order 16 bytes
            let near = mode == 1; // ids that share bytes 0..=14 with the key: top-half distances below the f64 resolution of the score
            let in_range = r.below(2) == 0; // trust restricted to [0,1]
            let mut table = Vec::new();
            let mut cands = Vec::new();
            for _ in 0..n {
                let mut id = key;
                let lo = if low_only { 16 } else if near { 15 } else { 0 };
                for b in id[lo..].iter_mut() {
                    if r.below(if low_only || near { 3 } else { 1 }) == 0 {
                        *b = r.next() as u8;
                    }
                }
                if table.iter().any(|(i, _): &([u8; 32], f64)| *i == id) {
                    continue;
                }
                let t = if in_range { TRUST[r.below(7) as usize] } else { TRUST[r.below(12) as usize] };
                // several candidates share a trust value often, so that the equal-trust clause is exercised
                table.push((id, t));
                cands.push(mk_node(id));
            }
            let storage = r.below(2) == 0;
            let cfg = TrustSelectionConfig { trust_weight: [0.0, 0.3, 0.5, 1.0][r.below(4) as usize], min_trust_threshold: [0.0, 0.1, 0.2][r.below(3) as usize], exclude_untrusted: r.below(2) == 0 };
            let sel = TrustAwarePeerSelector::with_storage_config(Arc::new(TableTrust(table.clone())), cfg.clone(), TrustSelectionConfig::for_storage());
            let count = r.below(10) as usize;
            let res = if storage { sel.select_storage_peers(&DhtKey::from_bytes(key), &cands, count) } else { sel.select_peers(&DhtKey::from_bytes(key), &cands, count) };
            let used = if storage { TrustSelectionConfig::for_storage() } else { cfg.clone() };
            let trust = |id: &[u8; 32]| table.iter().find(|(i, _)| i == id).map(|(_, t)| *t).unwrap_or(0.0);
            let ctx = || format!("round={} key={} storage={} cfg={:?} count={} candidates=[{}] result=[{}]", round, hex(&key), storage, used, count,
                table.iter().map(|(i, t)| format!("{}:{}", hex(i), t)).collect::<Vec<_>>().join(" "), res.iter().map(|x| hex(x.id.as_bytes())).collect::<Vec<_>>().join(" "));
            if res.len() > count {
                panic!("VERIF-SEARCH-HIT C16/select/at_most_the_requested_number {}", ctx());
            }
            for (a, x) in res.iter().enumerate() {
                if !table.iter().any(|(i, _)| i == x.id.as_bytes()) {
                    panic!("VERIF-SEARCH-HIT C16/select/members_of_the_candidates {}", ctx());
                }
                if res[..a].iter().any(|y| y.id == x.id) {
                    panic!("VERIF-SEARCH-HIT C16/select/distinct {}", ctx());
                }
                if storage && !(trust(x.id.as_bytes()) >= 0.2) {
                    panic!("VERIF-SEARCH-HIT C16/select/storage_never_below_the_storage_floor trust={} {}", trust(x.id.as_bytes()), ctx());
                }
                if used.exclude_untrusted && !(trust(x.id.as_bytes()) >= used.min_trust_threshold) {
                    panic!("VERIF-SEARCH-HIT C16/select/never_below_the_trust_floor_when_excluding {}", ctx());
                }
            }
            // ranking: over every pair (a ranked before b), and every selected a vs. every unselected candidate b
            let rank = |id: &[u8; 32]| res.iter().position(|x| x.id.as_bytes() == id);
            for (ia, ta) in &table {
                for (ib, tb) in &table {
                    let (ra, rb) = (rank(ia), rank(ib));
                    // "ib is ranked ahead of ia": ib selected and (ia not selected or later)
                    let b_ahead = match (ra, rb) {
                        (_, None) => false,
                        (None, Some(_)) => res.len() == count, // ia was left out although the answer is full
                        (Some(x), Some(y)) => y < x,
                    };
                    if !b_ahead || ia == ib {
                        continue;
                    }
                    let eligible = |t: f64| !t.is_nan() && (!used.exclude_untrusted || t >= used.min_trust_threshold);
                    if !eligible(*ta) || !eligible(*tb) {
                        continue;
                    }
                    if ta == tb && dist_lt(ia, ib, &key) {
                        panic!("VERIF-SEARCH-HIT C16/select/closer_first_at_equal_trust farther={} ranked ahead of closer={} trust={} {}", hex(ib), hex(ia), ta, ctx());
                    }
                }
            }
        }
    }
}

#[cfg(test)]
include!("/verif/.build/replay/trust_peer_selector.rs");
