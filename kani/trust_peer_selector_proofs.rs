//! @module dht::trust_peer_selector::verif_proofs
//! Kani contracts for TrustAwarePeerSelector (C16 selection clauses). The trust provider is a
//! harness-defined table returning arbitrary f64 values (NaN, infinities, out-of-range included).
use super::*;
use std::mem::ManuallyDrop;
use std::time::SystemTime;

const MAXC: usize = 4;

struct SymTrust {
    ids: [[u8; 32]; MAXC],
    t: [f64; MAXC],
    n: usize,
}
impl TrustProvider for SymTrust {
    fn get_trust(&self, node: &AdaptiveNodeId) -> f64 {
        let mut i = 0;
        while i < MAXC {
            if i < self.n && self.ids[i] == node.hash {
                return self.t[i];
            }
            i += 1;
        }
        0.0
    }
    fn update_trust(&self, _from: &AdaptiveNodeId, _to: &AdaptiveNodeId, _success: bool) {}
    fn get_global_trust(&self) -> std::collections::HashMap<AdaptiveNodeId, f64> {
        unreachable!()
    }
    fn remove_node(&self, _node: &AdaptiveNodeId) {}
}

fn mk_node(id: [u8; 32]) -> NodeInfo {
    NodeInfo {
        id: NodeId::from_bytes(id),
        address: String::new(),
        last_seen: SystemTime::UNIX_EPOCH,
        capacity: crate::dht::core_engine::NodeCapacity { storage_available: 0, bandwidth_available: 0, reliability_score: 0.0 },
    }
}

/// full 256-bit XOR distance comparison: dist(a,key) < dist(b,key)
fn dist_lt(a: &[u8; 32], b: &[u8; 32], key: &[u8; 32]) -> bool {
    let mut i = 0;
    while i < 32 {
        let (da, db) = (a[i] ^ key[i], b[i] ^ key[i]);
        if da != db {
            return da < db;
        }
        i += 1;
    }
    false
}

fn any_cfg() -> TrustSelectionConfig {
    let c = TrustSelectionConfig { trust_weight: kani::any(), min_trust_threshold: kani::any(), exclude_untrusted: kani::any() };
    // documented range of the weight ("0.0-1.0")
    kani::assume(c.trust_weight >= 0.0 && c.trust_weight <= 1.0);
    c
}

struct Setup {
    sel: ManuallyDrop<TrustAwarePeerSelector<SymTrust>>,
    cands: ManuallyDrop<Vec<NodeInfo>>,
    ids: [[u8; 32]; MAXC],
    t: [f64; MAXC],
    key: [u8; 32],
}

fn setup(n: usize, low_bytes_only: bool) -> Setup {
    let key: [u8; 32] = kani::any();
    let mut ids = [[0u8; 32]; MAXC];
    let mut t = [0.0f64; MAXC];
    let mut cands = Vec::with_capacity(n + 1);
    let mut i = 0;
    while i < n {
        let id: [u8; 32] = kani::any();
        if low_bytes_only {
            // candidates that differ from the key only in the low-order 16 bytes
            let mut b = 0;
            while b < 16 {
                kani::assume(id[b] == key[b]);
                b += 1;
            }
        }
        let mut j = 0;
        while j < i {
            kani::assume(ids[j] != id);
            j += 1;
        }
        ids[i] = id;
        t[i] = kani::any();
        cands.push(mk_node(id));
        i += 1;
    }
    let prov = SymTrust { ids, t, n };
    let sel = TrustAwarePeerSelector { trust_provider: Arc::new(prov), config: any_cfg(), storage_config: any_cfg() };
    Setup { sel: ManuallyDrop::new(sel), cands: ManuallyDrop::new(cands), ids, t, key }
}

fn trust_of(s: &Setup, id: &[u8; 32], n: usize) -> f64 {
    let mut i = 0;
    while i < MAXC {
        if i < n && &s.ids[i] == id {
            return s.t[i];
        }
        i += 1;
    }
    0.0
}

fn check_result(s: &Setup, n: usize, res: &Vec<NodeInfo>, count: usize, cfg: &TrustSelectionConfig) {
    assert!(res.len() <= count && res.len() <= n, "C16/select/at_most_the_requested_number");
    let mut a = 0;
    while a < MAXC {
        if a < res.len() {
            let ia = res[a].id.as_bytes();
            let mut member = false;
            let mut j = 0;
            while j < MAXC {
                if j < n && &s.ids[j] == ia {
                    member = true;
                }
                j += 1;
            }
            assert!(member, "C16/select/members_of_the_candidates");
            let ta = trust_of(s, ia, n);
            if cfg.exclude_untrusted {
                assert!(!(ta < cfg.min_trust_threshold), "C16/select/never_below_the_trust_floor_when_excluding");
            }
            let mut b = a + 1;
            while b < MAXC {
                if b < res.len() {
                    assert!(res[b].id.as_bytes() != ia, "C16/select/distinct");
                }
                b += 1;
            }
            if a + 1 < res.len() {
                let ib = res[a + 1].id.as_bytes();
                let tb = trust_of(s, ib, n);
                // never a farther peer ahead of a closer one of equal trust
                if ta == tb {
                    assert!(!dist_lt(ib, ia, &s.key), "C16/select/closer_first_at_equal_trust");
                }
            }
        }
        a += 1;
    }
}

fn check_select(n: usize, low: bool) {
    let s = setup(n, low);
    let count: usize = kani::any();
    kani::assume(count <= MAXC + 1);
    let key = DhtKey::from_bytes(s.key);
    let res = ManuallyDrop::new(s.sel.select_peers(&key, &s.cands, count));
    kani::cover!(res.len() >= 2, "C16/select/cover_two_selected");
    check_result(&s, n, &res, count, &s.sel.config);
}

fn check_storage(n: usize) {
    let mut s = setup(n, false);
    // the shipped storage configuration (floor 0.2, exclusion on)
    s.sel.storage_config = TrustSelectionConfig::for_storage();
    let count: usize = kani::any();
    kani::assume(count <= MAXC + 1);
    let key = DhtKey::from_bytes(s.key);
    let res = ManuallyDrop::new(s.sel.select_storage_peers(&key, &s.cands, count));
    let mut a = 0;
    while a < MAXC {
        if a < res.len() {
            let ta = trust_of(&s, res[a].id.as_bytes(), n);
            assert!(!(ta < 0.2), "C16/select/storage_never_below_the_storage_floor");
        }
        a += 1;
    }
    check_result(&s, n, &res, count, &s.sel.storage_config);
}

// @verif property=C16 class=bounded bound="0..=3 candidates with distinct fully symbolic ids; trust any f64 incl. NaN/inf/out-of-range; count 0..=5; trust_weight in [0,1]" fns=TrustAwarePeerSelector::select_peers,TrustAwarePeerSelector::select_peers_with_config,TrustAwarePeerSelector::compute_score,TrustAwarePeerSelector::get_trust_for_node,xor_distance uses=check_select,check_result,setup,any_cfg tier=parked panic=violation
#[kani::proof]
#[kani::unwind(34)]
fn c16_select_peers_3() {
    let mut n = 0;
    while n <= 3 {
        check_select(n, false);
        n += 1;
    }
}

// @verif property=C16 class=bounded bound="2..=3 candidates whose ids differ from the key only in the low-order 16 bytes" fns=TrustAwarePeerSelector::select_peers,TrustAwarePeerSelector::compute_score,xor_distance uses=check_select,check_result,setup,any_cfg tier=parked panic=violation
#[kani::proof]
#[kani::unwind(34)]
fn c16_select_peers_low_order_ids() {
    check_select(2, true);
    check_select(3, true);
}

// @verif property=C16 class=bounded bound="0..=3 candidates; shipped storage configuration" fns=TrustAwarePeerSelector::select_storage_peers,TrustSelectionConfig::for_storage uses=check_storage,check_result,setup,any_cfg tier=parked panic=violation
#[kani::proof]
#[kani::unwind(34)]
fn c16_select_storage_peers_3() {
    let mut n = 0;
    while n <= 3 {
        check_storage(n);
        n += 1;
    }
}

#[cfg(test)]
include!("/verif/.build/replay/trust_peer_selector.rs");
